//! Shared code for the tensor checks C07 (iterators) and C09 (layout ops):
//!
//!  * plain index arithmetic (row-major ravel/unravel) that does not touch rten;
//!  * "layout recipes": serialisable descriptions that build, *by construction*,
//!    a possibly non-contiguous view of a chosen logical shape over a larger
//!    contiguous buffer (permute, positive-step slicing, offset, broadcast of
//!    size-1 dims, unit axes with odd strides, padding in storage);
//!  * `RefArray`, a naive dense array model with NumPy semantics, used as the
//!    oracle for every layout-changing operation.

use proptest::prelude::*;
use rten_tensor::prelude::*;
use rten_tensor::{Tensor, TensorView, TensorViewMut};
use serde::{Deserialize, Serialize};

// ---------------------------------------------------------------------------
// Index arithmetic
// ---------------------------------------------------------------------------

pub fn numel(shape: &[usize]) -> usize {
    shape.iter().product()
}

pub fn contiguous_strides(shape: &[usize]) -> Vec<usize> {
    let mut s = vec![0usize; shape.len()];
    let mut acc = 1usize;
    for i in (0..shape.len()).rev() {
        s[i] = acc;
        acc *= shape[i];
    }
    s
}

pub fn unravel(mut lin: usize, shape: &[usize]) -> Vec<usize> {
    let mut idx = vec![0usize; shape.len()];
    for i in (0..shape.len()).rev() {
        if shape[i] == 0 {
            return idx;
        }
        idx[i] = lin % shape[i];
        lin /= shape[i];
    }
    idx
}

pub fn ravel(idx: &[usize], shape: &[usize]) -> usize {
    let mut lin = 0usize;
    for i in 0..shape.len() {
        lin = lin * shape[i] + idx[i];
    }
    lin
}

/// Row-major contiguity, ignoring size-1 dims (their stride is irrelevant).
/// Empty layouts are judged by the same rule on their shape/strides.
pub fn is_contiguous(shape: &[usize], strides: &[usize]) -> bool {
    let mut product = 1usize;
    for i in (0..shape.len()).rev() {
        if shape[i] == 1 {
            continue;
        }
        if strides[i] != product {
            return false;
        }
        product *= shape[i];
    }
    true
}

/// All indices of `shape` in row-major order.
pub fn indices(shape: &[usize]) -> Vec<Vec<usize>> {
    let n = numel(shape);
    (0..n).map(|l| unravel(l, shape)).collect()
}

/// Storage offset of a logical index.
pub fn offset_of(idx: &[usize], strides: &[usize]) -> usize {
    idx.iter().zip(strides).map(|(i, s)| i * s).sum()
}

/// Smallest storage length that holds every element of the layout.
pub fn min_data_len(shape: &[usize], strides: &[usize]) -> usize {
    if shape.iter().any(|&d| d == 0) {
        return 0;
    }
    shape.iter().zip(strides).map(|(n, s)| (n - 1) * s).sum::<usize>() + 1
}

/// Merge adjacent dims the way a stride-aware iterator may (harness's own
/// implementation; used only for classification labels).
pub fn merged_dims(shape: &[usize], strides: &[usize]) -> Vec<(usize, usize)> {
    if shape.is_empty() {
        return vec![];
    }
    let mut out: Vec<(usize, usize)> = vec![(shape[shape.len() - 1], strides[shape.len() - 1])];
    for i in (0..shape.len() - 1).rev() {
        let (isz, ist) = *out.last().unwrap();
        if shape[i] == 1 || strides[i] == ist * isz {
            out.last_mut().unwrap().0 *= shape[i];
        } else {
            out.push((shape[i], strides[i]));
        }
    }
    out.reverse();
    out
}

/// Which branch of a "copy into contiguous slice" routine a layout with this
/// shape/strides is expected to take (classification label only).
pub fn copy_path_label(shape: &[usize], strides: &[usize], elem_size: usize) -> &'static str {
    if numel(shape) == 0 {
        return "copy:empty";
    }
    if is_contiguous(shape, strides) {
        return "copy:contiguous";
    }
    let m = merged_dims(shape, strides);
    if m.len() > 4 {
        return "copy:rank>4";
    }
    let (isz, ist) = *m.last().unwrap();
    if ist % 16 == 0 && ist >= 32 {
        "copy:blocked-transpose"
    } else if ist == 1 && isz * elem_size >= 32 {
        "copy:memcpy-lanes"
    } else {
        "copy:general"
    }
}

// ---------------------------------------------------------------------------
// Layout recipes
// ---------------------------------------------------------------------------

#[derive(Clone, Debug, Serialize, Deserialize, PartialEq)]
pub enum DimKind {
    /// Base dim of size n, stride = base stride.
    Plain,
    /// Every `step`-th element starting at `start`, with `pad` unused trailing
    /// elements in the base dim.
    Stepped { start: usize, step: usize, pad: usize },
    /// Base dim of size 1 viewed with stride 0 as size n (immutable views only).
    Broadcast,
    /// Logical size 1 with an arbitrary stride.
    Unit { stride: usize },
}

#[derive(Clone, Debug, Serialize, Deserialize, PartialEq)]
pub struct DimSpec {
    pub n: usize,
    pub kind: DimKind,
}

impl DimSpec {
    pub fn size(&self) -> usize {
        match self.kind {
            DimKind::Unit { .. } => 1,
            _ => self.n,
        }
    }
    fn base_size(&self) -> usize {
        match self.kind {
            DimKind::Plain => self.n,
            DimKind::Stepped { start, step, pad } => {
                if self.n == 0 {
                    start + pad
                } else {
                    start + (self.n - 1) * step.max(1) + 1 + pad
                }
            }
            DimKind::Broadcast | DimKind::Unit { .. } => 1,
        }
    }
}

/// `dims` are in storage order (outermost first); the logical dim `j` is the
/// storage dim `order()[j]` where `order` is the stable argsort of `perm`.
#[derive(Clone, Debug, Serialize, Deserialize, PartialEq)]
pub struct Recipe {
    pub dims: Vec<DimSpec>,
    pub perm: Vec<u8>,
    /// View storage is exactly min_data_len long (true) or runs to the end of
    /// the base buffer (false).
    pub tight: bool,
}

#[derive(Clone, Debug)]
pub struct Built {
    pub shape: Vec<usize>,
    pub strides: Vec<usize>,
    /// Offset of logical index 0 in the base buffer.
    pub offset: usize,
    /// Length of the base buffer.
    pub storage_len: usize,
    /// Range of the base buffer handed to the view.
    pub range: std::ops::Range<usize>,
}

impl Recipe {
    pub fn contiguous(shape: &[usize]) -> Recipe {
        Recipe {
            dims: shape.iter().map(|&n| DimSpec { n, kind: DimKind::Plain }).collect(),
            perm: vec![0; shape.len()],
            tight: true,
        }
    }

    pub fn order(&self) -> Vec<usize> {
        let mut o: Vec<usize> = (0..self.dims.len()).collect();
        o.sort_by_key(|&i| self.perm.get(i).copied().unwrap_or(0));
        o
    }

    pub fn has_broadcast(&self) -> bool {
        self.dims.iter().any(|d| matches!(d.kind, DimKind::Broadcast) && d.n > 1)
    }

    pub fn build(&self) -> Built {
        let base: Vec<usize> = self.dims.iter().map(|d| d.base_size()).collect();
        let bstr = contiguous_strides(&base);
        let storage_len = numel(&base);
        let order = self.order();
        let mut shape = Vec::new();
        let mut strides = Vec::new();
        let mut offset = 0usize;
        for &i in &order {
            let d = &self.dims[i];
            shape.push(d.size());
            match d.kind {
                DimKind::Plain => strides.push(bstr[i]),
                DimKind::Stepped { start, step, .. } => {
                    strides.push(bstr[i] * step.max(1));
                    offset += start * bstr[i];
                }
                DimKind::Broadcast => strides.push(0),
                DimKind::Unit { stride } => strides.push(stride),
            }
        }
        let min_len = min_data_len(&shape, &strides);
        if min_len == 0 {
            offset = 0;
        }
        let range = if self.tight { offset..offset + min_len } else { offset..storage_len.max(offset) };
        Built { shape, strides, offset, storage_len, range }
    }

    /// Base buffer and the expected logical element list. Elements are the
    /// linear logical index of the (first) logical position stored there;
    /// unused storage holds distinct negative sentinels.
    pub fn fill(&self) -> (Built, Vec<i32>, Vec<i32>) {
        let b = self.build();
        let mut data: Vec<i32> = (0..b.storage_len).map(|k| -(k as i32) - 1).collect();
        let n = numel(&b.shape);
        let mut expected = Vec::with_capacity(n);
        for lin in 0..n {
            let idx = unravel(lin, &b.shape);
            let off = b.offset + offset_of(&idx, &b.strides);
            if data[off] < 0 {
                data[off] = lin as i32;
            }
            expected.push(data[off]);
        }
        (b, data, expected)
    }

    pub fn labels(&self, b: &Built) -> Vec<&'static str> {
        let mut l = Vec::new();
        let empty = numel(&b.shape) == 0;
        l.push(if is_contiguous(&b.shape, &b.strides) { "layout:contiguous" } else { "layout:noncontiguous" });
        let order = self.order();
        if order.iter().enumerate().any(|(i, &o)| i != o) {
            l.push("layout:permuted");
        }
        if self.dims.iter().any(|d| matches!(d.kind, DimKind::Stepped { step, .. } if step > 1) && d.n > 1) {
            l.push("layout:stepped");
        }
        if b.offset > 0 {
            l.push("layout:offset");
        }
        if self.has_broadcast() {
            l.push("layout:broadcast");
        }
        if empty {
            l.push("layout:empty");
        }
        if b.shape.iter().any(|&n| n == 1) {
            l.push("layout:unit-dims");
        }
        if b.shape.is_empty() {
            l.push("layout:rank0");
        }
        if b.shape.len() > 4 {
            l.push("layout:rank>4");
        }
        if merged_dims(&b.shape, &b.strides).len() >= 3 && !empty {
            l.push("layout:merged-rank>=3");
        }
        if !self.tight && b.range.len() > min_data_len(&b.shape, &b.strides) {
            l.push("layout:storage-longer-than-needed");
        }
        l
    }

    /// Reduce sizes (deterministically) until the logical element count and
    /// the base buffer are small enough.
    pub fn capped(mut self, max_elems: usize, max_storage: usize) -> Recipe {
        loop {
            let b = self.build();
            if numel(&b.shape) <= max_elems && b.storage_len <= max_storage {
                return self;
            }
            // shrink the dim with the largest base size
            let (i, _) = self
                .dims
                .iter()
                .enumerate()
                .max_by_key(|(_, d)| d.base_size().max(d.size()))
                .expect("non-empty");
            let d = &mut self.dims[i];
            if d.n > 2 {
                d.n = d.n / 2;
            } else {
                d.kind = match d.kind {
                    DimKind::Broadcast => DimKind::Broadcast,
                    _ => DimKind::Plain,
                };
                if d.n > 1 {
                    d.n = 1;
                } else if d.base_size() > 1 {
                    d.n = 1;
                } else {
                    // cannot shrink further: drop the dim
                    self.dims.remove(i);
                    if i < self.perm.len() {
                        self.perm.remove(i);
                    }
                }
            }
        }
    }
}

pub fn view_of<'a>(b: &Built, data: &'a [i32]) -> TensorView<'a, i32> {
    TensorView::from_slice_with_strides(&b.shape, &data[b.range.clone()], &b.strides)
        .expect("recipe builds a valid immutable view")
}

pub fn view_mut_of<'a>(b: &Built, data: &'a mut [i32]) -> TensorViewMut<'a, i32> {
    TensorViewMut::from_data_with_strides(&b.shape, &mut data[b.range.clone()], &b.strides)
        .expect("recipe without broadcast builds a valid mutable view")
}

pub fn owned_of(b: &Built, data: &[i32]) -> Tensor<i32> {
    Tensor::from_data_with_strides(&b.shape, data[b.range.clone()].to_vec(), &b.strides)
        .expect("recipe without broadcast builds a valid owned tensor")
}

// ---- strategies -----------------------------------------------------------

pub fn dim_size() -> impl Strategy<Value = usize> {
    prop_oneof![
        1 => Just(0usize),
        3 => Just(1usize),
        5 => Just(2usize),
        5 => Just(3usize),
        3 => 4usize..=6,
    ]
}

pub fn dim_spec(allow_broadcast: bool) -> BoxedStrategy<DimSpec> {
    let plain = dim_size().prop_map(|n| DimSpec { n, kind: DimKind::Plain });
    let stepped = (dim_size(), 0usize..=2, 1usize..=3, 0usize..=2)
        .prop_map(|(n, start, step, pad)| DimSpec { n, kind: DimKind::Stepped { start, step, pad } });
    // zero strides only where broadcasting is allowed (immutable views)
    let unit = if allow_broadcast {
        prop_oneof![Just(0usize), Just(1), Just(3), Just(7), Just(1000)].boxed()
    } else {
        prop_oneof![Just(1usize), Just(3), Just(7), Just(1000)].boxed()
    }
    .prop_map(|stride| DimSpec { n: 1, kind: DimKind::Unit { stride } });
    if allow_broadcast {
        let bc = dim_size().prop_map(|n| DimSpec { n, kind: DimKind::Broadcast });
        prop_oneof![6 => plain, 4 => stepped, 1 => unit, 2 => bc].boxed()
    } else {
        prop_oneof![6 => plain, 4 => stepped, 1 => unit].boxed()
    }
}

fn perm_keys(len: usize) -> BoxedStrategy<Vec<u8>> {
    prop_oneof![
        2 => Just(vec![0u8; len]),
        3 => proptest::collection::vec(0u8..6, len..=len),
    ]
    .boxed()
}

/// General small recipes: rank 0..=max_rank, dims 0..=6.
pub fn small_recipe(max_rank: usize, allow_broadcast: bool) -> BoxedStrategy<Recipe> {
    (0..=max_rank)
        .prop_flat_map(move |r| {
            (
                proptest::collection::vec(dim_spec(allow_broadcast), r..=r),
                perm_keys(r),
                any::<bool>(),
            )
        })
        .prop_map(|(dims, perm, tight)| Recipe { dims, perm, tight }.capped(400, 30_000))
        .boxed()
}

fn plain(n: usize) -> DimSpec {
    DimSpec { n, kind: DimKind::Plain }
}

/// Shapes that steer a copy routine into its special branches.
pub fn special_recipe() -> BoxedStrategy<Recipe> {
    // (a) transposed matrix with inner stride a multiple of 16 and >= 32
    let transposed = (
        prop_oneof![Just(32usize), Just(48), Just(64), Just(80)],
        prop_oneof![4 => 1usize..=9, 1 => 60usize..=70],
        prop_oneof![3 => Just(None), 1 => (1usize..=3).prop_map(Some)],
    )
        .prop_map(|(a, b, outer)| match outer {
            None => Recipe { dims: vec![plain(b), plain(a)], perm: vec![1, 0], tight: true },
            Some(o) => Recipe { dims: vec![plain(o), plain(b), plain(a)], perm: vec![0, 2, 1], tight: true },
        });
    // (b) inner dim stepped by 32/48/64
    let strided_inner = (1usize..=5, 1usize..=9, prop_oneof![Just(32usize), Just(48), Just(64)], 0usize..=1)
        .prop_map(|(m, n, step, start)| Recipe {
            dims: vec![plain(m), DimSpec { n, kind: DimKind::Stepped { start, step, pad: 0 } }],
            perm: vec![0, 0],
            tight: false,
        });
    // (c) contiguous inner lane of >= 8 i32 under non-contiguous outer dims
    let memcpy = (1usize..=3, 1usize..=4, 8usize..=40, any::<bool>(), 1usize..=3)
        .prop_map(|(n1, n2, inner, swap, step)| Recipe {
            dims: vec![
                DimSpec { n: n1, kind: DimKind::Stepped { start: 1, step, pad: 0 } },
                plain(n2),
                DimSpec { n: inner, kind: DimKind::Stepped { start: 0, step: 1, pad: 3 } },
            ],
            perm: if swap { vec![1, 0, 2] } else { vec![0, 0, 0] },
            tight: true,
        });
    // (d) rank 5..=6 that does not merge
    let rank5 = (5usize..=6)
        .prop_flat_map(|r| {
            (
                proptest::collection::vec(
                    (1usize..=3, 1usize..=2, any::<bool>()).prop_map(|(n, step, st)| {
                        if st {
                            DimSpec { n, kind: DimKind::Stepped { start: 0, step, pad: 1 } }
                        } else {
                            plain(n)
                        }
                    }),
                    r..=r,
                ),
                proptest::collection::vec(0u8..6, r..=r),
            )
        })
        .prop_map(|(dims, perm)| Recipe { dims, perm, tight: true }.capped(800, 60_000));
    prop_oneof![transposed, strided_inner, memcpy, rank5].boxed()
}

// ---------------------------------------------------------------------------
// Reference array model
// ---------------------------------------------------------------------------

#[derive(Clone, Debug, PartialEq)]
pub struct RefArray {
    pub shape: Vec<usize>,
    /// Elements in row-major order.
    pub data: Vec<i32>,
}

/// The reference says the request is invalid (reason).
#[derive(Clone, Debug, PartialEq)]
pub struct Invalid(pub String);

fn inv<T>(s: impl Into<String>) -> Result<T, Invalid> {
    Err(Invalid(s.into()))
}

#[derive(Clone, Copy, Debug, Serialize, Deserialize, PartialEq)]
pub enum RItem {
    Index(isize),
    Range { start: isize, end: Option<isize>, step: isize },
}

impl RefArray {
    pub fn new(shape: Vec<usize>, data: Vec<i32>) -> RefArray {
        assert_eq!(numel(&shape), data.len());
        RefArray { shape, data }
    }

    pub fn from_fn(shape: Vec<usize>, mut f: impl FnMut(&[usize]) -> i32) -> RefArray {
        let n = numel(&shape);
        let mut data = Vec::with_capacity(n);
        for lin in 0..n {
            data.push(f(&unravel(lin, &shape)));
        }
        RefArray { shape, data }
    }

    pub fn ndim(&self) -> usize {
        self.shape.len()
    }
    pub fn len(&self) -> usize {
        self.data.len()
    }
    pub fn is_empty(&self) -> bool {
        self.data.is_empty()
    }

    pub fn get(&self, idx: &[usize]) -> i32 {
        debug_assert!(idx.iter().zip(&self.shape).all(|(i, n)| i < n));
        self.data[ravel(idx, &self.shape)]
    }

    pub fn permute(&self, order: &[usize]) -> Result<RefArray, Invalid> {
        let nd = self.ndim();
        if order.len() != nd || (0..nd).any(|d| order.iter().filter(|&&o| o == d).count() != 1) {
            return inv("not a permutation");
        }
        let shape: Vec<usize> = order.iter().map(|&o| self.shape[o]).collect();
        Ok(RefArray::from_fn(shape, |idx| {
            let mut src = vec![0; nd];
            for (j, &o) in order.iter().enumerate() {
                src[o] = idx[j];
            }
            self.get(&src)
        }))
    }

    pub fn transpose(&self) -> RefArray {
        let order: Vec<usize> = (0..self.ndim()).rev().collect();
        self.permute(&order).unwrap()
    }

    pub fn move_axis(&self, from: usize, to: usize) -> Result<RefArray, Invalid> {
        let nd = self.ndim();
        if from >= nd || to >= nd {
            return inv("axis out of range");
        }
        let mut order: Vec<usize> = (0..nd).collect();
        let a = order.remove(from);
        order.insert(to, a);
        self.permute(&order)
    }

    pub fn index_axis(&self, axis: usize, index: usize) -> Result<RefArray, Invalid> {
        if axis >= self.ndim() {
            return inv("axis out of range");
        }
        if index >= self.shape[axis] {
            return inv("index out of range");
        }
        let mut shape = self.shape.clone();
        shape.remove(axis);
        Ok(RefArray::from_fn(shape, |idx| {
            let mut src = idx.to_vec();
            src.insert(axis, index);
            self.get(&src)
        }))
    }

    pub fn slice_axis(&self, axis: usize, start: usize, end: usize) -> Result<RefArray, Invalid> {
        if axis >= self.ndim() {
            return inv("axis out of range");
        }
        if start > end || end > self.shape[axis] {
            return inv("range out of bounds");
        }
        let mut shape = self.shape.clone();
        shape[axis] = end - start;
        Ok(RefArray::from_fn(shape, |idx| {
            let mut src = idx.to_vec();
            src[axis] += start;
            self.get(&src)
        }))
    }

    /// Indices selected from a dim of size `size` by one item.
    /// `clamp == false`: strict view slicing (positive step, endpoints must
    /// resolve into [0, size]). `clamp == true`: Python `slice.indices`.
    pub fn item_indices(item: &RItem, size: usize, clamp: bool) -> Result<(Vec<usize>, bool), Invalid> {
        let n = size as isize;
        match *item {
            RItem::Index(i) => {
                let p = if i < 0 { i + n } else { i };
                if p < 0 || p >= n {
                    return inv("index out of range");
                }
                Ok((vec![p as usize], true))
            }
            RItem::Range { start, end, step } => {
                if step == 0 {
                    return inv("zero step");
                }
                if !clamp {
                    if step < 0 {
                        return inv("negative step in a view slice");
                    }
                    let s = if start < 0 { start + n } else { start };
                    let e = match end {
                        Some(e) => {
                            if e < 0 {
                                e + n
                            } else {
                                e
                            }
                        }
                        None => n,
                    };
                    if s < 0 || s > n || e < 0 || e > n {
                        return inv("range endpoint out of bounds");
                    }
                    let mut v = Vec::new();
                    let mut i = s;
                    while i < e {
                        v.push(i as usize);
                        i += step;
                    }
                    Ok((v, false))
                } else if step > 0 {
                    let fix = |x: isize| -> isize {
                        let x = if x < 0 { x + n } else { x };
                        x.clamp(0, n)
                    };
                    let s = fix(start);
                    let e = end.map(fix).unwrap_or(n);
                    let mut v = Vec::new();
                    let mut i = s;
                    while i < e {
                        v.push(i as usize);
                        i += step;
                    }
                    Ok((v, false))
                } else {
                    let fix = |x: isize| -> isize {
                        let x = if x < 0 { x + n } else { x };
                        x.clamp(-1, n - 1)
                    };
                    let s = fix(start);
                    let e = end.map(fix).unwrap_or(-1);
                    let mut v = Vec::new();
                    let mut i = s;
                    while i > e {
                        v.push(i as usize);
                        i += step;
                    }
                    Ok((v, false))
                }
            }
        }
    }

    pub fn slice(&self, items: &[RItem], clamp: bool) -> Result<RefArray, Invalid> {
        if items.len() > self.ndim() {
            return inv("too many slice items");
        }
        let mut sel: Vec<(Vec<usize>, bool)> = Vec::new();
        for d in 0..self.ndim() {
            match items.get(d) {
                Some(it) => sel.push(Self::item_indices(it, self.shape[d], clamp)?),
                None => sel.push(((0..self.shape[d]).collect(), false)),
            }
        }
        let shape: Vec<usize> = sel.iter().filter(|(_, drop)| !drop).map(|(v, _)| v.len()).collect();
        Ok(RefArray::from_fn(shape, |idx| {
            let mut src = Vec::with_capacity(self.ndim());
            let mut j = 0;
            for (v, drop) in &sel {
                if *drop {
                    src.push(v[0]);
                } else {
                    src.push(v[idx[j]]);
                    j += 1;
                }
            }
            self.get(&src)
        }))
    }

    pub fn broadcast(&self, target: &[usize]) -> Result<RefArray, Invalid> {
        if target.len() < self.ndim() {
            return inv("target has fewer dims");
        }
        let pad = target.len() - self.ndim();
        for d in 0..self.ndim() {
            if self.shape[d] != target[pad + d] && self.shape[d] != 1 {
                return inv("dim not broadcastable");
            }
        }
        Ok(RefArray::from_fn(target.to_vec(), |idx| {
            let src: Vec<usize> =
                (0..self.ndim()).map(|d| if self.shape[d] == 1 { 0 } else { idx[pad + d] }).collect();
            self.get(&src)
        }))
    }

    pub fn reshape(&self, shape: &[usize]) -> Result<RefArray, Invalid> {
        if numel(shape) != self.len() {
            return inv("element count mismatch");
        }
        Ok(RefArray { shape: shape.to_vec(), data: self.data.clone() })
    }

    pub fn squeeze(&self) -> RefArray {
        RefArray { shape: self.shape.iter().copied().filter(|&n| n != 1).collect(), data: self.data.clone() }
    }

    pub fn insert_axis(&self, at: usize) -> Result<RefArray, Invalid> {
        if at > self.ndim() {
            return inv("axis out of range");
        }
        let mut shape = self.shape.clone();
        shape.insert(at, 1);
        Ok(RefArray { shape, data: self.data.clone() })
    }

    pub fn remove_axis(&self, at: usize) -> Result<RefArray, Invalid> {
        if at >= self.ndim() {
            return inv("axis out of range");
        }
        if self.shape[at] != 1 {
            return inv("axis not of size 1");
        }
        let mut shape = self.shape.clone();
        shape.remove(at);
        Ok(RefArray { shape, data: self.data.clone() })
    }

    pub fn split_at(&self, axis: usize, mid: usize) -> Result<(RefArray, RefArray), Invalid> {
        if axis >= self.ndim() {
            return inv("axis out of range");
        }
        if mid > self.shape[axis] {
            return inv("mid out of range");
        }
        Ok((self.slice_axis(axis, 0, mid)?, self.slice_axis(axis, mid, self.shape[axis])?))
    }

    pub fn append(&self, axis: usize, other: &RefArray) -> Result<RefArray, Invalid> {
        if axis >= self.ndim() {
            return inv("axis out of range");
        }
        if other.ndim() != self.ndim() || (0..self.ndim()).any(|d| d != axis && self.shape[d] != other.shape[d]) {
            return inv("shape mismatch");
        }
        let mut shape = self.shape.clone();
        shape[axis] += other.shape[axis];
        let split = self.shape[axis];
        Ok(RefArray::from_fn(shape, |idx| {
            if idx[axis] < split {
                self.get(idx)
            } else {
                let mut o = idx.to_vec();
                o[axis] -= split;
                other.get(&o)
            }
        }))
    }

    pub fn map(&self, f: impl Fn(i32) -> i32) -> RefArray {
        RefArray { shape: self.shape.clone(), data: self.data.iter().map(|&x| f(x)).collect() }
    }
}

/// Read a dynamic-rank view through `shape()` and `get(index)` only.
pub fn read_view(v: &TensorView<i32>) -> Result<RefArray, String> {
    let shape: Vec<usize> = v.shape().to_vec();
    let n = numel(&shape);
    let mut data = Vec::with_capacity(n);
    for lin in 0..n {
        let idx = unravel(lin, &shape);
        match v.get(&idx[..]) {
            Some(x) => data.push(*x),
            None => return Err(format!("get({idx:?}) returned None for shape {shape:?}")),
        }
    }
    Ok(RefArray { shape, data })
}

/// First difference between an observed and an expected array.
pub fn diff(actual: &RefArray, expected: &RefArray) -> Option<(&'static str, String)> {
    if actual.shape != expected.shape {
        return Some(("shape", format!("shape {:?}, expected {:?}", actual.shape, expected.shape)));
    }
    if let Some(p) = (0..expected.data.len()).find(|&i| actual.data[i] != expected.data[i]) {
        return Some((
            "elems",
            format!(
                "element at logical index {:?} is {}, expected {} (shape {:?}; got {:?}, expected {:?})",
                unravel(p, &expected.shape),
                actual.data[p],
                expected.data[p],
                expected.shape,
                short(&actual.data),
                short(&expected.data)
            ),
        ));
    }
    None
}

pub fn short(v: &[i32]) -> String {
    if v.len() <= 24 {
        format!("{v:?}")
    } else {
        format!("{:?}…(+{})", &v[..24], v.len() - 24)
    }
}

/// Monotone selection of one of `n` valid values, or `n` itself (an invalid
/// request) for the top of the raw range. Shrinks towards the first valid value.
pub fn sel(raw: u8, n: usize) -> usize {
    if raw >= 232 || n == 0 {
        n
    } else {
        (raw as usize * n) / 232
    }
}

/// Like `sel` but never invalid.
pub fn sel_valid(raw: u8, n: usize) -> usize {
    debug_assert!(n > 0);
    (raw as usize * n) / 256
}

/// The engine records every case in a per-thread "slot" file under
/// `std::env::temp_dir()` before running it (crash attribution). With 16
/// runner threads on the root filesystem that costs ~0.8 ms per case (50 s per
/// 60k cases); on tmpfs it is ~50 µs. Point the slot directory at /dev/shm
/// when it exists and the caller has not chosen a TMPDIR. Must run before
/// `Check::new` (the supervisor creates the directory and removes it again).
pub fn fast_slot_dir() {
    if std::env::var_os("TMPDIR").is_none() && std::path::Path::new("/dev/shm").is_dir() {
        std::env::set_var("TMPDIR", "/dev/shm");
    }
}

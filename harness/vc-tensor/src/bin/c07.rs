//! C07 — tensor iterators yield exactly the logical elements in order.
//!
//! Model-based check. A layout recipe builds a (possibly non-contiguous) view
//! whose elements are their own linear logical index. The model of an iterator
//! is a `VecDeque` of the items it still has to yield (scalars, lanes, inner
//! views, axis slices, axis chunks — each compared by shape and element list).
//! A generated history of next / next_back / nth / len / split_at / fold /
//! rev / collect operations is interpreted against both; `split_at` (the public
//! `SplitIterator` trait, "left yields the first `index` items") splits the
//! deque, so the harness owns the split tree a parallel scheduler would choose.
//! Mutable iterators additionally must never hand out the same address twice.
//! A second sub-check drives the real rayon bridge (`into_par_iter`) with
//! 1 / 3 / 16 threads and forced fine-grained splitting.

use proptest::prelude::*;
use rayon::prelude::*;
use rten_base::iter::SplitIterator;
use rten_tensor::prelude::*;
use rten_tensor::{TensorView, TensorViewMut};
use serde::{Deserialize, Serialize};
use std::collections::{HashSet, VecDeque};
use std::sync::OnceLock;
use vc_tensor::*;
use vcore::{Check, Verdict};

#[derive(Clone, Copy, Debug, Serialize, Deserialize, PartialEq)]
enum Kind {
    Iter,
    IterMut,
    Lanes { dim: u8 },
    LanesMut { dim: u8 },
    /// `inner_iter::<N>()`, N = min(n, ndim, 3)
    InnerIter { n: u8 },
    InnerIterDyn { n: u8 },
    InnerIterMut { n: u8 },
    InnerIterDynMut { n: u8 },
    AxisIter { dim: u8 },
    AxisIterMut { dim: u8 },
    AxisChunks { dim: u8, size: u8 },
    AxisChunksMut { dim: u8, size: u8 },
    /// static-rank (`NdLayout<N>`) variants, ranks 1..=4
    NdIter,
    NdLanes { dim: u8 },
    NdAxisIter { dim: u8 },
    NdAxisChunks { dim: u8, size: u8 },
    NdAxisIterMut { dim: u8 },
}

impl Kind {
    fn name(&self) -> &'static str {
        match self {
            Kind::Iter => "iter",
            Kind::IterMut => "iter_mut",
            Kind::Lanes { .. } => "lanes",
            Kind::LanesMut { .. } => "lanes_mut",
            Kind::InnerIter { .. } => "inner_iter",
            Kind::InnerIterDyn { .. } => "inner_iter_dyn",
            Kind::InnerIterMut { .. } => "inner_iter_mut",
            Kind::InnerIterDynMut { .. } => "inner_iter_dyn_mut",
            Kind::AxisIter { .. } => "axis_iter",
            Kind::AxisIterMut { .. } => "axis_iter_mut",
            Kind::AxisChunks { .. } => "axis_chunks",
            Kind::AxisChunksMut { .. } => "axis_chunks_mut",
            Kind::NdIter => "nd_iter",
            Kind::NdLanes { .. } => "nd_lanes",
            Kind::NdAxisIter { .. } => "nd_axis_iter",
            Kind::NdAxisChunks { .. } => "nd_axis_chunks",
            Kind::NdAxisIterMut { .. } => "nd_axis_iter_mut",
        }
    }
    /// Which implementation family the iterator belongs to (first component
    /// of a failure signature).
    fn family(&self) -> &'static str {
        match self {
            Kind::Iter
            | Kind::IterMut
            | Kind::Lanes { .. }
            | Kind::LanesMut { .. }
            | Kind::InnerIter { .. }
            | Kind::InnerIterDyn { .. }
            | Kind::InnerIterMut { .. }
            | Kind::InnerIterDynMut { .. }
            | Kind::NdIter
            | Kind::NdLanes { .. } => "offsets",
            Kind::AxisIter { .. } | Kind::AxisIterMut { .. } | Kind::NdAxisIter { .. } | Kind::NdAxisIterMut { .. } => {
                "axis_iter"
            }
            Kind::AxisChunks { .. } | Kind::AxisChunksMut { .. } | Kind::NdAxisChunks { .. } => "axis_chunks",
        }
    }
    fn mutable(&self) -> bool {
        matches!(
            self,
            Kind::IterMut
                | Kind::LanesMut { .. }
                | Kind::InnerIterMut { .. }
                | Kind::InnerIterDynMut { .. }
                | Kind::AxisIterMut { .. }
                | Kind::AxisChunksMut { .. }
                | Kind::NdAxisIterMut { .. }
        )
    }
    fn needs_dim(&self) -> bool {
        !matches!(
            self,
            Kind::Iter
                | Kind::IterMut
                | Kind::InnerIter { .. }
                | Kind::InnerIterDyn { .. }
                | Kind::InnerIterMut { .. }
                | Kind::InnerIterDynMut { .. }
        )
    }
    fn nd(&self) -> bool {
        matches!(
            self,
            Kind::NdIter | Kind::NdLanes { .. } | Kind::NdAxisIter { .. } | Kind::NdAxisChunks { .. } | Kind::NdAxisIterMut { .. }
        )
    }
}

#[derive(Clone, Copy, Debug, Serialize, Deserialize, PartialEq)]
enum Op {
    Next,
    NextBack,
    Nth(u8),
    Len,
    /// split the current segment at pick_idx(frac, len + 1) (0..=len)
    Split(u16),
    /// make another live segment current
    Focus(u8),
    FoldRest,
    RevRest,
    CollectRest,
}

#[derive(Clone, Debug, Serialize, Deserialize)]
struct Case {
    recipe: Recipe,
    kind: Kind,
    ops: Vec<Op>,
}

#[derive(Clone, Debug, Serialize, Deserialize)]
struct ParCase {
    recipe: Recipe,
    kind: Kind,
    /// 0 -> 1 thread, 1 -> 3 threads, 2 -> 16 threads
    pool: u8,
    /// rayon `with_max_len`: forces splitting down to this many items
    max_len: u8,
    rev: bool,
}

/// One yielded item: a scalar (shape []) or a sub-view.
#[derive(Clone, Debug, PartialEq)]
struct Obs {
    shape: Vec<usize>,
    elems: Vec<i32>,
}

type Conv = (Obs, Vec<usize>);

struct Fail {
    sig: String,
    detail: String,
}

// ---------------------------------------------------------------------------
// Expected item lists (the model), from the reference array only
// ---------------------------------------------------------------------------

struct Plan {
    items: Vec<Obs>,
    /// contiguity of the layout whose offsets the iterator walks
    walked_contiguous: bool,
}

fn resolved_dim(raw: u8, ndim: usize) -> usize {
    sel_valid(raw, ndim)
}

fn inner_n(raw: u8, ndim: usize, cap: usize) -> usize {
    (raw as usize).min(ndim).min(cap)
}

fn chunk_size(raw: u8) -> usize {
    1 + ((raw as usize * 5) >> 8)
}

fn plan(kind: &Kind, b: &Built, expected: &[i32]) -> Plan {
    let arr = RefArray::new(b.shape.clone(), expected.to_vec());
    let nd = b.shape.len();
    let view_contig = is_contiguous(&b.shape, &b.strides);
    let sub = |a: RefArray| Obs { shape: a.shape, elems: a.data };
    match *kind {
        Kind::Iter | Kind::IterMut | Kind::NdIter => Plan {
            items: expected.iter().map(|&v| Obs { shape: vec![], elems: vec![v] }).collect(),
            walked_contiguous: view_contig,
        },
        Kind::Lanes { dim } | Kind::LanesMut { dim } | Kind::NdLanes { dim } => {
            let d = resolved_dim(dim, nd);
            let mut items = Vec::new();
            // rten documents (comment in LaneRanges::new) that an empty tensor has no lanes
            let (wshape, wstrides): (Vec<usize>, Vec<usize>) = if arr.is_empty() {
                (b.shape.clone(), b.strides.clone())
            } else {
                let mut s = b.shape.clone();
                let mut st = b.strides.clone();
                s.remove(d);
                st.remove(d);
                (s, st)
            };
            if !arr.is_empty() {
                let mut other = b.shape.clone();
                other.remove(d);
                for idx in indices(&other) {
                    let elems: Vec<i32> = (0..b.shape[d])
                        .map(|k| {
                            let mut full = idx.clone();
                            full.insert(d, k);
                            arr.get(&full)
                        })
                        .collect();
                    items.push(Obs { shape: vec![b.shape[d]], elems });
                }
            }
            Plan { items, walked_contiguous: is_contiguous(&wshape, &wstrides) }
        }
        Kind::InnerIter { n } | Kind::InnerIterDyn { n } | Kind::InnerIterMut { n } | Kind::InnerIterDynMut { n } => {
            let cap = if matches!(kind, Kind::InnerIter { .. } | Kind::InnerIterMut { .. }) { 3 } else { usize::MAX };
            let n = inner_n(n, nd, cap);
            let outer = b.shape[..nd - n].to_vec();
            let inner = b.shape[nd - n..].to_vec();
            let items = indices(&outer)
                .into_iter()
                .map(|oidx| {
                    sub(RefArray::from_fn(inner.clone(), |iidx| {
                        let mut full = oidx.clone();
                        full.extend_from_slice(iidx);
                        arr.get(&full)
                    }))
                })
                .collect();
            let ostrides: Vec<usize> =
                if numel(&inner) == 0 { vec![0; nd - n] } else { b.strides[..nd - n].to_vec() };
            Plan { items, walked_contiguous: is_contiguous(&outer, &ostrides) }
        }
        Kind::AxisIter { dim } | Kind::AxisIterMut { dim } | Kind::NdAxisIter { dim } | Kind::NdAxisIterMut { dim } => {
            let d = resolved_dim(dim, nd);
            let items = (0..b.shape[d]).map(|k| sub(arr.index_axis(d, k).unwrap())).collect();
            Plan { items, walked_contiguous: view_contig }
        }
        Kind::AxisChunks { dim, size } | Kind::AxisChunksMut { dim, size } | Kind::NdAxisChunks { dim, size } => {
            let d = resolved_dim(dim, nd);
            let c = chunk_size(size);
            let n = b.shape[d];
            let items = (0..n)
                .step_by(c)
                .map(|s| sub(arr.slice_axis(d, s, (s + c).min(n)).unwrap()))
                .collect();
            Plan { items, walked_contiguous: view_contig }
        }
    }
}

// ---------------------------------------------------------------------------
// Reading yielded items without trusting the iterators under test
// ---------------------------------------------------------------------------

fn obs_view(v: TensorView<i32>) -> Conv {
    match read_view(&v) {
        Ok(a) => (Obs { shape: a.shape, elems: a.data }, vec![]),
        // an unreadable sub-view: make it differ from every expected item
        Err(_) => (Obs { shape: vec![usize::MAX], elems: vec![] }, vec![]),
    }
}

fn obs_view_mut(mut v: TensorViewMut<i32>) -> Conv {
    let shape: Vec<usize> = v.shape().to_vec();
    let n = numel(&shape);
    let mut elems = Vec::with_capacity(n);
    let mut addrs = Vec::with_capacity(n);
    for lin in 0..n {
        let idx = unravel(lin, &shape);
        match v.get_mut(&idx[..]) {
            Some(r) => {
                elems.push(*r);
                addrs.push(r as *mut i32 as usize);
            }
            None => return (Obs { shape: vec![usize::MAX], elems: vec![] }, vec![]),
        }
    }
    (Obs { shape, elems }, addrs)
}

fn conv_ref(x: &i32) -> Conv {
    (Obs { shape: vec![], elems: vec![*x] }, vec![])
}

fn conv_mut(x: &mut i32) -> Conv {
    let v = *x;
    (Obs { shape: vec![], elems: vec![v] }, vec![x as *mut i32 as usize])
}

fn conv_lane(lane: rten_tensor::iterators::Lane<'_, i32>) -> Conv {
    let n = lane.len();
    let elems: Vec<i32> = lane.copied().collect();
    // a lane's own len() must agree with what it yields
    let shape = if n == elems.len() { vec![n] } else { vec![usize::MAX] };
    (Obs { shape, elems }, vec![])
}

fn conv_lane_mut(lane: rten_tensor::iterators::LaneMut<'_, i32>) -> Conv {
    let mut elems = Vec::new();
    let mut addrs = Vec::new();
    for r in lane {
        elems.push(*r);
        addrs.push(r as *mut i32 as usize);
    }
    (Obs { shape: vec![elems.len()], elems }, addrs)
}

// ---------------------------------------------------------------------------
// History interpreter
// ---------------------------------------------------------------------------

struct Meta {
    family: &'static str,
    kind: &'static str,
    layout: &'static str,
}

#[derive(Default)]
struct Stats {
    mixed: bool,
    rev_after_split: bool,
    split: bool,
    split_partial: bool,
    split_at_len: bool,
    nth: bool,
    yielded: usize,
}

struct Seg<I> {
    it: I,
    model: VecDeque<Obs>,
    /// the front cursor has moved (next / nth, or this is the right part of a split at k > 0)
    front: bool,
    /// items were taken from the back (next_back, or this is the left part of a split)
    back: bool,
    split: bool,
}

fn after(front: bool, back: bool, split: bool) -> String {
    let mut v = Vec::new();
    if split {
        v.push("split");
    }
    if front {
        v.push("next");
    }
    if back {
        v.push("back");
    }
    if v.is_empty() {
        String::new()
    } else {
        format!("-after-{}", v.join("+"))
    }
}

fn sig(meta: &Meta, op: &str, front: bool, back: bool, split: bool) -> String {
    // For back-consuming operations the only history that matters to the
    // implementations is whether the front cursor moved.
    let hist = if op == "next_back" { after(front, false, false) } else { after(front, back, split) };
    format!("{}:{}{}:{}:{}", meta.family, op, hist, meta.layout, meta.kind)
}

fn run_history<I, F>(
    meta: &Meta,
    it: I,
    expected: Vec<Obs>,
    ops: &[Op],
    conv: F,
    mutable: bool,
    stats: &mut Stats,
) -> Result<(), Fail>
where
    I: DoubleEndedIterator + ExactSizeIterator + SplitIterator,
    F: Fn(I::Item) -> Conv,
{
    let mut seen: HashSet<usize> = HashSet::new();
    let mut segs: Vec<Seg<I>> =
        vec![Seg { it, model: expected.into_iter().collect(), front: false, back: false, split: false }];
    let mut cur = 0usize;

    // compare one yielded item
    macro_rules! item {
        ($got:expr, $want:expr, $op:expr, $s:expr) => {{
            let want: Option<Obs> = $want;
            let got: Option<Conv> = $got;
            match (got, want) {
                (None, None) => {}
                (Some((g, addrs)), Some(w)) => {
                    if g != w {
                        return Err(Fail {
                            sig: sig(meta, $op, $s.0, $s.1, $s.2),
                            detail: format!(
                                "{} {} yielded shape {:?} elems {} but the model expects shape {:?} elems {}",
                                meta.kind,
                                $op,
                                g.shape,
                                short(&g.elems),
                                w.shape,
                                short(&w.elems)
                            ),
                        });
                    }
                    stats.yielded += 1;
                    if mutable {
                        for a in addrs {
                            if !seen.insert(a) {
                                return Err(Fail {
                                    sig: format!("{}:duplicate-mut-ref:{}:{}", meta.family, meta.layout, meta.kind),
                                    detail: format!("{} {} handed out address {a:#x} twice", meta.kind, $op),
                                });
                            }
                        }
                    }
                }
                (g, w) => {
                    let what = if g.is_some() { "extra-item" } else { "missing-item" };
                    return Err(Fail {
                        sig: sig(meta, what, $s.0, $s.1, $s.2),
                        detail: format!(
                            "{} {} returned {:?} but the model expects {:?}",
                            meta.kind,
                            $op,
                            g.map(|x| x.0),
                            w
                        ),
                    })
                }
            }
        }};
    }
    macro_rules! check_len {
        ($seg:expr, $op:expr) => {{
            let l = $seg.it.len();
            let h = $seg.it.size_hint();
            let m = $seg.model.len();
            if l != m || h != (m, Some(m)) {
                return Err(Fail {
                    sig: sig(meta, &format!("len-after-{}", $op), $seg.front, $seg.back, $seg.split),
                    detail: format!("{} after {}: len() = {l}, size_hint() = {h:?}, model has {m} items left", meta.kind, $op),
                });
            }
        }};
    }
    macro_rules! guarded {
        ($op:expr, $s:expr, $body:expr) => {
            match vcore::catch(|| $body) {
                Ok(v) => v,
                Err(p) => {
                    return Err(Fail {
                        sig: sig(meta, &format!("{}!panic", $op), $s.0, $s.1, $s.2),
                        detail: format!("{} {} panicked: {} at {}", meta.kind, $op, p.msg, p.loc()),
                    })
                }
            }
        };
    }

    check_len!(segs[0], "new");
    for op in ops {
        if segs.is_empty() {
            break;
        }
        cur = cur.min(segs.len() - 1);
        match *op {
            Op::Focus(j) => {
                cur = vcore::pick_idx((j as u16) << 8, segs.len());
            }
            Op::Len => {
                check_len!(segs[cur], "len");
            }
            Op::Next => {
                let s = &mut segs[cur];
                let st = (s.front, s.back, s.split);
                let want = s.model.pop_front();
                let got = guarded!("next", st, s.it.next().map(&conv));
                if want.is_some() {
                    s.front = true;
                    if s.back {
                        stats.mixed = true;
                    }
                }
                item!(got, want, "next", st);
                check_len!(segs[cur], "next");
            }
            Op::NextBack => {
                let s = &mut segs[cur];
                let st = (s.front, s.back, s.split);
                let want = s.model.pop_back();
                let got = guarded!("next_back", st, s.it.next_back().map(&conv));
                if want.is_some() {
                    if s.front {
                        stats.mixed = true;
                    }
                    if s.split {
                        stats.rev_after_split = true;
                    }
                    s.back = true;
                }
                item!(got, want, "next_back", st);
                check_len!(segs[cur], "next_back");
            }
            Op::Nth(k) => {
                let s = &mut segs[cur];
                let st = (s.front, s.back, s.split);
                let k = k as usize;
                if !s.model.is_empty() {
                    s.front = true;
                    if s.back {
                        stats.mixed = true;
                    }
                }
                for _ in 0..k.min(s.model.len()) {
                    s.model.pop_front();
                }
                let want = s.model.pop_front();
                let got = guarded!("nth", st, s.it.nth(k).map(&conv));
                stats.nth = true;
                item!(got, want, "nth", st);
                check_len!(segs[cur], "nth");
            }
            Op::Split(frac) => {
                let s = segs.remove(cur);
                let st = (s.front, s.back, s.split);
                let len = s.model.len();
                let k = vcore::pick_idx(frac, len + 1);
                let mut lm = s.model;
                let rm = lm.split_off(k);
                let it = s.it;
                let (l, r) = guarded!("split_at", st, SplitIterator::split_at(it, k));
                stats.split = true;
                if s.front || s.back {
                    stats.split_partial = true;
                }
                if k == len {
                    stats.split_at_len = true;
                }
                let left = Seg { it: l, model: lm, front: s.front, back: s.back || k < len, split: true };
                let right = Seg { it: r, model: rm, front: s.front || k > 0, back: s.back, split: true };
                // the split itself is judged with the history of the parent
                {
                    let (ll, rl) = (left.it.len(), right.it.len());
                    if ll != left.model.len() || rl != right.model.len() {
                        return Err(Fail {
                            sig: sig(meta, "split_at", st.0, st.1, st.2),
                            detail: format!(
                                "{} split_at({k}) of an iterator with {len} items left gave parts of len {ll} and {rl}; expected {} and {}",
                                meta.kind,
                                left.model.len(),
                                right.model.len()
                            ),
                        });
                    }
                }
                segs.insert(cur, right);
                segs.insert(cur, left);
            }
            Op::FoldRest => {
                let s = segs.remove(cur);
                let st = (s.front, s.back, s.split);
                let it = s.it;
                // an iterator that never ends must not hang the check: stop
                // recording after one item more than the model holds
                let limit = s.model.len() + 1;
                let got: Vec<Conv> = guarded!("fold", st, it.fold(Vec::new(), |mut acc, x| {
                    if acc.len() < limit {
                        acc.push(conv(x));
                    } else if acc.len() == limit {
                        panic!("harness: fold visits more items than the model holds (unbounded iterator?)");
                    }
                    acc
                }));
                let mut model = s.model;
                if got.len() != model.len() {
                    let what = if got.len() > model.len() { "extra-item" } else { "missing-item" };
                    return Err(Fail {
                        sig: sig(meta, what, st.0, st.1, st.2),
                        detail: format!("{} fold visited {} items, model has {}", meta.kind, got.len(), model.len()),
                    });
                }
                if s.back && !got.is_empty() {
                    stats.mixed = true;
                }
                for g in got {
                    item!(Some(g), model.pop_front(), "fold", st);
                }
            }
            Op::RevRest => {
                let s = segs.remove(cur);
                let st = (s.front, s.back, s.split);
                let it = s.it;
                let limit = s.model.len() + 1;
                let got: Vec<Conv> = guarded!("next_back", st, it.rev().take(limit).map(&conv).collect());
                let mut model = s.model;
                if got.len() != model.len() {
                    let what = if got.len() > model.len() { "extra-item" } else { "missing-item" };
                    return Err(Fail {
                        sig: sig(meta, what, st.0, st.1, st.2),
                        detail: format!("{} rev() yielded {} items, model has {}", meta.kind, got.len(), model.len()),
                    });
                }
                if !got.is_empty() {
                    if s.front {
                        stats.mixed = true;
                    }
                    if s.split {
                        stats.rev_after_split = true;
                    }
                }
                for g in got {
                    item!(Some(g), model.pop_back(), "next_back", st);
                }
            }
            Op::CollectRest => {
                let s = segs.remove(cur);
                drain(meta, s, &conv, mutable, &mut seen, stats)?;
            }
        }
    }
    // whatever is left is drained from the front
    for s in segs {
        drain(meta, s, &conv, mutable, &mut seen, stats)?;
    }
    Ok(())
}

fn drain<I, F>(
    meta: &Meta,
    mut s: Seg<I>,
    conv: &F,
    mutable: bool,
    seen: &mut HashSet<usize>,
    stats: &mut Stats,
) -> Result<(), Fail>
where
    I: DoubleEndedIterator + ExactSizeIterator + SplitIterator,
    F: Fn(I::Item) -> Conv,
{
    let st = (s.front, s.back, s.split);
    if s.back && !s.model.is_empty() {
        stats.mixed = true;
    }
    loop {
        let want = s.model.pop_front();
        let got = match vcore::catch(|| s.it.next().map(conv)) {
            Ok(g) => g,
            Err(p) => {
                return Err(Fail {
                    sig: sig(meta, "next!panic", st.0, st.1, st.2),
                    detail: format!("{} next panicked: {} at {}", meta.kind, p.msg, p.loc()),
                })
            }
        };
        match (got, want) {
            (None, None) => break,
            (Some((g, addrs)), Some(w)) if g == w => {
                stats.yielded += 1;
                if mutable {
                    for a in addrs {
                        if !seen.insert(a) {
                            return Err(Fail {
                                sig: format!("{}:duplicate-mut-ref:{}:{}", meta.family, meta.layout, meta.kind),
                                detail: format!("{} next handed out address {a:#x} twice", meta.kind),
                            });
                        }
                    }
                }
            }
            (g, w) => {
                let what = match (&g, &w) {
                    (Some(_), None) => "extra-item",
                    (None, Some(_)) => "missing-item",
                    _ => "next",
                };
                return Err(Fail {
                    sig: sig(meta, what, st.0, st.1, st.2),
                    detail: format!(
                        "{} next (draining) returned {:?} but the model expects {:?}",
                        meta.kind,
                        g.map(|x| x.0),
                        w
                    ),
                })
            }
        }
        let (l, m) = (s.it.len(), s.model.len());
        if l != m {
            return Err(Fail {
                sig: sig(meta, "len-after-next", st.0, st.1, st.2),
                detail: format!("{} len() = {l} while draining, model has {m}", meta.kind),
            });
        }
    }
    // fused: still None
    if s.it.next().is_some() || s.it.next_back().is_some() {
        return Err(Fail {
            sig: sig(meta, "next-after-end", st.0, st.1, st.2),
            detail: format!("{} yielded an item after returning None", meta.kind),
        });
    }
    Ok(())
}

// ---------------------------------------------------------------------------
// Dispatch: build the iterator of the requested kind and run `$body` with it
// ---------------------------------------------------------------------------

macro_rules! with_rank {
    ($view:expr, $nd:expr, |$v:ident| $body:expr) => {
        match $nd {
            1 => {
                let $v = $view.nd_view::<1>();
                $body
            }
            2 => {
                let $v = $view.nd_view::<2>();
                $body
            }
            3 => {
                let $v = $view.nd_view::<3>();
                $body
            }
            _ => {
                let $v = $view.nd_view::<4>();
                $body
            }
        }
    };
}

/// Calls `$go(iterator, conv)` with the iterator selected by `$kind`.
macro_rules! dispatch {
    ($kind:expr, $b:expr, $data:expr, $go:ident) => {{
        let nd = $b.shape.len();
        match $kind {
            Kind::Iter => {
                let v = view_of(&$b, &$data);
                $go!(v.iter(), conv_ref)
            }
            Kind::IterMut => {
                let mut v = view_mut_of(&$b, &mut $data);
                $go!(v.iter_mut(), conv_mut)
            }
            Kind::Lanes { dim } => {
                let v = view_of(&$b, &$data);
                $go!(v.lanes(resolved_dim(dim, nd)), conv_lane)
            }
            Kind::LanesMut { dim } => {
                let mut v = view_mut_of(&$b, &mut $data);
                $go!(v.lanes_mut(resolved_dim(dim, nd)), conv_lane_mut)
            }
            Kind::InnerIter { n } => {
                let v = view_of(&$b, &$data);
                match inner_n(n, nd, 3) {
                    0 => $go!(v.inner_iter::<0>(), |x: rten_tensor::NdTensorView<i32, 0>| obs_view(x.as_dyn())),
                    1 => $go!(v.inner_iter::<1>(), |x: rten_tensor::NdTensorView<i32, 1>| obs_view(x.as_dyn())),
                    2 => $go!(v.inner_iter::<2>(), |x: rten_tensor::NdTensorView<i32, 2>| obs_view(x.as_dyn())),
                    _ => $go!(v.inner_iter::<3>(), |x: rten_tensor::NdTensorView<i32, 3>| obs_view(x.as_dyn())),
                }
            }
            Kind::InnerIterDyn { n } => {
                let v = view_of(&$b, &$data);
                $go!(v.inner_iter_dyn(inner_n(n, nd, usize::MAX)), obs_view)
            }
            Kind::InnerIterMut { n } => {
                let mut v = view_mut_of(&$b, &mut $data);
                match inner_n(n, nd, 3) {
                    0 => $go!(v.inner_iter_mut::<0>(), |mut x: rten_tensor::NdTensorViewMut<i32, 0>| obs_view_mut(x.as_dyn_mut())),
                    1 => $go!(v.inner_iter_mut::<1>(), |mut x: rten_tensor::NdTensorViewMut<i32, 1>| obs_view_mut(x.as_dyn_mut())),
                    2 => $go!(v.inner_iter_mut::<2>(), |mut x: rten_tensor::NdTensorViewMut<i32, 2>| obs_view_mut(x.as_dyn_mut())),
                    _ => $go!(v.inner_iter_mut::<3>(), |mut x: rten_tensor::NdTensorViewMut<i32, 3>| obs_view_mut(x.as_dyn_mut())),
                }
            }
            Kind::InnerIterDynMut { n } => {
                let mut v = view_mut_of(&$b, &mut $data);
                $go!(v.inner_iter_dyn_mut(inner_n(n, nd, usize::MAX)), obs_view_mut)
            }
            Kind::AxisIter { dim } => {
                let v = view_of(&$b, &$data);
                $go!(v.axis_iter(resolved_dim(dim, nd)), obs_view)
            }
            Kind::AxisIterMut { dim } => {
                let mut v = view_mut_of(&$b, &mut $data);
                $go!(v.axis_iter_mut(resolved_dim(dim, nd)), obs_view_mut)
            }
            Kind::AxisChunks { dim, size } => {
                let v = view_of(&$b, &$data);
                $go!(v.axis_chunks(resolved_dim(dim, nd), chunk_size(size)), obs_view)
            }
            Kind::AxisChunksMut { dim, size } => {
                let mut v = view_mut_of(&$b, &mut $data);
                $go!(v.axis_chunks_mut(resolved_dim(dim, nd), chunk_size(size)), obs_view_mut)
            }
            Kind::NdIter => {
                let v = view_of(&$b, &$data);
                with_rank!(v, nd, |w| $go!(w.iter(), conv_ref))
            }
            Kind::NdLanes { dim } => {
                let v = view_of(&$b, &$data);
                with_rank!(v, nd, |w| $go!(w.lanes(resolved_dim(dim, nd)), conv_lane))
            }
            Kind::NdAxisIter { dim } => {
                let v = view_of(&$b, &$data);
                with_rank!(v, nd, |w| $go!(w.axis_iter(resolved_dim(dim, nd)), |x| obs_view(AsView::as_dyn(&x))))
            }
            Kind::NdAxisChunks { dim, size } => {
                let v = view_of(&$b, &$data);
                with_rank!(v, nd, |w| $go!(w.axis_chunks(resolved_dim(dim, nd), chunk_size(size)), |x| obs_view(
                    AsView::as_dyn(&x)
                )))
            }
            Kind::NdAxisIterMut { dim } => {
                let mut v = view_mut_of(&$b, &mut $data);
                match nd {
                    1 => {
                        let mut w = v.nd_view_mut::<1>();
                        $go!(w.axis_iter_mut(resolved_dim(dim, nd)), |mut x: rten_tensor::NdTensorViewMut<i32, 0>| obs_view_mut(x.as_dyn_mut()))
                    }
                    2 => {
                        let mut w = v.nd_view_mut::<2>();
                        $go!(w.axis_iter_mut(resolved_dim(dim, nd)), |mut x: rten_tensor::NdTensorViewMut<i32, 1>| obs_view_mut(x.as_dyn_mut()))
                    }
                    3 => {
                        let mut w = v.nd_view_mut::<3>();
                        $go!(w.axis_iter_mut(resolved_dim(dim, nd)), |mut x: rten_tensor::NdTensorViewMut<i32, 2>| obs_view_mut(x.as_dyn_mut()))
                    }
                    _ => {
                        let mut w = v.nd_view_mut::<4>();
                        $go!(w.axis_iter_mut(resolved_dim(dim, nd)), |mut x: rten_tensor::NdTensorViewMut<i32, 3>| obs_view_mut(x.as_dyn_mut()))
                    }
                }
            }
        }
    }};
}

/// Map any generated (recipe, kind) pair into the domain by construction:
/// mutable kinds get a recipe without zero strides (LanesMut / AxisIterMut /
/// AxisChunksMut assert `!is_broadcast()`, i.e. "non-empty and some stride is
/// 0" — a documented panic), kinds that need an axis fall back to iter on
/// rank-0 views, and static-rank kinds fall back to their dynamic-rank
/// counterpart above rank 4.
fn normalise(recipe: &Recipe, kind: Kind) -> (Recipe, Kind) {
    let mut r = recipe.clone();
    let nd = r.dims.len();
    let mut k = kind;
    if nd == 0 && k.needs_dim() {
        k = if k.mutable() { Kind::IterMut } else { Kind::Iter };
    }
    if k.nd() && !(1..=4).contains(&nd) {
        k = match k {
            Kind::NdIter => Kind::Iter,
            Kind::NdLanes { dim } => Kind::Lanes { dim },
            Kind::NdAxisIter { dim } => Kind::AxisIter { dim },
            Kind::NdAxisChunks { dim, size } => Kind::AxisChunks { dim, size },
            Kind::NdAxisIterMut { dim } => Kind::AxisIterMut { dim },
            other => other,
        };
    }
    if k.mutable() {
        for d in &mut r.dims {
            match d.kind {
                DimKind::Broadcast => d.kind = DimKind::Plain,
                DimKind::Unit { stride: 0 } => d.kind = DimKind::Unit { stride: 1 },
                _ => {}
            }
        }
        r = r.capped(600, 30_000);
    }
    (r, k)
}

fn oracle(c: &Case) -> Verdict {
    let (recipe, kind) = normalise(&c.recipe, c.kind);
    let (b, mut data, expected) = recipe.fill();
    let p = plan(&kind, &b, &expected);
    let meta = Meta {
        family: kind.family(),
        kind: kind.name(),
        layout: if p.walked_contiguous { "contiguous" } else { "noncontiguous" },
    };
    let mut stats = Stats::default();
    let mutable = kind.mutable();
    let items = p.items;
    macro_rules! go {
        ($it:expr, $conv:expr) => {
            run_history(&meta, $it, items, &c.ops, $conv, mutable, &mut stats)
        };
    }
    let res: Result<(), Fail> = dispatch!(kind, b, data, go);
    if let Err(f) = res {
        return Verdict::fail(f.sig, format!("{}; view shape {:?} strides {:?}", f.detail, b.shape, b.strides));
    }
    let mut labels = recipe.labels(&b);
    labels.push(kind.name());
    labels.push(if p.walked_contiguous { "path:range(contiguous)" } else { "path:indexing(noncontiguous)" });
    if stats.mixed {
        labels.push("hist:mixed-front-back");
    }
    if stats.rev_after_split {
        labels.push("hist:back-after-split");
    }
    if stats.split {
        labels.push("hist:split");
    }
    if stats.split_partial {
        labels.push("hist:split-partially-consumed");
    }
    if stats.split_at_len {
        labels.push("hist:split-at-len");
    }
    if stats.nth {
        labels.push("hist:nth");
    }
    let nontrivial = !p.walked_contiguous && stats.yielded > 0 && (stats.mixed || stats.rev_after_split);
    Verdict::pass_l(nontrivial, labels)
}

// ---------------------------------------------------------------------------
// rayon smoke pass
// ---------------------------------------------------------------------------

fn pool(i: u8) -> &'static rayon::ThreadPool {
    static POOLS: OnceLock<Vec<rayon::ThreadPool>> = OnceLock::new();
    let pools = POOLS.get_or_init(|| {
        [1usize, 3, 16]
            .iter()
            .map(|&n| rayon::ThreadPoolBuilder::new().num_threads(n).build().expect("rayon pool"))
            .collect()
    });
    &pools[(i as usize).min(2)]
}

fn par_oracle(c: &ParCase) -> Verdict {
    let (recipe, kind) = normalise(&c.recipe, c.kind);
    let (b, mut data, expected) = recipe.fill();
    let p = plan(&kind, &b, &expected);
    let layout = if p.walked_contiguous { "contiguous" } else { "noncontiguous" };
    let max_len = (c.max_len as usize).max(1);
    let tp = pool(c.pool);
    let rev = c.rev;
    macro_rules! go {
        ($it:expr, $conv:expr) => {{
            let it = $it;
            vcore::catch(|| {
                tp.install(|| -> Vec<Conv> {
                    if rev {
                        it.into_par_iter().with_max_len(max_len).rev().map($conv).collect()
                    } else {
                        it.into_par_iter().with_max_len(max_len).map($conv).collect()
                    }
                })
            })
        }};
    }
    let res: Result<Vec<Conv>, vcore::PanicInfo> = dispatch!(kind, b, data, go);
    let op = if rev { "par-rev" } else { "par" };
    let got = match res {
        Ok(g) => g,
        Err(pn) => {
            return Verdict::fail(
                format!("{}:{op}!panic:{layout}:{}", kind.family(), kind.name()),
                format!("into_par_iter panicked: {} at {}; shape {:?} strides {:?}", pn.msg, pn.loc(), b.shape, b.strides),
            )
        }
    };
    let mut want = p.items;
    if rev {
        want.reverse();
    }
    let got_obs: Vec<&Obs> = got.iter().map(|g| &g.0).collect();
    if got_obs.len() != want.len() || got_obs.iter().zip(&want).any(|(g, w)| *g != w) {
        let first = got_obs.iter().zip(&want).position(|(g, w)| *g != w);
        return Verdict::fail(
            format!("{}:{op}:{layout}:{}", kind.family(), kind.name()),
            format!(
                "parallel collect ({} threads, max_len {max_len}) yielded {} items, expected {}; first difference at item {:?}: got {:?}, expected {:?}; shape {:?} strides {:?}",
                [1, 3, 16][(c.pool as usize).min(2)],
                got_obs.len(),
                want.len(),
                first,
                first.map(|i| (&got_obs[i].shape, short(&got_obs[i].elems))),
                first.map(|i| (&want[i].shape, short(&want[i].elems))),
                b.shape,
                b.strides
            ),
        );
    }
    if kind.mutable() {
        let mut seen = HashSet::new();
        for a in got.iter().flat_map(|g| g.1.iter()) {
            if !seen.insert(*a) {
                return Verdict::fail(
                    format!("{}:duplicate-mut-ref:{layout}:{}", kind.family(), kind.name()),
                    format!("parallel iteration handed out address {a:#x} twice"),
                );
            }
        }
    }
    let mut labels = recipe.labels(&b);
    labels.push(kind.name());
    labels.push(match c.pool {
        0 => "par:1-thread",
        1 => "par:3-threads",
        _ => "par:16-threads",
    });
    if rev {
        labels.push("par:rev");
    }
    Verdict::pass_l(!p.walked_contiguous && want.len() > max_len, labels)
}

// ---------------------------------------------------------------------------
// Strategies
// ---------------------------------------------------------------------------

fn kind_strategy() -> impl Strategy<Value = Kind> {
    let d = any::<u8>();
    let n = 0u8..=5;
    let sz = any::<u8>();
    prop_oneof![
        3 => Just(Kind::Iter),
        3 => Just(Kind::IterMut),
        2 => d.prop_map(|dim| Kind::Lanes { dim }),
        2 => d.prop_map(|dim| Kind::LanesMut { dim }),
        2 => n.clone().prop_map(|n| Kind::InnerIter { n }),
        1 => n.clone().prop_map(|n| Kind::InnerIterDyn { n }),
        2 => n.clone().prop_map(|n| Kind::InnerIterMut { n }),
        1 => n.prop_map(|n| Kind::InnerIterDynMut { n }),
        2 => d.prop_map(|dim| Kind::AxisIter { dim }),
        2 => d.prop_map(|dim| Kind::AxisIterMut { dim }),
        2 => (d, sz).prop_map(|(dim, size)| Kind::AxisChunks { dim, size }),
        2 => (d, sz).prop_map(|(dim, size)| Kind::AxisChunksMut { dim, size }),
        1 => Just(Kind::NdIter),
        1 => d.prop_map(|dim| Kind::NdLanes { dim }),
        1 => d.prop_map(|dim| Kind::NdAxisIter { dim }),
        1 => (d, sz).prop_map(|(dim, size)| Kind::NdAxisChunks { dim, size }),
        1 => d.prop_map(|dim| Kind::NdAxisIterMut { dim }),
    ]
}

fn op_strategy() -> impl Strategy<Value = Op> {
    prop_oneof![
        5 => Just(Op::Next),
        5 => Just(Op::NextBack),
        2 => (0u8..4).prop_map(Op::Nth),
        1 => Just(Op::Len),
        3 => any::<u16>().prop_map(Op::Split),
        2 => any::<u8>().prop_map(Op::Focus),
        1 => Just(Op::FoldRest),
        1 => Just(Op::RevRest),
        1 => Just(Op::CollectRest),
    ]
}

fn recipe_strategy() -> BoxedStrategy<Recipe> {
    prop_oneof![
        8 => small_recipe(5, true),
        1 => special_recipe().prop_map(|r| r.capped(600, 30_000)),
    ]
    .boxed()
}

fn case() -> impl Strategy<Value = Case> {
    (recipe_strategy(), kind_strategy(), proptest::collection::vec(op_strategy(), 0..14))
        .prop_map(|(recipe, kind, ops)| Case { recipe, kind, ops })
}

fn par_case() -> impl Strategy<Value = ParCase> {
    (recipe_strategy(), kind_strategy(), 0u8..3, 1u8..4, any::<bool>())
        .prop_map(|(recipe, kind, pool, max_len, rev)| ParCase { recipe, kind, pool, max_len, rev })
}

fn main() {
    fast_slot_dir();
    let mut ck = Check::new("C07");
    ck.rule(
        "Case = (layout recipe, iterator kind, history). The recipe builds by construction a view of rank 0..=6 \
         (dims 0..=6, <= 600 elements; contiguous / permuted / positive-step sliced / offset / broadcast (immutable only) / \
         unit axes with odd strides / empty / storage longer than needed) whose elements are their own linear logical index. \
         Kind in {iter, iter_mut, lanes, lanes_mut, inner_iter::<0..=3>, inner_iter_dyn, inner_iter_mut, inner_iter_dyn_mut, \
         axis_iter(_mut), axis_chunks(_mut) with chunk 1..=5, and NdLayout<1..=4> variants}. History = vec(0..14) over \
         {next, next_back, nth(0..4), len+size_hint, split_at(k in 0..=len) keeping both halves live, focus another live \
         segment, fold rest, rev().collect rest, collect rest}; all live segments are drained at the end. The model is a \
         VecDeque of expected items per segment (sub-views compared by shape + element list read through shape()/get()). \
         len()/size_hint() are compared after every step; mutable kinds must never repeat an address. \
         Sub-check par-smoke: into_par_iter().with_max_len(1..=3)[.rev()].collect() on rayon pools of 1/3/16 threads. \
         Non-trivial (histories) = the layout the iterator walks is non-contiguous (Indexing path for the Offsets family), \
         at least one item was yielded, and the history consumed one segment lineage from both ends or consumed from the \
         back after a split. Non-trivial (par-smoke) = non-contiguous and more items than max_len (so at least one split). \
         Distinct = distinct Debug rendering of the case.",
    );
    ck.assume("a tensor with any zero-sized dim has no lanes (documented in LaneRanges::new); inner_iter/axis_iter of empty tensors still yield empty sub-views");
    ck.assume("SplitIterator::split_at may be called on a partially consumed iterator and with index == len (trait documentation)");
    ck.assume("sub-views are read through Layout::shape() and get(index), which are not under test here (C09 covers them)");
    ck.set_threads(16);

    ck.prop("histories", ck.pick(750_000, 6_000_000), case, oracle);
    ck.prop("par-smoke", ck.pick(75_000, 400_000), par_case, par_oracle);
    ck.finish();
}

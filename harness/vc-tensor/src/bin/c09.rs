//! C09 — layout transformations match a reference array model.
//!
//! A layout recipe builds a (possibly non-contiguous) source view, or an owned
//! tensor with the same strides, over i32 elements that are their own linear
//! logical index. A generated chain of 1..=6 layout operations is applied to
//! the rten tensor and to `RefArray`, a naive dense array with NumPy semantics.
//! After every step the rten result is read back three independent ways
//! (`shape()`+`get(index)`, `to_vec()`, `iter()`) and compared with the
//! reference. An `Err` or panic is accepted only where the reference says the
//! request is invalid (or the documentation makes the error depend on the
//! representation: spare capacity for `append`, contiguity for `reshaped_mut`);
//! an `Ok` where the reference says invalid is a failure too ("never silently
//! lossy").

use proptest::prelude::*;
use rten_tensor::prelude::*;
use rten_tensor::{SliceItem, SliceRange, Tensor, TensorView};
use serde::{Deserialize, Serialize};
use std::mem::MaybeUninit;
use vc_tensor::*;
use vcore::{Check, PanicInfo, Verdict};

#[derive(Clone, Copy, Debug, Serialize, Deserialize, PartialEq)]
enum SItem {
    /// position sel(pos, size) (size itself = out of range); `neg` writes it as -(p+1)
    Index { pos: u8, neg: bool },
    Range { start: u8, end: Option<u8>, step: i8, neg_start: bool, neg_end: bool },
}

#[derive(Clone, Copy, Debug, Serialize, Deserialize, PartialEq)]
enum SliceApi {
    TrySlice,
    Slice,
    SliceCopy,
    /// static-rank `NdLayout<N>::slice` through `nd_view::<N>().try_slice(tuple)` (ranks 2, 3)
    StaticNd,
}

#[derive(Clone, Copy, Debug, Serialize, Deserialize, PartialEq)]
enum ReshapeApi {
    Reshaped,
    ReshapeInPlace,
    IntoShape,
    ToShape,
    ReshapedMut,
}

#[derive(Clone, Debug, Serialize, Deserialize, PartialEq)]
enum ReshapeHow {
    Flatten,
    SplitDim { dim: u8, by: u8 },
    MergeNext { dim: u8 },
    InsertOne { at: u8 },
    /// explicit dims (usually an element-count mismatch)
    Explicit(Vec<u8>),
}

#[derive(Clone, Copy, Debug, Serialize, Deserialize, PartialEq)]
enum AppendSrc {
    Contiguous,
    Transposed,
    Broadcast,
}

#[derive(Clone, Debug, Serialize, Deserialize, PartialEq)]
enum Op {
    Slice { items: Vec<SItem>, api: SliceApi },
    SliceAxis { axis: u8, a: u8, b: u8 },
    IndexAxis { axis: u8, index: u8 },
    Permute { keys: Vec<u8>, bad: bool },
    Transpose,
    MoveAxis { from: u8, to: u8 },
    Broadcast { prepend: Vec<u8>, expand: Vec<u8>, bad: bool, try_api: bool, static_rank: bool },
    Reshape { how: ReshapeHow, api: ReshapeApi },
    Squeeze,
    InsertAxis { at: u8, consuming: bool },
    RemoveAxis { at: u8, consuming: bool },
    MergeAxes,
    SplitAt { axis: u8, mid: u8, right: bool },
    ClipDim { dim: u8, a: u8, b: u8 },
    Append { axis: u8, n: u8, spare: Option<u8>, src: AppendSrc, mismatch: bool },
    ToContiguous,
    ToTensor,
    CopyIntoSlice { delta: i8 },
    Map,
    CopyFrom { dest_transposed: bool, mismatch: bool },
}

impl Op {
    fn name(&self) -> &'static str {
        match self {
            Op::Slice { api, .. } => match api {
                SliceApi::TrySlice => "try_slice",
                SliceApi::Slice => "slice",
                SliceApi::SliceCopy => "slice_copy",
                SliceApi::StaticNd => "nd_try_slice",
            },
            Op::SliceAxis { .. } => "slice_axis",
            Op::IndexAxis { .. } => "index_axis",
            Op::Permute { .. } => "permute",
            Op::Transpose => "transpose",
            Op::MoveAxis { .. } => "move_axis",
            Op::Broadcast { .. } => "broadcast",
            Op::Reshape { api, .. } => match api {
                ReshapeApi::Reshaped => "reshaped",
                ReshapeApi::ReshapeInPlace => "reshape",
                ReshapeApi::IntoShape => "into_shape",
                ReshapeApi::ToShape => "to_shape",
                ReshapeApi::ReshapedMut => "reshaped_mut",
            },
            Op::Squeeze => "squeezed",
            Op::InsertAxis { .. } => "insert_axis",
            Op::RemoveAxis { .. } => "remove_axis",
            Op::MergeAxes => "merge_axes",
            Op::SplitAt { .. } => "split_at",
            Op::ClipDim { .. } => "clip_dim",
            Op::Append { .. } => "append",
            Op::ToContiguous => "to_contiguous",
            Op::ToTensor => "to_tensor",
            Op::CopyIntoSlice { .. } => "copy_into_slice",
            Op::Map => "map",
            Op::CopyFrom { .. } => "copy_from",
        }
    }
}

#[derive(Clone, Debug, Serialize, Deserialize)]
struct Case {
    recipe: Recipe,
    /// start from an owned tensor with the recipe's strides instead of a view
    owned: bool,
    ops: Vec<Op>,
    /// per op: run it (and the state comparison after it) through the static-rank
    /// types (`NdTensorView<_, N>` / `NdTensor<_, N>`, N = 1..=4) where the
    /// current rank allows, converting back to dynamic rank afterwards
    #[serde(default)]
    nd: Vec<bool>,
}

struct Fail {
    sig: String,
    detail: String,
}

#[derive(Default)]
struct Ctx {
    labels: Vec<&'static str>,
    applied: usize,
    special: bool,
    trace: Vec<String>,
    static_flags: Vec<bool>,
    static_now: bool,
    static_ops: usize,
}

/// Run `$body` with `$w` = the static-rank view of `$v` (rank `$nd` in 1..=4).
macro_rules! with_n {
    ($v:expr, $nd:expr, |$w:ident| $body:expr) => {
        match $nd {
            1 => {
                let $w = $v.nd_view::<1>();
                $body
            }
            2 => {
                let $w = $v.nd_view::<2>();
                $body
            }
            3 => {
                let $w = $v.nd_view::<3>();
                $body
            }
            _ => {
                let $w = $v.nd_view::<4>();
                $body
            }
        }
    };
}

/// Convert the owned dynamic-rank tensor `$t` to `NdTensor<_, N>`, run `$body`
/// with it as `$n` (mutable) and convert back.
macro_rules! own_n {
    ($t:expr, $nd:expr, |$n:ident| $body:expr) => {
        match $nd {
            1 => {
                #[allow(unused_mut)]
                let mut $n = $t.into_rank::<1>().ok().expect("rank 1");
                $body;
                $n.into_dyn()
            }
            2 => {
                #[allow(unused_mut)]
                let mut $n = $t.into_rank::<2>().ok().expect("rank 2");
                $body;
                $n.into_dyn()
            }
            3 => {
                #[allow(unused_mut)]
                let mut $n = $t.into_rank::<3>().ok().expect("rank 3");
                $body;
                $n.into_dyn()
            }
            _ => {
                #[allow(unused_mut)]
                let mut $n = $t.into_rank::<4>().ok().expect("rank 4");
                $body;
                $n.into_dyn()
            }
        }
    };
}

/// Items of an `inner_iter` compared with the reference: `numel(outer)` items of
/// the inner shape whose elements are consecutive chunks of the logical data.
fn check_inner(items: Vec<Result<RefArray, String>>, k: usize, r: &RefArray) -> Option<String> {
    let nd = r.shape.len();
    let (outer, inner) = r.shape.split_at(nd - k);
    if items.len() != numel(outer) {
        return Some(format!("{} items, expected {}", items.len(), numel(outer)));
    }
    let chunk = numel(inner);
    for (i, it) in items.iter().enumerate() {
        match it {
            Err(e) => return Some(e.clone()),
            Ok(a) => {
                if a.shape != inner || a.data[..] != r.data[i * chunk..(i + 1) * chunk] {
                    return Some(format!(
                        "item {i} has shape {:?} elems {}, expected shape {:?} elems {}",
                        a.shape,
                        short(&a.data),
                        inner,
                        short(&r.data[i * chunk..(i + 1) * chunk])
                    ));
                }
            }
        }
    }
    None
}

impl Ctx {
    fn label(&mut self, l: &'static str) {
        if !self.labels.contains(&l) {
            self.labels.push(l);
        }
    }
}

enum Cur<'a> {
    View(TensorView<'a, i32>),
    Owned(Tensor<i32>),
}

fn slug(s: &str) -> String {
    s.chars().map(|c| if c.is_ascii_alphanumeric() { c } else { '-' }).collect()
}

// ---------------------------------------------------------------------------
// State comparison
// ---------------------------------------------------------------------------

fn check_view(v: &TensorView<i32>, r: &RefArray, ctx: &mut Ctx, last: &str) -> Result<(), Fail> {
    let shape: Vec<usize> = v.shape().to_vec();
    let strides: Vec<usize> = v.strides().to_vec();
    let trace = ctx.trace.clone();
    let here = |what: &str| format!("after {last}: {what}; rten shape {shape:?} strides {strides:?}; ops so far {trace:?}");
    // 1. shape()/get(index)
    let got = read_view(v).map_err(|e| Fail { sig: format!("{last}:get-none"), detail: here(&e) })?;
    if let Some((kind, d)) = diff(&got, r) {
        return Err(Fail { sig: format!("{last}:{kind}"), detail: here(&d) });
    }
    if v.len() != r.len() || v.ndim() != r.ndim() || v.is_empty() != r.is_empty() {
        return Err(Fail {
            sig: format!("{last}:len"),
            detail: here(&format!("len() {} ndim() {} is_empty() {}", v.len(), v.ndim(), v.is_empty())),
        });
    }
    // 2. to_vec (copy paths)
    let path = copy_path_label(&shape, &strides, 4);
    ctx.label(path);
    if matches!(path, "copy:blocked-transpose" | "copy:memcpy-lanes" | "copy:rank>4") {
        ctx.special = true;
    }
    if path == "copy:blocked-transpose" {
        let m = merged_dims(&shape, &strides);
        let rows = m[m.len() - 1].0;
        let cols = if m.len() >= 2 { m[m.len() - 2].0 } else { 1 };
        if rows >= 4 && cols >= 4 {
            ctx.label("copy:blocked-transpose:full-tiles");
        }
        if rows > 64 || cols > 64 {
            ctx.label("copy:blocked-transpose:multi-block");
        }
    }
    let tv = match vcore::catch(|| v.to_vec()) {
        Ok(x) => x,
        Err(p) => {
            return Err(Fail {
                sig: format!("to_vec:unexpected-panic:{path}"),
                detail: here(&format!("to_vec panicked: {} at {}", p.msg, p.loc())),
            })
        }
    };
    if tv != r.data {
        return Err(Fail {
            sig: format!("to_vec:elems:{path}"),
            detail: here(&format!("to_vec() = {}, expected {}", short(&tv), short(&r.data))),
        });
    }
    // 3. forward iteration
    let it: Vec<i32> = v.iter().copied().collect();
    if it != r.data {
        return Err(Fail {
            sig: "iter:elems".to_string(),
            detail: here(&format!("iter() = {}, expected {}", short(&it), short(&r.data))),
        });
    }
    // 4. inner views of the last min(ndim, 2) dims
    let nd = shape.len();
    if nd >= 1 {
        let k = nd.min(2);
        let items: Vec<Result<RefArray, String>> = if k == 1 {
            v.inner_iter::<1>().map(|x| read_view(&x.as_dyn())).collect()
        } else {
            v.inner_iter::<2>().map(|x| read_view(&x.as_dyn())).collect()
        };
        if let Some(d) = check_inner(items, k, r) {
            return Err(Fail { sig: format!("inner_iter:{last}"), detail: here(&format!("inner_iter::<{k}>: {d}")) });
        }
    }
    // 5. the same reads through the static-rank view
    if ctx.static_now && (1..=4).contains(&nd) {
        ctx.label("static-rank:state-read");
        let (tv, it, inner): (Vec<i32>, Vec<i32>, Vec<Result<RefArray, String>>) = with_n!(v, nd, |w| {
            (
                w.to_vec(),
                w.iter().copied().collect(),
                w.inner_iter::<1>().map(|x| read_view(&x.as_dyn())).collect(),
            )
        });
        if tv != r.data {
            return Err(Fail {
                sig: format!("static:to_vec:elems:{path}"),
                detail: here(&format!("NdTensorView::to_vec() = {}, expected {}", short(&tv), short(&r.data))),
            });
        }
        if it != r.data {
            return Err(Fail {
                sig: "static:iter:elems".to_string(),
                detail: here(&format!("NdTensorView::iter() = {}, expected {}", short(&it), short(&r.data))),
            });
        }
        if let Some(d) = check_inner(inner, 1, r) {
            return Err(Fail { sig: format!("static:inner_iter:{last}"), detail: here(&format!("NdTensorView::inner_iter::<1>: {d}")) });
        }
    }
    Ok(())
}

// ---------------------------------------------------------------------------
// Interpreting raw op parameters relative to the current shape
// ---------------------------------------------------------------------------

fn resolve_item(it: &SItem, size: usize) -> RItem {
    match *it {
        SItem::Index { pos, neg } => {
            let p = sel(pos, size) as isize;
            RItem::Index(if neg { -(p + 1) } else { p })
        }
        SItem::Range { start, end, step, neg_start, neg_end } => {
            let s = sel(start, size + 1) as isize;
            let e = end.map(|e| sel(e, size + 1) as isize);
            let step = if step == 0 { 1 } else { step as isize };
            RItem::Range {
                start: if neg_start { -(s + 1) } else { s },
                end: e.map(|e| if neg_end { -(e + 1) } else { e }),
                step,
            }
        }
    }
}

fn to_slice_item(r: &RItem) -> SliceItem {
    match *r {
        RItem::Index(i) => SliceItem::Index(i),
        RItem::Range { start, end, step } => SliceItem::Range(SliceRange::new(start, end, step)),
    }
}

fn to_slice_range(r: &RItem) -> SliceRange {
    match *r {
        RItem::Range { start, end, step } => SliceRange::new(start, end, step),
        RItem::Index(i) => SliceRange::new(i, Some(i + 1), 1),
    }
}

fn reshape_target(how: &ReshapeHow, shape: &[usize]) -> Vec<usize> {
    let nd = shape.len();
    match how {
        ReshapeHow::Flatten => vec![numel(shape)],
        ReshapeHow::SplitDim { dim, by } => {
            if nd == 0 {
                return vec![1];
            }
            let d = sel_valid(*dim, nd);
            let n = shape[d];
            // a divisor of n chosen monotonically
            let divs: Vec<usize> = (1..=n.max(1)).filter(|k| n % k == 0).collect();
            let k = divs[sel_valid(*by, divs.len())];
            let mut s = shape.to_vec();
            s[d] = k;
            s.insert(d + 1, if k == 0 { 0 } else { n / k.max(1) });
            s
        }
        ReshapeHow::MergeNext { dim } => {
            if nd < 2 {
                return shape.to_vec();
            }
            let d = sel_valid(*dim, nd - 1);
            let mut s = shape.to_vec();
            let m = s.remove(d + 1);
            s[d] *= m;
            s
        }
        ReshapeHow::InsertOne { at } => {
            let mut s = shape.to_vec();
            s.insert(sel_valid(*at, nd + 1), 1);
            s
        }
        ReshapeHow::Explicit(v) => v.iter().map(|&x| x as usize).collect(),
    }
}

fn perm_order(keys: &[u8], nd: usize, bad: bool) -> Vec<usize> {
    let mut o: Vec<usize> = (0..nd).collect();
    o.sort_by_key(|&i| keys.get(i).copied().unwrap_or(0));
    if bad {
        if nd >= 2 {
            o[1] = o[0];
        } else {
            o.push(nd);
        }
    }
    o
}

fn broadcast_target(shape: &[usize], prepend: &[u8], expand: &[u8], bad: bool) -> Vec<usize> {
    let mut t: Vec<usize> = prepend.iter().map(|&x| x as usize).collect();
    for (i, &n) in shape.iter().enumerate() {
        let e = expand.get(i).copied().unwrap_or(1) as usize;
        t.push(if n == 1 { e } else { n });
    }
    if bad {
        if let Some(i) = shape.iter().position(|&n| n != 1) {
            let at = prepend.len() + i;
            t[at] += 1;
        } else if !t.is_empty() && !shape.is_empty() {
            t.remove(0);
            if t.len() >= shape.len() {
                // still valid: force rank mismatch
                t.truncate(shape.len().saturating_sub(1));
            }
        }
    }
    t
}

// ---------------------------------------------------------------------------
// Judging one operation
// ---------------------------------------------------------------------------

/// `got`: Ok(Ok(x)) = rten produced x, Ok(Err(e)) = rten returned Err(e),
/// Err(p) = rten panicked. `want_invalid`: Some(reason) if the reference says
/// the request is invalid. `err_ok`: an Err is acceptable although the request
/// is valid (documented representation-dependent failure).
fn judge<T>(
    op: &str,
    feat: &str,
    got: Result<Result<T, String>, PanicInfo>,
    want_invalid: Option<&str>,
    err_ok: bool,
    ctx: &Ctx,
) -> Result<Option<T>, Fail> {
    let tr = || format!("ops so far {:?}", ctx.trace);
    match (got, want_invalid) {
        (Ok(Ok(x)), None) => Ok(Some(x)),
        (Ok(Ok(_)), Some(why)) => Err(Fail {
            sig: format!("{op}:missing-error:{}", slug(why)),
            detail: format!("{op} succeeded although the reference model rejects the request ({why}); {}", tr()),
        }),
        (Ok(Err(_)), Some(_)) | (Err(_), Some(_)) => Ok(None),
        (Ok(Err(e)), None) => {
            if err_ok {
                Ok(None)
            } else {
                Err(Fail {
                    sig: format!("{op}{feat}:unexpected-error"),
                    detail: format!("{op} returned Err({e}) for a request the reference model accepts; {}", tr()),
                })
            }
        }
        (Err(p), None) => Err(Fail {
            sig: format!("{op}{feat}:unexpected-panic"),
            detail: format!(
                "{op} panicked ({} at {}) for a request the reference model accepts; {}",
                p.msg,
                p.loc(),
                tr()
            ),
        }),
    }
}

fn invalid_reason(r: &Result<RefArray, Invalid>) -> Option<&str> {
    r.as_ref().err().map(|i| i.0.as_str())
}

/// Root-cause features of a `slice_copy` request that takes the copying
/// fallback (the view slice is rejected), used only to name failures.
fn slice_copy_features(shape: &[usize], items: &[RItem]) -> String {
    let strict_ok = RefArray::new(shape.to_vec(), vec![0; numel(shape)]).slice(items, false).is_ok();
    if strict_ok {
        return ":view-path".to_string();
    }
    let mut f = Vec::new();
    if items.len() < shape.len() {
        f.push("fewer-items-than-dims");
    }
    if items.iter().any(|i| matches!(i, RItem::Index(x) if *x < 0)) {
        f.push("negative-index");
    }
    if shape.len() > 4 {
        let reduced = (1..shape.len()).any(|d| match items.get(d) {
            Some(it) => RefArray::item_indices(it, shape[d], true).map(|(v, _)| v.len() != shape[d]).unwrap_or(false),
            None => false,
        });
        if reduced {
            f.push("rank>4");
        }
    }
    if items.iter().zip(shape).any(|(i, &n)| {
        matches!(i, RItem::Range { start, step, .. } if *step < 0 && (n == 0 || *start <= -(n as isize) - 1))
    }) {
        f.push("negative-step-start-before-first");
    }
    if f.is_empty() {
        ":copy-path".to_string()
    } else {
        format!(":copy-path:{}", f.join("+"))
    }
}

// ---------------------------------------------------------------------------
// The interpreter
// ---------------------------------------------------------------------------

fn run(cur: Cur<'_>, r: RefArray, ops: &[Op], ctx: &mut Ctx, last: &str) -> Result<(), Fail> {
    match &cur {
        Cur::View(v) => check_view(v, &r, ctx, last)?,
        Cur::Owned(t) => check_view(&t.view(), &r, ctx, last)?,
    }
    let Some((op, rest)) = ops.split_first() else {
        return Ok(());
    };
    ctx.static_now = ctx.static_flags.get(ctx.trace.len()).copied().unwrap_or(false);
    ctx.trace.push(format!("{op:?}"));
    match cur {
        Cur::View(v) => step_view(v, r, op, rest, ctx),
        Cur::Owned(t) => step_owned(t, r, op, rest, ctx),
    }
}

fn other_for_append(shape: &[usize], src: AppendSrc) -> (RefArray, Tensor<i32>) {
    // distinguishable values
    let want = RefArray::from_fn(shape.to_vec(), |idx| 100_000 + ravel(idx, shape) as i32);
    let t = match src {
        AppendSrc::Contiguous | AppendSrc::Broadcast => Tensor::from_data(shape, want.data.clone()),
        AppendSrc::Transposed => {
            // store transposed, present with the right shape => non-contiguous source
            let rev: Vec<usize> = shape.iter().rev().copied().collect();
            let tr = want.transpose();
            let mut t = Tensor::from_data(&rev, tr.data.clone());
            t.transpose();
            t
        }
    };
    (want, t)
}

fn step_view<'a>(v: TensorView<'a, i32>, r: RefArray, op: &Op, rest: &[Op], ctx: &mut Ctx) -> Result<(), Fail> {
    let name = op.name();
    let shape = r.shape.clone();
    let nd = shape.len();
    // run this op through NdTensorView<_, nd>?
    let st = ctx.static_now && (1..=4).contains(&nd);
    macro_rules! mark_static {
        ($l:expr) => {{
            ctx.label($l);
            ctx.static_ops += 1;
        }};
    }
    macro_rules! next_view {
        ($nv:expr, $nr:expr) => {{
            ctx.applied += 1;
            return run(Cur::View($nv), $nr, rest, ctx, name);
        }};
    }
    macro_rules! next_owned {
        ($nt:expr, $nr:expr) => {{
            ctx.applied += 1;
            return run(Cur::Owned($nt), $nr, rest, ctx, name);
        }};
    }
    macro_rules! unchanged {
        () => {{
            ctx.label("request-rejected-by-both");
            return run(Cur::View(v), r, rest, ctx, name);
        }};
    }
    match op {
        Op::Slice { items, api } => {
            let mut ritems: Vec<RItem> =
                items.iter().enumerate().map(|(d, it)| resolve_item(it, shape.get(d).copied().unwrap_or(1))).collect();
            if *api == SliceApi::StaticNd && (nd == 2 || nd == 3) {
                // bring the request into the form a static-rank tuple can express:
                // exactly nd items, only the first may be an index
                ritems.truncate(nd);
                while ritems.len() < nd {
                    ritems.push(RItem::Range { start: 0, end: None, step: 1 });
                }
                for it in ritems.iter_mut().skip(1) {
                    if let RItem::Index(i) = *it {
                        *it = RItem::Range { start: i, end: if i == -1 { None } else { Some(i + 1) }, step: 1 };
                    }
                }
            }
            let sitems: Vec<SliceItem> = ritems.iter().map(to_slice_item).collect();
            if ritems.iter().any(|i| matches!(i, RItem::Range { step, .. } if *step < 0)) {
                ctx.label("slice:negative-step");
            }
            if ritems.iter().any(|i| matches!(i, RItem::Index(_))) {
                ctx.label("slice:index-item");
            }
            if ritems.iter().any(|i| match i {
                RItem::Index(x) => *x < 0,
                RItem::Range { start, end, .. } => *start < 0 || end.map(|e| e < 0).unwrap_or(false),
            }) {
                ctx.label("slice:negative-index");
            }
            match api {
                SliceApi::SliceCopy => {
                    let want = r.slice(&ritems, true);
                    let feat = slice_copy_features(&shape, &ritems);
                    if feat.starts_with(":copy-path") {
                        ctx.label("slice_copy:copy-path");
                    }
                    let got = vcore::catch(|| Ok(v.slice_copy(sitems.as_slice())));
                    match judge(name, &feat, got, invalid_reason(&want), false, ctx)? {
                        Some(t) => {
                            ctx.applied += 1;
                            // failures of the result comparison carry the feature list too
                            let label = format!("{name}{feat}");
                            return run(Cur::Owned(t), want.unwrap(), rest, ctx, &label);
                        }
                        None => unchanged!(),
                    }
                }
                SliceApi::TrySlice | SliceApi::Slice | SliceApi::StaticNd => {
                    let want = r.slice(&ritems, false);
                    let all_ranges = ritems.iter().all(|i| matches!(i, RItem::Range { .. }));
                    let first_index =
                        matches!(ritems.first(), Some(RItem::Index(_))) && ritems[1..].iter().all(|i| matches!(i, RItem::Range { .. }));
                    let got: Result<Result<TensorView<'a, i32>, String>, PanicInfo> = if *api == SliceApi::StaticNd
                        && (nd == 2 || nd == 3)
                        && ritems.len() == nd
                        && (all_ranges || first_index)
                    {
                        ctx.label("slice:static-rank");
                        let rg: Vec<SliceRange> = ritems.iter().map(to_slice_range).collect();
                        let idx0 = match ritems[0] {
                            RItem::Index(i) => i,
                            _ => 0,
                        };
                        vcore::catch(|| match (nd, all_ranges) {
                            (2, true) => v.nd_view::<2>().try_slice((rg[0], rg[1])).map(|x| x.as_dyn()).map_err(|e| format!("{e:?}")),
                            (2, false) => v.nd_view::<2>().try_slice((idx0, rg[1])).map(|x| x.as_dyn()).map_err(|e| format!("{e:?}")),
                            (3, true) => {
                                v.nd_view::<3>().try_slice((rg[0], rg[1], rg[2])).map(|x| x.as_dyn()).map_err(|e| format!("{e:?}"))
                            }
                            _ => v.nd_view::<3>().try_slice((idx0, rg[1], rg[2])).map(|x| x.as_dyn()).map_err(|e| format!("{e:?}")),
                        })
                    } else if *api == SliceApi::Slice {
                        vcore::catch(|| Ok(v.slice(sitems.as_slice())))
                    } else {
                        vcore::catch(|| v.try_slice(sitems.as_slice()).map_err(|e| format!("{e:?}")))
                    };
                    match judge(name, "", got, invalid_reason(&want), false, ctx)? {
                        Some(nv) => next_view!(nv, want.unwrap()),
                        None => unchanged!(),
                    }
                }
            }
        }
        Op::SliceAxis { axis, a, b } => {
            let ax = sel(*axis, nd);
            let n = shape.get(ax).copied().unwrap_or(2);
            let (s, e) = (sel(*a, n + 1), sel(*b, n + 1));
            let want = r.slice_axis(ax, s, e);
            let got = if st {
                mark_static!("static:slice_axis");
                vcore::catch(|| Ok(with_n!(v, nd, |w| w.slice_axis(ax, s..e).as_dyn())))
            } else {
                vcore::catch(|| Ok(v.slice_axis(ax, s..e)))
            };
            match judge(name, "", got, invalid_reason(&want), false, ctx)? {
                Some(nv) => next_view!(nv, want.unwrap()),
                None => unchanged!(),
            }
        }
        Op::IndexAxis { axis, index } => {
            let ax = sel(*axis, nd);
            let n = shape.get(ax).copied().unwrap_or(2);
            let i = sel(*index, n);
            let want = r.index_axis(ax, i);
            let got = if st {
                mark_static!("static:index_axis");
                vcore::catch(|| Ok(with_n!(v, nd, |w| w.index_axis(ax, i).as_dyn())))
            } else {
                vcore::catch(|| Ok(v.index_axis(ax, i)))
            };
            match judge(name, "", got, invalid_reason(&want), false, ctx)? {
                Some(nv) => next_view!(nv, want.unwrap()),
                None => unchanged!(),
            }
        }
        Op::Permute { keys, bad } => {
            let order = perm_order(keys, nd, *bad);
            let want = r.permute(&order);
            let got = if st && order.len() == nd {
                mark_static!("static:permuted");
                if nd >= 3 && order.iter().enumerate().any(|(i, &o)| order.get(o) != Some(&i)) {
                    ctx.label("static:permuted:non-involution-rank>=3");
                }
                vcore::catch(|| Ok(with_n!(v, nd, |w| w.permuted(std::array::from_fn(|k| order[k])).as_dyn())))
            } else {
                vcore::catch(|| Ok(v.permuted(&order)))
            };
            match judge(name, "", got, invalid_reason(&want), false, ctx)? {
                Some(nv) => next_view!(nv, want.unwrap()),
                None => unchanged!(),
            }
        }
        Op::Transpose => {
            let want = r.transpose();
            let got = if st {
                mark_static!("static:transposed");
                vcore::catch(|| Ok(with_n!(v, nd, |w| w.transposed().as_dyn())))
            } else {
                vcore::catch(|| Ok(v.transposed()))
            };
            match judge(name, "", got, None, false, ctx)? {
                Some(nv) => next_view!(nv, want),
                None => unchanged!(),
            }
        }
        Op::MoveAxis { from, to } => {
            let (f, t) = (sel(*from, nd), sel(*to, nd));
            let want = r.move_axis(f, t);
            let got = if st {
                mark_static!("static:move_axis");
                vcore::catch(|| {
                    Ok(with_n!(v, nd, |w| {
                        let mut n = w;
                        n.move_axis(f, t);
                        n.as_dyn()
                    }))
                })
            } else {
                vcore::catch(|| {
                    let mut nv = v.clone();
                    nv.move_axis(f, t);
                    Ok(nv)
                })
            };
            match judge(name, "", got, invalid_reason(&want), false, ctx)? {
                Some(nv) => next_view!(nv, want.unwrap()),
                None => unchanged!(),
            }
        }
        Op::Broadcast { prepend, expand, bad, try_api, static_rank } => {
            let target = broadcast_target(&shape, prepend, expand, *bad);
            let want = r.broadcast(&target);
            if want.as_ref().map(|w| w.len() > 4000).unwrap_or(false) {
                unchanged!();
            }
            let got: Result<Result<TensorView<'a, i32>, String>, PanicInfo> = if *static_rank && (target.len() == 2 || target.len() == 3) {
                ctx.label("broadcast:static-rank");
                vcore::catch(|| {
                    if target.len() == 2 {
                        v.try_broadcast([target[0], target[1]]).map(|x| x.as_dyn()).map_err(|e| format!("{e:?}"))
                    } else {
                        v.try_broadcast([target[0], target[1], target[2]]).map(|x| x.as_dyn()).map_err(|e| format!("{e:?}"))
                    }
                })
            } else if st {
                mark_static!("static:broadcast");
                vcore::catch(|| with_n!(v, nd, |w| w.try_broadcast(target.as_slice()).map_err(|e| format!("{e:?}"))))
            } else if *try_api {
                vcore::catch(|| v.try_broadcast(target.as_slice()).map_err(|e| format!("{e:?}")))
            } else {
                vcore::catch(|| Ok(v.broadcast(target.as_slice())))
            };
            match judge(name, "", got, invalid_reason(&want), false, ctx)? {
                Some(nv) => next_view!(nv, want.unwrap()),
                None => unchanged!(),
            }
        }
        Op::Reshape { how, api } => {
            let target = reshape_target(how, &shape);
            let want = r.reshape(&target);
            match api {
                ReshapeApi::Reshaped => {
                    let got = if st {
                        mark_static!("static:reshaped");
                        vcore::catch(|| Ok(with_n!(v, nd, |w| w.reshaped(target.as_slice()))))
                    } else {
                        vcore::catch(|| Ok(v.reshaped(target.as_slice())))
                    };
                    match judge(name, "", got, invalid_reason(&want), false, ctx)? {
                        Some(cow) => {
                            // first look at the Cow itself, then continue with an owned copy
                            let want = want.unwrap();
                            check_view(&cow.view(), &want, ctx, name)?;
                            next_owned!(cow.into_owned(), want)
                        }
                        None => unchanged!(),
                    }
                }
                ReshapeApi::ToShape => {
                    let got = if st {
                        mark_static!("static:to_shape");
                        vcore::catch(|| Ok(with_n!(v, nd, |w| w.to_shape(target.as_slice()))))
                    } else {
                        vcore::catch(|| Ok(v.to_shape(target.as_slice())))
                    };
                    match judge(name, "", got, invalid_reason(&want), false, ctx)? {
                        Some(t) => next_owned!(t, want.unwrap()),
                        None => unchanged!(),
                    }
                }
                _ => {
                    let t = v.to_tensor();
                    ctx.label("materialised-for-owned-op");
                    step_owned(t, r, op, rest, ctx)
                }
            }
        }
        Op::Squeeze => {
            let want = r.squeeze();
            let got = if st {
                mark_static!("static:squeezed");
                vcore::catch(|| Ok(with_n!(v, nd, |w| w.squeezed())))
            } else {
                vcore::catch(|| Ok(v.squeezed()))
            };
            match judge(name, "", got, None, false, ctx)? {
                Some(nv) => next_view!(nv, want),
                None => unchanged!(),
            }
        }
        Op::InsertAxis { at, consuming } => {
            let at = sel(*at, nd + 1);
            let want = r.insert_axis(at);
            if st && *consuming {
                mark_static!("static:with_new_axis");
            }
            let got = vcore::catch(|| {
                if st && *consuming {
                    Ok(with_n!(v, nd, |w| w.with_new_axis(at).as_dyn()))
                } else if *consuming {
                    Ok(v.clone().with_new_axis(at))
                } else {
                    let mut nv = v.clone();
                    nv.insert_axis(at);
                    Ok(nv)
                }
            });
            match judge(name, "", got, invalid_reason(&want), false, ctx)? {
                Some(nv) => next_view!(nv, want.unwrap()),
                None => unchanged!(),
            }
        }
        Op::RemoveAxis { at, consuming } => {
            let at = sel(*at, nd);
            let want = r.remove_axis(at);
            if st && *consuming {
                mark_static!("static:with_axis_removed");
            }
            let got = vcore::catch(|| {
                if st && *consuming {
                    Ok(with_n!(v, nd, |w| w.with_axis_removed(at).as_dyn()))
                } else if *consuming {
                    Ok(v.clone().with_axis_removed(at))
                } else {
                    let mut nv = v.clone();
                    nv.remove_axis(at);
                    Ok(nv)
                }
            });
            match judge(name, "", got, invalid_reason(&want), false, ctx)? {
                Some(nv) => next_view!(nv, want.unwrap()),
                None => unchanged!(),
            }
        }
        Op::MergeAxes => {
            let was_contig = is_contiguous(&shape, &v.strides().to_vec()) && !shape.contains(&1);
            let got = vcore::catch(|| {
                let mut nv = v.clone();
                nv.merge_axes();
                Ok(nv)
            });
            match judge(name, "", got, None, false, ctx)? {
                Some(nv) => {
                    let ns: Vec<usize> = nv.shape().to_vec();
                    // The merged shape depends on the strides; the reference only fixes
                    // element order, element count, "never more dims", and the documented
                    // "contiguous => flattened" (only claimed when there are no size-1
                    // dims: their arbitrary strides can legitimately block a merge).
                    let ok = numel(&ns) == r.len()
                        && ns.len() <= nd
                        && (nd == 0 || !ns.is_empty())
                        && (!was_contig || ns.len() <= 1);
                    if !ok {
                        return Err(Fail {
                            sig: "merge_axes:shape".into(),
                            detail: format!("merge_axes turned shape {shape:?} (contiguous without unit dims: {was_contig}) into {ns:?}; ops so far {:?}", ctx.trace),
                        });
                    }
                    let want = r.reshape(&ns).unwrap();
                    next_view!(nv, want)
                }
                None => unchanged!(),
            }
        }
        Op::SplitAt { axis, mid, right } => {
            let ax = sel(*axis, nd);
            let n = shape.get(ax).copied().unwrap_or(2);
            let m = sel(*mid, n + 1);
            let want = r.split_at(ax, m);
            let got = if st {
                mark_static!("static:split_at");
                vcore::catch(|| {
                    Ok(with_n!(v, nd, |w| {
                        let (l, r2) = w.split_at(ax, m);
                        (l.as_dyn(), r2.as_dyn())
                    }))
                })
            } else {
                vcore::catch(|| Ok(v.split_at(ax, m)))
            };
            let inv = want.as_ref().err().map(|i| i.0.as_str());
            match judge(name, "", got, inv, false, ctx)? {
                Some((l, rt)) => {
                    let (wl, wr) = want.unwrap();
                    // both halves are checked; the chain continues with one of them
                    if *right {
                        check_view(&l, &wl, ctx, name)?;
                        next_view!(rt, wr)
                    } else {
                        check_view(&rt, &wr, ctx, name)?;
                        next_view!(l, wl)
                    }
                }
                None => unchanged!(),
            }
        }
        Op::ToContiguous => {
            if st {
                mark_static!("static:to_contiguous");
            }
            let got = vcore::catch(|| {
                Ok(if st {
                    with_n!(v, nd, |w| {
                        let c = w.to_contiguous();
                        (c.data().to_vec(), c.shape().to_vec())
                    })
                } else {
                    let c = v.to_contiguous();
                    (c.data().to_vec(), c.shape().to_vec())
                })
            });
            match judge(name, "", got, None, false, ctx)? {
                Some((d, s)) => {
                    let (d, s): (Vec<i32>, Vec<usize>) = (d, s);
                    if s != r.shape || d != r.data {
                        return Err(Fail {
                            sig: format!("to_contiguous:{}", if s != r.shape { "shape" } else { "elems" }),
                            detail: format!(
                                "to_contiguous: shape {s:?} data {} expected shape {:?} data {}; ops so far {:?}",
                                short(&d),
                                r.shape,
                                short(&r.data),
                                ctx.trace
                            ),
                        });
                    }
                    ctx.applied += 1;
                    run(Cur::View(v), r, rest, ctx, name)
                }
                None => unchanged!(),
            }
        }
        Op::ToTensor => {
            let got = if st {
                mark_static!("static:to_tensor");
                vcore::catch(|| Ok(with_n!(v, nd, |w| w.to_tensor().into_dyn())))
            } else {
                vcore::catch(|| Ok(v.to_tensor()))
            };
            match judge(name, "", got, None, false, ctx)? {
                Some(t) => next_owned!(t, r),
                None => unchanged!(),
            }
        }
        Op::CopyIntoSlice { delta } => {
            let want_len = (r.len() as isize + *delta as isize).max(0) as usize;
            let invalid = if want_len != r.len() { Some("destination length mismatch") } else { None };
            let mut buf: Vec<MaybeUninit<i32>> = vec![MaybeUninit::new(-7); want_len];
            let got = if st {
                mark_static!("static:copy_into_slice");
                vcore::catch(|| Ok(with_n!(v, nd, |w| w.copy_into_slice(&mut buf[..]).to_vec())))
            } else {
                vcore::catch(|| Ok(v.copy_into_slice(&mut buf[..]).to_vec()))
            };
            match judge(name, "", got, invalid, false, ctx)? {
                Some(d) => {
                    if d != r.data {
                        return Err(Fail {
                            sig: "copy_into_slice:elems".into(),
                            detail: format!("copy_into_slice wrote {}, expected {}; ops so far {:?}", short(&d), short(&r.data), ctx.trace),
                        });
                    }
                    ctx.applied += 1;
                    run(Cur::View(v), r, rest, ctx, name)
                }
                None => unchanged!(),
            }
        }
        Op::Map => {
            let want = r.map(|x| x.wrapping_mul(2).wrapping_add(1));
            let got = if st {
                mark_static!("static:map");
                vcore::catch(|| Ok(with_n!(v, nd, |w| w.map(|x| x.wrapping_mul(2).wrapping_add(1)).into_dyn())))
            } else {
                vcore::catch(|| Ok(v.map(|x| x.wrapping_mul(2).wrapping_add(1))))
            };
            match judge(name, "", got, None, false, ctx)? {
                Some(t) => next_owned!(t, want),
                None => unchanged!(),
            }
        }
        Op::CopyFrom { dest_transposed, mismatch } => {
            let mut dshape = shape.clone();
            let invalid = if *mismatch && nd > 0 {
                dshape[nd - 1] += 1;
                Some("shape mismatch")
            } else {
                None
            };
            let dest: Tensor<i32> = if *dest_transposed {
                let rev: Vec<usize> = dshape.iter().rev().copied().collect();
                let mut d = Tensor::full(&rev, -9);
                d.transpose();
                d
            } else {
                Tensor::full(&dshape, -9)
            };
            if *dest_transposed && nd >= 2 {
                ctx.label("copy_from:noncontiguous-dest");
            }
            if st {
                mark_static!("static:copy_from");
            }
            let got = vcore::catch(|| {
                if st {
                    // static-rank destination view and source view of the same rank
                    let mut dest = dest;
                    match nd {
                        1 => dest.nd_view_mut::<1>().copy_from(&v.nd_view::<1>()),
                        2 => dest.nd_view_mut::<2>().copy_from(&v.nd_view::<2>()),
                        3 => dest.nd_view_mut::<3>().copy_from(&v.nd_view::<3>()),
                        _ => dest.nd_view_mut::<4>().copy_from(&v.nd_view::<4>()),
                    }
                    Ok(dest)
                } else {
                    let mut dest = dest;
                    dest.copy_from(&v);
                    Ok(dest)
                }
            });
            match judge(name, "", got, invalid, false, ctx)? {
                Some(d) => next_owned!(d, r),
                None => unchanged!(),
            }
        }
        // operations that need an owned tensor
        Op::ClipDim { .. } | Op::Append { .. } => {
            let t = v.to_tensor();
            ctx.label("materialised-for-owned-op");
            step_owned(t, r, op, rest, ctx)
        }
    }
}

fn step_owned(mut t: Tensor<i32>, r: RefArray, op: &Op, rest: &[Op], ctx: &mut Ctx) -> Result<(), Fail> {
    let name = op.name();
    let shape = r.shape.clone();
    let nd = shape.len();
    let st = ctx.static_now && (1..=4).contains(&nd);
    ctx.label("owned-state");
    // Static-rank variant of an in-place op: the tensor is converted to
    // NdTensor<_, nd>, modified and converted back; after a panic it is gone,
    // so the chain stops (like the consuming APIs).
    macro_rules! static_owned {
        ($label:expr, $want:expr, |$n:ident| $body:expr) => {{
            ctx.label($label);
            ctx.static_ops += 1;
            let want: Result<RefArray, Invalid> = $want;
            let got = vcore::catch(|| Ok(own_n!(t, nd, |$n| $body)));
            return match judge(name, "", got, invalid_reason(&want), false, ctx)? {
                Some(nt) => {
                    ctx.applied += 1;
                    run(Cur::Owned(nt), want.unwrap(), rest, ctx, name)
                }
                None => {
                    ctx.label("request-rejected-by-both");
                    Ok(())
                }
            };
        }};
    }
    macro_rules! next_owned {
        ($nt:expr, $nr:expr) => {{
            ctx.applied += 1;
            return run(Cur::Owned($nt), $nr, rest, ctx, name);
        }};
    }
    // In-place operations: after a panic the tensor may be half-updated, so the
    // chain stops there; after an Err it must be unchanged.
    macro_rules! in_place {
        ($want:expr, $feat:expr, $err_ok:expr, $body:expr) => {{
            let want: Result<RefArray, Invalid> = $want;
            let got: Result<Result<(), String>, PanicInfo> = vcore::catch(|| $body);
            let panicked = got.is_err();
            match judge(name, $feat, got, invalid_reason(&want), $err_ok, ctx)? {
                Some(()) => next_owned!(t, want.unwrap()),
                None => {
                    if panicked {
                        ctx.label("request-rejected-by-both");
                        return Ok(());
                    }
                    ctx.label("request-rejected-by-both");
                    return run(Cur::Owned(t), r, rest, ctx, name);
                }
            }
        }};
    }
    match op {
        Op::Permute { keys, bad } => {
            let order = perm_order(keys, nd, *bad);
            if st && order.len() == nd {
                if nd >= 3 && order.iter().enumerate().any(|(i, &o)| order.get(o) != Some(&i)) {
                    ctx.label("static:permute:non-involution-rank>=3");
                }
                let want = r.permute(&order);
                match keys.iter().map(|&k| k as usize).sum::<usize>() % 3 {
                    0 => static_owned!("static:permute", want, |n| n.permute(std::array::from_fn(|k| order[k]))),
                    1 => static_owned!("static:into_permuted", want, |n| n = n.into_permuted(std::array::from_fn(|k| order[k]))),
                    _ => {
                        // permuted_mut: look at the mutable view first, then permute in place
                        let mut seen: Option<Result<RefArray, String>> = None;
                        let seen_ref = &mut seen;
                        ctx.label("static:permuted_mut");
                        ctx.static_ops += 1;
                        let got = vcore::catch(|| {
                            Ok(own_n!(t, nd, |n| {
                                *seen_ref = Some(read_view(&n.permuted_mut(std::array::from_fn(|k| order[k])).view().as_dyn()));
                                n.permute(std::array::from_fn(|k| order[k]))
                            }))
                        });
                        return match judge(name, "", got, invalid_reason(&want), false, ctx)? {
                            Some(nt) => {
                                let want = want.unwrap();
                                let bad = match seen {
                                    Some(Ok(a)) => diff(&a, &want).map(|(k, d)| (k, d)),
                                    Some(Err(e)) => Some(("get-none", e)),
                                    None => None,
                                };
                                if let Some((k, d)) = bad {
                                    return Err(Fail {
                                        sig: format!("permuted_mut:{k}"),
                                        detail: format!("NdTensor::permuted_mut view differs: {d}; ops so far {:?}", ctx.trace),
                                    });
                                }
                                ctx.applied += 1;
                                run(Cur::Owned(nt), want, rest, ctx, name)
                            }
                            None => {
                                ctx.label("request-rejected-by-both");
                                Ok(())
                            }
                        };
                    }
                }
            }
            in_place!(r.permute(&order), "", false, {
                t.permute(&order);
                Ok(())
            })
        }
        Op::Transpose => {
            if st {
                static_owned!("static:transpose", Ok(r.transpose()), |n| n.transpose());
            }
            in_place!(Ok(r.transpose()), "", false, {
                t.transpose();
                Ok(())
            })
        }
        Op::MoveAxis { from, to } => {
            let (f, to) = (sel(*from, nd), sel(*to, nd));
            if st {
                static_owned!("static:move_axis(owned)", r.move_axis(f, to), |n| n.move_axis(f, to));
            }
            in_place!(r.move_axis(f, to), "", false, {
                t.move_axis(f, to);
                Ok(())
            })
        }
        Op::InsertAxis { at, consuming } => {
            let at = sel(*at, nd + 1);
            if *consuming {
                let want = r.insert_axis(at);
                let got = vcore::catch(|| Ok(t.with_new_axis(at)));
                match judge(name, "", got, invalid_reason(&want), false, ctx)? {
                    Some(nt) => next_owned!(nt, want.unwrap()),
                    None => Ok(()),
                }
            } else {
                in_place!(r.insert_axis(at), "", false, {
                    t.insert_axis(at);
                    Ok(())
                })
            }
        }
        Op::RemoveAxis { at, consuming } => {
            let at = sel(*at, nd);
            if *consuming {
                let want = r.remove_axis(at);
                let got = vcore::catch(|| Ok(t.with_axis_removed(at)));
                match judge(name, "", got, invalid_reason(&want), false, ctx)? {
                    Some(nt) => next_owned!(nt, want.unwrap()),
                    None => Ok(()),
                }
            } else {
                in_place!(r.remove_axis(at), "", false, {
                    t.remove_axis(at);
                    Ok(())
                })
            }
        }
        Op::Reshape { how, api } => {
            let target = reshape_target(how, &shape);
            let want = r.reshape(&target);
            match api {
                ReshapeApi::ReshapeInPlace => in_place!(want, "", false, {
                    t.reshape(&target);
                    Ok(())
                }),
                ReshapeApi::IntoShape => {
                    let got = vcore::catch(|| Ok(t.into_shape(target.as_slice())));
                    match judge(name, "", got, invalid_reason(&want), false, ctx)? {
                        Some(nt) => next_owned!(nt, want.unwrap()),
                        None => Ok(()),
                    }
                }
                ReshapeApi::ReshapedMut => {
                    // documented: Err unless the tensor is contiguous
                    let contig = is_contiguous(&shape, &t.strides().to_vec());
                    let inv: Option<String> = match (&want, contig) {
                        (Err(i), _) => Some(i.0.clone()),
                        (Ok(_), false) => Some("not contiguous (documented precondition of reshaped_mut)".into()),
                        _ => None,
                    };
                    let got = vcore::catch(|| match t.reshaped_mut(target.as_slice()) {
                        Ok(vm) => Ok(read_view(&vm.view()).map_err(|e| e)),
                        Err(e) => Err(format!("{e:?}")),
                    });
                    match judge(name, "", got, inv.as_deref(), false, ctx)? {
                        Some(read) => {
                            let want = want.unwrap();
                            let bad = match &read {
                                Ok(a) => diff(a, &want).map(|(k, d)| (k, d)),
                                Err(e) => Some(("get-none", e.clone())),
                            };
                            if let Some((k, d)) = bad {
                                return Err(Fail {
                                    sig: format!("reshaped_mut:{k}"),
                                    detail: format!("reshaped_mut view differs: {d}; ops so far {:?}", ctx.trace),
                                });
                            }
                            ctx.applied += 1;
                            run(Cur::Owned(t), r, rest, ctx, name)
                        }
                        None => {
                            ctx.label("request-rejected-by-both");
                            run(Cur::Owned(t), r, rest, ctx, name)
                        }
                    }
                }
                // view-style reshapes on an owned tensor go through a borrowed view
                _ => {
                    let v = t.view();
                    step_view(v, r, op, rest, ctx)
                }
            }
        }
        Op::MergeAxes => {
            let was_contig = is_contiguous(&shape, &t.strides().to_vec()) && !shape.contains(&1);
            let got = vcore::catch(|| {
                t.merge_axes();
                Ok(())
            });
            match judge(name, "", got, None, false, ctx)? {
                Some(()) => {
                    let ns: Vec<usize> = t.shape().to_vec();
                    let ok = numel(&ns) == r.len()
                        && ns.len() <= nd
                        && (nd == 0 || !ns.is_empty())
                        && (!was_contig || ns.len() <= 1);
                    if !ok {
                        return Err(Fail {
                            sig: "merge_axes:shape".into(),
                            detail: format!("merge_axes turned shape {shape:?} (contiguous without unit dims: {was_contig}) into {ns:?}; ops so far {:?}", ctx.trace),
                        });
                    }
                    let want = r.reshape(&ns).unwrap();
                    next_owned!(t, want)
                }
                None => Ok(()),
            }
        }
        Op::ClipDim { dim, a, b } => {
            let d = sel(*dim, nd);
            let n = shape.get(d).copied().unwrap_or(2);
            let (s, e) = (sel(*a, n + 1), sel(*b, n + 1));
            if !is_contiguous(&shape, &t.strides().to_vec()) {
                ctx.label("clip_dim:noncontiguous");
            }
            if st {
                static_owned!("static:clip_dim", r.slice_axis(d, s, e), |n| n.clip_dim(d, s..e));
            }
            in_place!(r.slice_axis(d, s, e), "", false, {
                t.clip_dim(d, s..e);
                Ok(())
            })
        }
        Op::Append { axis, n, spare, src, mismatch } => {
            let ax = sel(*axis, nd);
            let mut oshape = shape.clone();
            if ax < nd {
                oshape[ax] = *n as usize % 4;
            }
            if *mismatch {
                if nd >= 2 && ax < nd {
                    let o = if ax == 0 { 1 } else { 0 };
                    oshape[o] += 1;
                } else {
                    oshape.push(1);
                }
            }
            if numel(&oshape) > 4000 {
                return run(Cur::Owned(t), r, rest, ctx, name);
            }
            let (owant, mut other) = other_for_append(&oshape, *src);
            let bview;
            let other_view: TensorView<i32> = if *src == AppendSrc::Broadcast && ax < nd && oshape[ax] > 0 && !*mismatch {
                // a broadcast source: one slice repeated along the axis
                let first = other.slice_axis(ax, 0..1).to_tensor();
                other = first;
                bview = other.broadcast(oshape.as_slice());
                ctx.label("append:broadcast-source");
                bview
            } else {
                other.view()
            };
            let owant = if *src == AppendSrc::Broadcast && ax < nd && oshape[ax] > 0 && !*mismatch {
                owant.slice_axis(ax, 0, 1).unwrap().broadcast(&oshape).unwrap()
            } else {
                owant
            };
            let want = r.append(ax, &owant);
            match spare {
                Some(extra) if ax < nd && !*mismatch => {
                    // fresh tensor with spare capacity; append the current contents, then `other`
                    ctx.label("append:spare-capacity");
                    let mut cap_shape = shape.clone();
                    cap_shape[ax] = shape[ax] + oshape[ax] + (*extra as usize % 3);
                    if numel(&cap_shape) > 8000 {
                        return run(Cur::Owned(t), r, rest, ctx, name);
                    }
                    if !is_contiguous(&shape, &t.strides().to_vec()) {
                        ctx.label("append:noncontiguous-source");
                    }
                    let got = vcore::catch(|| {
                        let mut dst = Tensor::<i32>::with_capacity(cap_shape.as_slice(), ax);
                        dst.append(ax, &t).map_err(|e| format!("first append: {e:?}"))?;
                        dst.append(ax, &other_view).map_err(|e| format!("second append: {e:?}"))?;
                        Ok(dst)
                    });
                    match judge(name, ":spare-capacity", got, invalid_reason(&want), false, ctx)? {
                        Some(dst) => next_owned!(dst, want.unwrap()),
                        None => run(Cur::Owned(t), r, rest, ctx, name),
                    }
                }
                _ => {
                    // directly on the current tensor: without spare capacity the documented
                    // outcome is Err(InsufficientCapacity) and an unchanged tensor
                    ctx.label("append:in-place");
                    in_place!(want, ":in-place", true, t.append(ax, &other_view).map_err(|e| format!("{e:?}")))
                }
            }
        }
        // everything else works on a borrowed view of the owned tensor
        _ => {
            let v = t.view();
            step_view(v, r, op, rest, ctx)
        }
    }
}

fn oracle(c: &Case) -> Verdict {
    let mut recipe = c.recipe.clone();
    if c.owned {
        for d in &mut recipe.dims {
            if matches!(d.kind, DimKind::Broadcast) {
                d.kind = DimKind::Plain;
            }
        }
        recipe = recipe.capped(6000, 60_000);
    }
    let (b, data, expected) = recipe.fill();
    let r = RefArray::new(b.shape.clone(), expected);
    let mut ctx = Ctx { static_flags: c.nd.clone(), ..Ctx::default() };
    let src_noncontig = !is_contiguous(&b.shape, &b.strides);
    let res = if c.owned {
        let t = owned_of(&b, &data);
        run(Cur::Owned(t), r, &c.ops, &mut ctx, "source")
    } else {
        let v = view_of(&b, &data);
        run(Cur::View(v), r, &c.ops, &mut ctx, "source")
    };
    if let Err(f) = res {
        return Verdict::fail(f.sig, format!("{} [source shape {:?} strides {:?} owned {}]", f.detail, b.shape, b.strides, c.owned));
    }
    let mut labels = recipe.labels(&b);
    labels.extend(ctx.labels.iter().copied());
    labels.push(if c.owned { "source:owned" } else { "source:view" });
    labels.push(match ctx.applied {
        0 => "applied:0",
        1 => "applied:1",
        2 => "applied:2",
        3 => "applied:3",
        _ => "applied:4+",
    });
    for op in &c.ops {
        labels.push(op.name());
    }
    if ctx.static_ops > 0 {
        labels.push("static-rank:some-op");
    }
    labels.sort();
    labels.dedup();
    let nontrivial = (ctx.applied >= 2 && src_noncontig) || ctx.special;
    Verdict::pass_l(nontrivial, labels)
}

// ---------------------------------------------------------------------------
// Strategies
// ---------------------------------------------------------------------------

fn sitem() -> impl Strategy<Value = SItem> {
    prop_oneof![
        1 => (any::<u8>(), prop::bool::weighted(0.3)).prop_map(|(pos, neg)| SItem::Index { pos, neg }),
        3 => (
            any::<u8>(),
            prop::option::weighted(0.7, any::<u8>()),
            prop_oneof![6 => Just(1i8), 2 => Just(2i8), 1 => Just(3i8), 2 => Just(-1i8), 1 => Just(-2i8)],
            prop::bool::weighted(0.25),
            prop::bool::weighted(0.25),
        )
            .prop_map(|(start, end, step, neg_start, neg_end)| SItem::Range { start, end, step, neg_start, neg_end }),
    ]
}

fn op_strategy() -> impl Strategy<Value = Op> {
    let slice_api = prop_oneof![
        3 => Just(SliceApi::TrySlice),
        1 => Just(SliceApi::Slice),
        3 => Just(SliceApi::SliceCopy),
        1 => Just(SliceApi::StaticNd),
    ];
    let reshape_api = prop_oneof![
        Just(ReshapeApi::Reshaped),
        Just(ReshapeApi::ReshapeInPlace),
        Just(ReshapeApi::IntoShape),
        Just(ReshapeApi::ToShape),
        Just(ReshapeApi::ReshapedMut),
    ];
    let how = prop_oneof![
        2 => Just(ReshapeHow::Flatten),
        3 => (any::<u8>(), any::<u8>()).prop_map(|(dim, by)| ReshapeHow::SplitDim { dim, by }),
        3 => any::<u8>().prop_map(|dim| ReshapeHow::MergeNext { dim }),
        1 => any::<u8>().prop_map(|at| ReshapeHow::InsertOne { at }),
        1 => proptest::collection::vec(0u8..5, 0..4).prop_map(ReshapeHow::Explicit),
    ];
    let b = any::<u8>();
    prop_oneof![
        8 => (proptest::collection::vec(sitem(), 0..6), slice_api).prop_map(|(items, api)| Op::Slice { items, api }),
        2 => (b, b, b).prop_map(|(axis, a, b)| Op::SliceAxis { axis, a, b }),
        2 => (b, b).prop_map(|(axis, index)| Op::IndexAxis { axis, index }),
        // 6 independent keys: the argsort is (nearly) uniform over all permutations of the current rank
        5 => (proptest::collection::vec(any::<u8>(), 6..=6), prop::bool::weighted(0.08)).prop_map(|(keys, bad)| Op::Permute { keys, bad }),
        2 => Just(Op::Transpose),
        2 => (b, b).prop_map(|(from, to)| Op::MoveAxis { from, to }),
        3 => (
            proptest::collection::vec(0u8..4, 0..3),
            proptest::collection::vec(0u8..5, 0..6),
            prop::bool::weighted(0.1),
            any::<bool>(),
            prop::bool::weighted(0.3)
        )
            .prop_map(|(prepend, expand, bad, try_api, static_rank)| Op::Broadcast { prepend, expand, bad, try_api, static_rank }),
        5 => (how, reshape_api).prop_map(|(how, api)| Op::Reshape { how, api }),
        1 => Just(Op::Squeeze),
        2 => (b, any::<bool>()).prop_map(|(at, consuming)| Op::InsertAxis { at, consuming }),
        2 => (b, any::<bool>()).prop_map(|(at, consuming)| Op::RemoveAxis { at, consuming }),
        2 => Just(Op::MergeAxes),
        2 => (b, b, any::<bool>()).prop_map(|(axis, mid, right)| Op::SplitAt { axis, mid, right }),
        3 => (b, b, b).prop_map(|(dim, a, b)| Op::ClipDim { dim, a, b }),
        4 => (
            b,
            0u8..4,
            prop::option::weighted(0.6, 0u8..3),
            prop_oneof![Just(AppendSrc::Contiguous), Just(AppendSrc::Transposed), Just(AppendSrc::Broadcast)],
            prop::bool::weighted(0.1)
        )
            .prop_map(|(axis, n, spare, src, mismatch)| Op::Append { axis, n, spare, src, mismatch }),
        1 => Just(Op::ToContiguous),
        1 => Just(Op::ToTensor),
        1 => prop_oneof![8 => Just(0i8), 1 => Just(1i8), 1 => Just(-1i8)].prop_map(|delta| Op::CopyIntoSlice { delta }),
        1 => Just(Op::Map),
        2 => (any::<bool>(), prop::bool::weighted(0.1)).prop_map(|(dest_transposed, mismatch)| Op::CopyFrom { dest_transposed, mismatch }),
    ]
}

fn case(special: bool) -> impl Strategy<Value = Case> {
    let recipe = if special { special_recipe() } else { small_recipe(6, true) };
    (
        recipe,
        prop::bool::weighted(0.35),
        proptest::collection::vec(op_strategy(), 1..=6),
        proptest::collection::vec(prop::bool::weighted(0.4), 6..=6),
    )
        .prop_map(|(recipe, owned, ops, nd)| Case { recipe, owned, ops, nd })
}

fn main() {
    fast_slot_dir();
    let mut ck = Check::new("C09");
    ck.rule(
        "Case = (layout recipe, owned?, chain of 1..=6 ops). The recipe builds by construction a source of rank 0..=6 \
         (dims 0..=6; contiguous / permuted / positive-step sliced / offset / broadcast / unit axes with odd strides / \
         empty / storage longer than needed) over i32 elements equal to their linear logical index, as a borrowed view or \
         as an owned tensor with the same strides. Sub-check chains-special uses sources that steer copy_into_slice into \
         its special branches (inner stride multiple of 16 and >= 32 incl. > 64 rows/cols: blocked transpose; contiguous \
         inner lanes >= 32 bytes: memcpy; merged rank > 4). Ops: slice/try_slice/slice_copy/static-rank try_slice with \
         ranges, steps (negative only valid for slice_copy), negative indices and SliceItem::Index; slice_axis; index_axis; \
         permute(d); transpose(d); move_axis; broadcast/try_broadcast (dynamic and static target rank); \
         reshaped/reshape/into_shape/to_shape/reshaped_mut; squeezed; insert_axis/with_new_axis; remove_axis/with_axis_removed; \
         merge_axes; split_at (both halves checked); clip_dim; append (fresh tensor with spare capacity, or in place; \
         contiguous/transposed/broadcast source); to_contiguous; to_tensor; copy_into_slice; map; copy_from (contiguous or \
         transposed destination). Op parameters are generated relative to the current shape, mostly valid with a controlled \
         share of invalid requests (axis == ndim, index == size, out-of-bounds ranges, bad permutations, non-broadcastable \
         targets, element-count mismatches, shape mismatches). After every step the state is read through shape()/get(), \
         to_vec() and iter() and compared with the reference array. Non-trivial = (at least 2 ops were applied, i.e. \
         accepted by both sides, on a non-contiguous source) OR some to_vec() ran on a layout classified as blocked-transpose / \
         memcpy-lanes / rank>4. Distinct = distinct Debug rendering of the case.",
    );
    ck.assume("RefArray (naive NumPy-semantics index arithmetic in the harness) is the specification; view slicing is strict (documented SliceError for out-of-bounds endpoints and negative steps), slice_copy clamps like Python slice.indices");
    ck.assume("merge_axes: only element order/count, 'never more dims' and 'contiguous => at most 1 dim' are specified; the exact merged shape depends on strides");
    ck.assume("append without spare capacity may return Err (documented) and must then leave the tensor unchanged; reshaped_mut may return Err for non-contiguous tensors (documented)");
    ck.assume("after a panic of an in-place operation on an owned tensor the tensor is not inspected further");
    ck.set_threads(16);

    ck.prop("chains", ck.pick(500_000, 3_000_000), || case(false), oracle);
    ck.prop("chains-special", ck.pick(100_000, 500_000), || case(true), oracle);
    ck.finish();
}

//! Convert a replay file whose case is raw grammar choices into the
//! self-contained form (built model + inputs).  usage: export <file> <profile>
use vc_onnxgen::grammar::*;
fn main() {
    let path = std::env::args().nth(1).expect("replay file");
    let prof = std::env::args().nth(2).unwrap_or("general".into());
    let mut v: serde_json::Value = serde_json::from_str(&std::fs::read_to_string(&path).unwrap()).unwrap();
    let profile = match prof.as_str() { "inplace" => Profile::inplace_biased(), "random" => Profile::general().with_random(), _ => Profile::general() };
    let case = v["case"].clone();
    let raw: RawGraph = if let Some(r) = case.get("raw") { serde_json::from_value(r.clone()).unwrap() } else if let Some(r) = case.get("Raw") { serde_json::from_value(r.clone()).unwrap() } else { panic!("not a raw case") };
    let fixed = GraphCase::Raw(raw).export(&profile);
    v["case"] = serde_json::to_value(&fixed).unwrap();
    v.as_object_mut().unwrap().remove("case_debug");
    std::fs::write(&path, serde_json::to_string_pretty(&v).unwrap()).unwrap();
    println!("exported {path}");
}

//! C02 — run results are independent of execution strategy.
//!
//! For each generated model (optimisation off, so that C01 effects do not mix
//! in) the outputs of `Model::run` under many execution strategies — inputs
//! owned vs borrowed, buffer pool on/off (RTEN_USE_POOL), 1/2/5 worker
//! threads, weights prepacked or not — must all agree with a strategy-free
//! evaluator written in the harness (vc_onnxgen::naive): every operator run
//! with `Operator::run` on borrowed views of stored values, never in place,
//! fresh BufferPool per operator, in a topological order chosen by the case.

use proptest::prelude::*;
use rten::{ModelOptions, RunOptions, ThreadPool};
use serde::{Deserialize, Serialize};
use std::sync::Arc;
use vc_onnxgen::grammar::*;
use vc_onnxgen::naive::naive_eval;
use vc_onnxgen::*;
use vcore::{Check, Verdict};

#[derive(Clone, Debug, Serialize, Deserialize)]
struct Case {
    graph: GraphCase,
    /// which inputs are passed owned in the "mixed" strategy
    owned_mask: u8,
    /// selectors for the naive evaluator's topological order
    order: Vec<u16>,
}

/// Reduction/matmul kernels may block differently with different thread counts
/// or packing; everything else must be bit-exact. The comparison with the
/// naive evaluator uses this tolerance; strategies that cannot change
/// arithmetic (owned/borrowed, pool on/off) are compared bit-exactly with each
/// other.
const TOL: Tol = Tol { rtol: 1e-5, atol: 1e-6 };

struct Pools {
    pools: Vec<(usize, Arc<ThreadPool>)>,
}

fn load(bytes: &[u8], prepack: bool) -> Result<rten::Model, String> {
    let mut o = ModelOptions::with_all_ops();
    o.enable_optimization(false).prepack_weights(prepack);
    o.load(bytes.to_vec()).map_err(|e| e.to_string())
}

fn oracle(profile: &Profile, pools: &Pools, pool_flag: &'static str, c: &Case) -> Verdict {
    let built = c.graph.build(profile);
    let bytes = built.model.encode();
    let model = match vcore::catch(|| load(&bytes, false)) {
        Ok(Ok(m)) => m,
        _ => return Verdict::pass(false).label("load-failed"),
    };
    let (expect, stats) = match vcore::catch(|| naive_eval(&model, &built.inputs, &built.outputs, &c.order)) {
        Ok(Ok(r)) => r,
        Ok(Err(_)) => return Verdict::pass(false).label("naive-eval-failed"),
        Err(_) => return Verdict::pass(false).label("naive-eval-panicked"),
    };
    let model_pp = match vcore::catch(|| load(&bytes, true)) {
        Ok(Ok(m)) => m,
        Ok(Err(e)) => return Verdict::fail("prepack-load-failed", format!("model loads without prepacking but not with it: {e}")),
        Err(p) => return Verdict::fail(format!("prepack-load-panic:{}", p.signature()), format!("{} at {}", p.msg, p.loc())),
    };
    let n_in = built.inputs.len();
    let all_owned = vec![true; n_in];
    let none_owned = vec![false; n_in];
    let mixed: Vec<bool> = (0..n_in).map(|i| (c.owned_mask >> (i % 8)) & 1 == 1).collect();
    let input_strats: [(&'static str, &[bool]); 3] = [("borrowed", &none_owned), ("owned", &all_owned), ("mixed", &mixed)];
    let mut first_per_threads: Vec<(usize, Vec<TVal>)> = Vec::new();
    for (threads, pool) in &pools.pools {
        for (pp_name, m) in [("plain", &model), ("prepacked", &model_pp)] {
            for (in_name, owned) in &input_strats {
                let opts = RunOptions::default().with_thread_pool(Some(pool.clone()));
                let got = match vcore::catch(|| run_named(m, &built.inputs, &built.outputs, Some(owned), Some(opts))) {
                    Ok(Ok(o)) => o,
                    Ok(Err(e)) => {
                        return Verdict::fail(
                            format!("run-failed:{in_name}:{pp_name}"),
                            format!("naive evaluation succeeds but Model::run fails with inputs {in_name}, weights {pp_name}, {threads} threads, RTEN_USE_POOL={pool_flag}: {e}; ops={:?}", built.op_types),
                        )
                    }
                    Err(p) => {
                        return Verdict::fail(
                            format!("run-panic:{}", p.signature()),
                            format!("Model::run panicked ({} at {}) with inputs {in_name}, weights {pp_name}, {threads} threads; ops={:?}", p.msg, p.loc(), built.op_types),
                        )
                    }
                };
                for ((name, e), g) in built.outputs.iter().zip(&expect).zip(&got) {
                    if let Err(why) = compare(e, g, TOL) {
                        return Verdict::fail(
                            format!("differs-from-naive:{in_name}:{pp_name}"),
                            format!(
                                "output {name}: naive evaluator vs Model::run(inputs {in_name}, weights {pp_name}, {threads} threads, RTEN_USE_POOL={pool_flag}): {why}; ops={:?}",
                                built.op_types
                            ),
                        );
                    }
                }
                // same thread count: strategies that cannot change arithmetic agree bit-exactly
                if pp_name == "plain" {
                    match first_per_threads.iter().find(|(t, _)| t == threads) {
                        None => first_per_threads.push((*threads, got)),
                        Some((_, first)) => {
                            for ((name, a), b) in built.outputs.iter().zip(first).zip(&got) {
                                if let Err(why) = compare(a, b, Tol::EXACT) {
                                    return Verdict::fail(
                                        format!("owned-vs-borrowed:{in_name}"),
                                        format!("output {name} is not bit-identical between borrowed and {in_name} inputs ({threads} threads): {why}; ops={:?}", built.op_types),
                                    );
                                }
                            }
                        }
                    }
                }
            }
        }
    }
    let mut labels = Vec::new();
    if stats.inplace_candidates > 0 {
        labels.push("has-inplace-candidate");
    }
    if stats.commutative_ops > 0 {
        labels.push("has-commutative-op");
    }
    if stats.multi_consumer_values > 0 {
        labels.push("has-multi-consumer-value");
    }
    if built.op_types.iter().any(|o| o == "MatMul" || o == "Conv" || o == "Gemm") {
        labels.push("has-prepackable-weights");
    }
    let nontrivial = stats.inplace_candidates > 0 || stats.commutative_ops > 0;
    Verdict::pass_l(nontrivial && stats.ops_run >= 2, labels)
}

fn main() {
    let mut ck = Check::new("C02");
    ck.rule(
        "Cases = (typed-grammar ONNX model biased to in-place-capable/commutative/data-movement ops with multi-consumer \
         values and outputs on intermediates/inputs/constants, mask of owned inputs, topological-order selectors). \
         Each model (optimisation off) is run under {borrowed, owned, mixed inputs} x {plain, prepacked weights} x \
         {1,2,5 threads} x RTEN_USE_POOL {1,0} = 36 strategies and compared with the harness's strategy-free evaluator \
         (ints exact, floats rtol 1e-5/atol 1e-6; owned/borrowed variants bit-exact among themselves). \
         Non-trivial = the naive evaluation ran >= 2 operators AND the graph has an in-place-capable operator whose \
         candidate input is a non-constant single-consumer value, or a commutative operator (computed from the graph \
         structure, independently of the executor). Distinct = distinct case value.",
    );
    ck.assume("operators themselves (Operator::run) are trusted here; C13/C14/C15 check them");
    ck.set_threads(6);
    let pools = Pools {
        pools: [1usize, 2, 5].iter().map(|n| (*n, Arc::new(ThreadPool::with_num_threads(*n)))).collect(),
    };
    let n = ck.pick(8000, 240_000);
    let case = |max_nodes: usize| {
        (raw_graph(3, max_nodes), any::<u8>(), proptest::collection::vec(any::<u16>(), 0..6))
            .prop_map(|(raw, owned_mask, order)| Case { graph: GraphCase::Raw(raw), owned_mask, order })
    };
    for (flag, name_a, name_b) in [("1", "pool-on/elementwise", "pool-on/general"), ("0", "pool-off/elementwise", "pool-off/general")] {
        // RTEN_USE_POOL is read from the environment at the start of every run;
        // no runner threads are alive between sub-checks.
        std::env::set_var("RTEN_USE_POOL", flag);
        let p1 = Profile::inplace_biased();
        ck.prop_export(name_a, n / 2, || case(10), |c| oracle(&p1, &pools, flag, c), |c| Case { graph: c.graph.export(&p1), ..c.clone() });
        let p2 = Profile::general();
        ck.prop_export(name_b, n / 4, || case(12), |c| oracle(&p2, &pools, flag, c), |c| Case { graph: c.graph.export(&p2), ..c.clone() });
    }
    // High fan-out: one temporary value consumed by hundreds of operators (the
    // executor's per-value use counts are small integers), with and without a
    // second use by the same operator. Enumerated, not random.
    std::env::set_var("RTEN_USE_POOL", "1");
    let pg = Profile::general();
    let fanouts: Vec<(usize, bool)> = [1usize, 2, 100, 127, 128, 129, 200, 254, 255, 256, 257, 258, 300, 511, 512, 513, 600]
        .iter()
        .flat_map(|n| [(*n, false), (*n, true)])
        .collect();
    ck.enumerate(
        "high-fanout",
        true,
        fanouts.into_iter().map(|(n, twice)| fanout_case(n, twice)),
        |c| oracle(&pg, &pools, "1", c),
    );
    ck.finish();
}

/// `t = Relu(in0)`; n operators each consume `t` (once, or twice as
/// `Add(t, t)`); their outputs are summed pairwise into one output, and `t`
/// itself is requested as an output too.
fn fanout_case(n: usize, twice: bool) -> Case {
    use vc_onnxgen::model::*;
    let mut nodes = vec![NodeDef::new("Relu", "relu", &["in0"], &["t"])];
    let mut values = vec![
        V { name: "in0".into(), dtype: DType::F32, shape: vec![3], mag: 4.0, kind: VKind::Input, random: false },
        V { name: "t".into(), dtype: DType::F32, shape: vec![3], mag: 4.0, kind: VKind::Inter, random: false },
    ];
    let mut op_types = vec!["Relu".to_string()];
    let mut acc = String::new();
    for i in 0..n {
        let u = format!("u{i}");
        if twice {
            nodes.push(NodeDef::new("Add", &format!("use{i}"), &["t", "t"], &[&u]));
            op_types.push("Add".into());
        } else {
            nodes.push(NodeDef::new(if i % 2 == 0 { "Neg" } else { "Abs" }, &format!("use{i}"), &["t"], &[&u]));
            op_types.push(if i % 2 == 0 { "Neg" } else { "Abs" }.into());
        }
        values.push(V { name: u.clone(), dtype: DType::F32, shape: vec![3], mag: 8.0, kind: VKind::Inter, random: false });
        if acc.is_empty() {
            acc = u;
        } else {
            let s = format!("s{i}");
            nodes.push(NodeDef::new("Max", &format!("max{i}"), &[&acc, &u], &[&s]));
            op_types.push("Max".into());
            values.push(V { name: s.clone(), dtype: DType::F32, shape: vec![3], mag: 8.0, kind: VKind::Inter, random: false });
            acc = s;
        }
    }
    let graph = GraphDef {
        nodes,
        initializers: vec![],
        inputs: vec![ValueInfo::new("in0", DType::F32, vec![Dim::Fixed(3)])],
        outputs: vec![ValueInfo { name: acc.clone(), dtype: Some(DType::F32), shape: None }, ValueInfo { name: "t".into(), dtype: Some(DType::F32), shape: None }],
        value_info: vec![],
    };
    let built = Built {
        model: ModelDef::new(graph),
        inputs: vec![("in0".to_string(), TVal::F32 { shape: vec![3], data: vec![-1.5, 0.25, 2.0] })],
        outputs: vec![acc, "t".to_string()],
        values,
        op_types,
    };
    Case { graph: GraphCase::Fixed(Box::new(built)), owned_mask: 1, order: vec![] }
}

//! C26 — invalid run requests are reported as errors.
//!
//! A valid model and a valid request are mutated along exactly the dimensions
//! the property names: unknown node IDs, duplicated IDs, non-value (operator /
//! constant) IDs used as inputs, operator IDs as outputs, missing required
//! inputs, inputs whose dtype / rank / fixed dimension contradict the model's
//! declared metadata. Every such request must return Err and never panic, for
//! `run`, `run_n`, `run_one` and `partial_run`. Mutations that the statement
//! does not call invalid (extra unused inputs, symbolic-dimension changes)
//! only have to not panic.

use proptest::prelude::*;
use rten::verif::graph::Node;
use rten::{NodeId, Value, ValueOrView};
use serde::{Deserialize, Serialize};
use vc_onnxgen::grammar::*;
use vc_onnxgen::*;
use vcore::{Check, Verdict};

#[derive(Clone, Debug, Serialize, Deserialize)]
enum Mutation {
    /// control: the unmodified request must still succeed if it did before
    None,
    UnknownInputId(u32),
    UnknownOutputId(u32),
    DuplicateInput(u16),
    DuplicateOutput(u16),
    /// same-length request: entry j replaced by a copy of entry k != j (the
    /// request keeps the length of the plan cached by the preceding valid run)
    ReplaceInputWithDuplicate(u16, u16),
    ReplaceOutputWithDuplicate(u16, u16),
    OperatorIdAsInput(u16),
    OperatorIdAsOutput(u16),
    ConstantIdAsInput(u16),
    MissingInput(u16),
    WrongDtype(u16),
    WrongRank(u16, bool),
    WrongFixedDim(u16, u16),
    /// not invalid per the statement: an extra input nobody consumes
    ExtraUnusedInput,
    /// not invalid per the statement: a symbolic dim gets another size
    ChangeSymbolicDim(u16),
    /// a sequence value supplied for an input declared as a tensor, and that
    /// input requested as an output (so no operator gets a chance to reject it)
    SequenceForTensor(u16, bool),
}

#[derive(Clone, Debug, Serialize, Deserialize)]
struct Case {
    graph: GraphCase,
    optimize: bool,
    mutation: Mutation,
    /// 0 run, 1 partial_run, 2 run_n, 3 run_one
    api: u8,
}

fn idx(sel: u16, n: usize) -> usize {
    ((sel as usize) * n) >> 16
}

fn mutation() -> impl Strategy<Value = Mutation> {
    let big_id = prop_oneof![
        Just(i32::MAX as u32),
        Just(i32::MAX as u32 - 1),
        1000u32..100_000,
        (0u32..64).prop_map(|k| 4096 + k),
    ];
    prop_oneof![
        1 => Just(Mutation::None),
        2 => big_id.clone().prop_map(Mutation::UnknownInputId),
        2 => big_id.prop_map(Mutation::UnknownOutputId),
        2 => any::<u16>().prop_map(Mutation::DuplicateInput),
        2 => any::<u16>().prop_map(Mutation::DuplicateOutput),
        2 => (any::<u16>(), any::<u16>()).prop_map(|(a, b)| Mutation::ReplaceInputWithDuplicate(a, b)),
        3 => (any::<u16>(), any::<u16>()).prop_map(|(a, b)| Mutation::ReplaceOutputWithDuplicate(a, b)),
        2 => any::<u16>().prop_map(Mutation::OperatorIdAsInput),
        2 => any::<u16>().prop_map(Mutation::OperatorIdAsOutput),
        2 => any::<u16>().prop_map(Mutation::ConstantIdAsInput),
        2 => any::<u16>().prop_map(Mutation::MissingInput),
        2 => any::<u16>().prop_map(Mutation::WrongDtype),
        2 => (any::<u16>(), any::<bool>()).prop_map(|(a, b)| Mutation::WrongRank(a, b)),
        2 => (any::<u16>(), any::<u16>()).prop_map(|(a, b)| Mutation::WrongFixedDim(a, b)),
        1 => Just(Mutation::ExtraUnusedInput),
        1 => any::<u16>().prop_map(Mutation::ChangeSymbolicDim),
        2 => (any::<u16>(), any::<bool>()).prop_map(|(a, b)| Mutation::SequenceForTensor(a, b)),
    ]
}

fn other_dtype(v: &TVal) -> TVal {
    match v {
        TVal::F32 { shape, data } => TVal::I32 { shape: shape.clone(), data: data.iter().map(|x| *x as i32).collect() },
        TVal::I32 { shape, data } => TVal::F32 { shape: shape.clone(), data: data.iter().map(|x| *x as f32).collect() },
        TVal::I8 { shape, data } => TVal::U8 { shape: shape.clone(), data: data.iter().map(|x| *x as u8).collect() },
        TVal::U8 { shape, data } => TVal::I8 { shape: shape.clone(), data: data.iter().map(|x| *x as i8).collect() },
        o => o.clone(),
    }
}

fn reshape(v: &TVal, shape: Vec<usize>) -> TVal {
    let n: usize = shape.iter().product();
    match v {
        TVal::F32 { data, .. } => TVal::F32 { shape, data: (0..n).map(|i| data.get(i).copied().unwrap_or(0.5)).collect() },
        TVal::I32 { data, .. } => TVal::I32 { shape, data: (0..n).map(|i| data.get(i).copied().unwrap_or(1)).collect() },
        TVal::I8 { data, .. } => TVal::I8 { shape, data: (0..n).map(|i| data.get(i).copied().unwrap_or(1)).collect() },
        TVal::U8 { data, .. } => TVal::U8 { shape, data: (0..n).map(|i| data.get(i).copied().unwrap_or(1)).collect() },
        o => o.clone(),
    }
}

fn oracle(profile: &Profile, c: &Case) -> Verdict {
    let built = c.graph.build(profile);
    let bytes = built.model.encode();
    let cfg = if c.optimize { Config::OptInferOn } else { Config::Plain };
    let model = match vcore::catch(|| cfg.load(&bytes)) {
        Ok(Ok(m)) => m,
        _ => return Verdict::pass(false).label("load-failed"),
    };
    let g = model.verif_graph();
    let mut in_ids: Vec<NodeId> = Vec::new();
    for (n, _) in &built.inputs {
        match model.find_node(n) {
            Some(id) => in_ids.push(id),
            None => return Verdict::pass(false).label("name-lookup-failed"),
        }
    }
    let mut vals: Vec<TVal> = built.inputs.iter().map(|(_, v)| v.clone()).collect();
    let mut out_ids: Vec<NodeId> = built.outputs.iter().filter_map(|n| model.find_node(n)).collect();
    if out_ids.is_empty() {
        return Verdict::pass(false);
    }
    if c.api % 4 == 2 {
        // run_n takes a fixed-size array: keep at most two outputs so that the
        // mutated request (which may add one) fits the sizes handled below
        out_ids.truncate(2);
    }
    // does the unmodified request succeed?
    let base_ok = {
        let ins: Vec<(NodeId, ValueOrView)> = in_ids.iter().zip(&vals).map(|(i, v)| (*i, ValueOrView::from(v.to_value()))).collect();
        matches!(vcore::catch(|| model.run(ins, &out_ids, None)), Ok(Ok(_)))
    };
    let op_ids: Vec<NodeId> = g.iter().filter(|(_, n)| n.as_operator().is_some()).map(|(id, _)| id).collect();
    let const_ids: Vec<NodeId> = g.iter().filter(|(_, n)| matches!(n, Node::Constant(_))).map(|(id, _)| id).collect();
    let n_nodes = g.iter().count() as u32;
    // metadata of the node each input is addressed by, as the model reports it
    // (a graph input that is also a graph output is addressed through a node
    // that may carry no shape): only contradictions of THAT metadata are invalid
    let declared: Vec<Option<Vec<Dim>>> = in_ids
        .iter()
        .map(|id| {
            model.node_info(*id).and_then(|ni| ni.shape()).map(|sh| {
                sh.iter()
                    .map(|d| match d {
                        rten::Dimension::Fixed(n) => Dim::Fixed(*n as i64),
                        rten::Dimension::Symbolic(s) => Dim::Sym(s.clone()),
                    })
                    .collect()
            })
        })
        .collect();
    let has_dtype: Vec<bool> = in_ids.iter().map(|id| model.node_info(*id).and_then(|ni| ni.dtype()).is_some()).collect();

    // needed inputs: those with a path to a requested output (a missing one of these is "missing required input")
    let mut must_fail = true;
    let mut seq_override: Option<(usize, rten::DataType)> = None;
    let mut label: &'static str = "none";
    let mut applicable = true;
    match &c.mutation {
        Mutation::None => {
            must_fail = false;
            label = "control";
        }
        Mutation::UnknownInputId(id) => {
            let id = (*id).max(n_nodes + 1);
            in_ids.push(NodeId::from_u32(id));
            vals.push(TVal::F32 { shape: vec![], data: vec![1.0] });
            label = "unknown-input-id";
        }
        Mutation::UnknownOutputId(id) => {
            let id = (*id).max(n_nodes + 1);
            out_ids.push(NodeId::from_u32(id));
            label = "unknown-output-id";
        }
        Mutation::DuplicateInput(s) => {
            let k = idx(*s, in_ids.len());
            in_ids.push(in_ids[k]);
            vals.push(vals[k].clone());
            label = "duplicate-input";
        }
        Mutation::DuplicateOutput(s) => {
            let k = idx(*s, out_ids.len());
            out_ids.push(out_ids[k]);
            label = "duplicate-output";
        }
        Mutation::ReplaceInputWithDuplicate(a, b) => {
            let n = in_ids.len();
            if n < 2 {
                applicable = false;
            } else {
                let j = idx(*a, n);
                let k = (j + 1 + idx(*b, n - 1)) % n;
                in_ids[j] = in_ids[k];
                vals[j] = vals[k].clone();
                label = if j.abs_diff(k) >= 2 { "replace-input-with-duplicate:non-adjacent" } else { "replace-input-with-duplicate:adjacent" };
            }
        }
        Mutation::ReplaceOutputWithDuplicate(a, b) => {
            let n = out_ids.len();
            if n < 2 {
                applicable = false;
            } else {
                let j = idx(*a, n);
                let k = (j + 1 + idx(*b, n - 1)) % n;
                out_ids[j] = out_ids[k];
                label = if j.abs_diff(k) >= 2 { "replace-output-with-duplicate:non-adjacent" } else { "replace-output-with-duplicate:adjacent" };
            }
        }
        Mutation::OperatorIdAsInput(s) => {
            if op_ids.is_empty() {
                applicable = false;
            } else {
                in_ids.push(op_ids[idx(*s, op_ids.len())]);
                vals.push(TVal::F32 { shape: vec![], data: vec![1.0] });
            }
            label = "operator-id-as-input";
        }
        Mutation::OperatorIdAsOutput(s) => {
            if op_ids.is_empty() {
                applicable = false;
            } else {
                out_ids.push(op_ids[idx(*s, op_ids.len())]);
            }
            label = "operator-id-as-output";
        }
        Mutation::ConstantIdAsInput(s) => {
            // rten's planner deliberately treats constant nodes as value nodes
            // ("Input .. is not a value node" is only raised for operator ids),
            // so supplying a value for a constant is not an invalid request:
            // it only has to not panic.
            must_fail = false;
            if const_ids.is_empty() {
                applicable = false;
            } else {
                let cid = const_ids[idx(*s, const_ids.len())];
                let v = match g.get_node(cid) {
                    Some(Node::Constant(c)) => TVal::from_value(&c.as_view().to_owned()),
                    _ => unreachable!(),
                };
                in_ids.push(cid);
                vals.push(v);
            }
            label = "constant-id-as-input";
        }
        Mutation::MissingInput(s) => {
            // only inputs that some requested output really depends on
            let needed: Vec<usize> = (0..in_ids.len())
                .filter(|k| depends_on(g, &out_ids, in_ids[*k]))
                .collect();
            if needed.is_empty() || c.api == 1 {
                applicable = false; // partial_run accepts missing inputs by design
            } else {
                let k = needed[idx(*s, needed.len())];
                in_ids.remove(k);
                vals.remove(k);
            }
            label = "missing-required-input";
        }
        Mutation::WrongDtype(s) => {
            let cands: Vec<usize> = (0..in_ids.len()).filter(|k| has_dtype[*k]).collect();
            if cands.is_empty() {
                applicable = false;
            } else {
                let k = cands[idx(*s, cands.len())];
                vals[k] = other_dtype(&vals[k]);
            }
            label = "wrong-dtype";
        }
        Mutation::WrongRank(s, up) => {
            let cands: Vec<usize> = (0..in_ids.len()).filter(|k| declared[*k].is_some()).collect();
            if cands.is_empty() {
                applicable = false;
            } else {
                let k = cands[idx(*s, cands.len())];
                let mut shape = vals[k].shape().to_vec();
                if *up || shape.is_empty() {
                    shape.insert(0, 1);
                } else {
                    shape.remove(0);
                }
                vals[k] = reshape(&vals[k], shape);
            }
            label = "wrong-rank";
        }
        Mutation::WrongFixedDim(s, d) => {
            // pick an input with a fixed (non-symbolic) declared dim
            let cands: Vec<(usize, usize)> = declared
                .iter()
                .enumerate()
                .flat_map(|(k, sh)| {
                    sh.iter()
                        .flat_map(|sh| sh.iter().enumerate().filter(|(_, d)| matches!(d, Dim::Fixed(_))).map(|(a, _)| a))
                        .map(move |a| (k, a))
                        .collect::<Vec<_>>()
                })
                .collect();
            if cands.is_empty() {
                applicable = false;
            } else {
                let (k, a) = cands[idx(*s, cands.len())];
                let mut shape = vals[k].shape().to_vec();
                shape[a] += 1 + (*d % 2) as usize;
                vals[k] = reshape(&vals[k], shape);
            }
            label = "wrong-fixed-dim";
        }
        Mutation::ExtraUnusedInput => {
            must_fail = false;
            // a value node nobody needs for the requested outputs: use a graph output value of another kind if any
            let unused: Vec<NodeId> = g
                .iter()
                .filter(|(id, n)| matches!(n, Node::Value(_)) && !in_ids.contains(id) && !out_ids.contains(id) && !out_ids.iter().any(|o| reaches(g, *o, *id)))
                .map(|(id, _)| id)
                .collect();
            if let Some(id) = unused.first() {
                in_ids.push(*id);
                vals.push(TVal::F32 { shape: vec![1], data: vec![0.0] });
            } else {
                applicable = false;
            }
            label = "extra-unused-input(not-invalid)";
        }
        Mutation::SequenceForTensor(s, same_elem_type) => {
            let cands: Vec<usize> = (0..in_ids.len()).filter(|k| has_dtype[*k]).collect();
            if cands.is_empty() || c.api % 4 == 3 {
                applicable = false;
            } else {
                let k = cands[idx(*s, cands.len())];
                let elem = match (&vals[k], *same_elem_type) {
                    (TVal::F32 { .. }, true) | (TVal::I32 { .. }, false) => rten::DataType::Float,
                    _ => rten::DataType::Int32,
                };
                seq_override = Some((k, elem));
                // request exactly that input as the output
                out_ids = vec![in_ids[k]];
            }
            label = "sequence-for-tensor";
        }
        Mutation::ChangeSymbolicDim(s) => {
            must_fail = false;
            let cands: Vec<(usize, usize)> = declared
                .iter()
                .enumerate()
                .flat_map(|(k, sh)| {
                    sh.iter()
                        .flat_map(|sh| sh.iter().enumerate().filter(|(_, d)| matches!(d, Dim::Sym(_))).map(|(a, _)| a))
                        .map(move |a| (k, a))
                        .collect::<Vec<_>>()
                })
                .collect();
            if cands.is_empty() {
                applicable = false;
            } else {
                let (k, a) = cands[idx(*s, cands.len())];
                let mut shape = vals[k].shape().to_vec();
                shape[a] += 1;
                vals[k] = reshape(&vals[k], shape);
            }
            label = "change-symbolic-dim(not-invalid)";
        }
    }
    if !applicable {
        return Verdict::pass(false).label("mutation-not-applicable");
    }
    let make_ins = || -> Vec<(NodeId, ValueOrView<'static>)> {
        in_ids
            .iter()
            .zip(&vals)
            .enumerate()
            .map(|(k, (i, v))| match seq_override {
                Some((ks, elem)) if ks == k => (*i, ValueOrView::from(Value::Sequence(rten::Sequence::new(elem)))),
                _ => (*i, ValueOrView::from(v.to_value())),
            })
            .collect()
    };
    let api_name = ["run", "partial_run", "run_n", "run_one"][(c.api % 4) as usize];
    let res: Result<Result<(), String>, vcore::PanicInfo> = match c.api % 4 {
        0 => vcore::catch(|| model.run(make_ins(), &out_ids, None).map(|_| ()).map_err(|e| e.to_string())),
        1 => vcore::catch(|| model.partial_run(make_ins(), &out_ids, None).map(|_| ()).map_err(|e| e.to_string())),
        2 => match out_ids.len() {
            1 => {
                let o = [out_ids[0]];
                vcore::catch(|| model.run_n(make_ins(), o, None).map(|_| ()).map_err(|e| e.to_string()))
            }
            2 => {
                let o = [out_ids[0], out_ids[1]];
                vcore::catch(|| model.run_n(make_ins(), o, None).map(|_| ()).map_err(|e| e.to_string()))
            }
            _ => {
                let o = [out_ids[0], out_ids[1], out_ids[2]];
                vcore::catch(|| model.run_n(make_ins(), o, None).map(|_| ()).map_err(|e| e.to_string()))
            }
        },
        _ => {
            // run_one uses the model's first input and first output: only input-value mutations apply
            let first_in = model.input_ids().first().copied();
            let v: Option<Value> = first_in.and_then(|fi| in_ids.iter().position(|i| *i == fi)).map(|k| vals[k].to_value());
            match v {
                Some(v) => {
                    if model.input_ids().len() != 1 || !matches!(c.mutation, Mutation::None | Mutation::WrongDtype(_) | Mutation::WrongRank(..) | Mutation::WrongFixedDim(..)) {
                        return Verdict::pass(false).label("run_one-not-applicable");
                    }
                    // the mutation must have hit that single input
                    vcore::catch(|| model.run_one(ValueOrView::from(v), None).map(|_| ()).map_err(|e| e.to_string()))
                }
                None => return Verdict::pass(false).label("run_one-not-applicable"),
            }
        }
    };
    match res {
        Err(p) => Verdict::fail(
            format!("panic:{label}:{}", p.signature()),
            format!("{api_name} panicked on a request with mutation {:?}: {} at {}; ops={:?}", c.mutation, p.msg, p.loc(), built.op_types),
        ),
        Ok(Ok(())) if must_fail => Verdict::fail(
            format!("accepted:{label}:{api_name}"),
            format!("{api_name} returned Ok for a request with mutation {:?} (inputs {:?}, outputs {:?}); ops={:?}", c.mutation, in_ids, out_ids, built.op_types),
        ),
        Ok(Err(e)) if matches!(c.mutation, Mutation::None) && base_ok && c.api % 4 != 3 => Verdict::fail(
            format!("control-failed:{api_name}"),
            format!("the unmodified request succeeds with run but {api_name} fails: {e}"),
        ),
        Ok(_) => Verdict::pass_l(must_fail && base_ok, vec![label, api_name]),
    }
}

/// Is `target` an ancestor of (or equal to) value `from`?
fn reaches(g: &rten::verif::graph::Graph, from: NodeId, target: NodeId) -> bool {
    let mut stack = vec![from];
    let mut seen = std::collections::BTreeSet::new();
    while let Some(v) = stack.pop() {
        if v == target {
            return true;
        }
        if !seen.insert(v) {
            continue;
        }
        if let Some((_, op)) = g.get_source_node(v) {
            for i in op.input_ids().iter().flatten() {
                stack.push(*i);
            }
        }
    }
    false
}

fn depends_on(g: &rten::verif::graph::Graph, outs: &[NodeId], input: NodeId) -> bool {
    // a requested output that IS the input does not need it to be computed by anything,
    // but it still must be supplied
    outs.iter().any(|o| reaches(g, *o, input))
}

fn main() {
    let mut ck = Check::new("C26");
    ck.rule(
        "Cases = (typed-grammar ONNX model, optimisation on/off, one request mutation, API in {run, partial_run, run_n, run_one}). \
         Mutations named invalid by the property (unknown input/output id incl. ids near i32::MAX, duplicated input/output id (appended, or replacing another entry so that the request keeps the length of the plan cached by the preceding valid run; adjacent and non-adjacent positions), \
         operator id as input/output, constant id as input, missing required input, wrong dtype, wrong rank, wrong fixed dim) \
         must give Err; mutations that are not invalid (control, extra unused input, changed symbolic dim) must merely not panic. \
         Non-trivial = an invalid mutation applied to a request whose unmodified form succeeds. Distinct = distinct case value.",
    );
    ck.assume("NodeId::from_u32 documents a panic for values > i32::MAX; generated ids stay <= i32::MAX");
    ck.set_threads(12);
    let n = ck.pick(20_000, 400_000);
    let p = Profile::general();
    ck.prop_export(
        "mutated-requests",
        n,
        || {
            (raw_graph(3, 8), any::<bool>(), mutation(), 0u8..4).prop_map(|(raw, optimize, mutation, api)| Case { graph: GraphCase::Raw(raw), optimize, mutation, api })
        },
        |c| oracle(&p, c),
        |c| Case { graph: c.graph.export(&p), ..c.clone() },
    );
    ck.finish();
}

//! Development aid: how many generated models load and run, and why not.
use proptest::strategy::{Strategy, ValueTree};
use proptest::test_runner::{Config as PConfig, RngSeed, TestRunner};
use std::collections::BTreeMap;
use vc_onnxgen::grammar::*;
use vc_onnxgen::*;

fn main() {
    let n: usize = std::env::args().nth(1).and_then(|s| s.parse().ok()).unwrap_or(500);
    let mut runner = TestRunner::new(PConfig { rng_seed: RngSeed::Fixed(1), ..PConfig::default() });
    let strat = raw_graph(3, 10);
    let profile = Profile::general();
    let mut stats: BTreeMap<String, usize> = BTreeMap::new();
    let mut ops: BTreeMap<String, (usize, usize)> = BTreeMap::new();
    for _ in 0..n {
        let raw = strat.new_tree(&mut runner).unwrap().current();
        let built = build(&raw, &profile);
        let bytes = built.model.encode();
        let res = vcore::catch(|| match Config::Plain.load(&bytes) {
            Err(e) => format!("load-err: {}", &e[..e.len().min(90)]),
            Ok(m) => match run_named(&m, &built.inputs, &built.outputs, None, None) {
                Ok(outs) => {
                    // compare declared shapes with the grammar's expectation
                    let mut bad = None;
                    for (name, o) in built.outputs.iter().zip(&outs) {
                        let v = built.values.iter().find(|v| &v.name == name).unwrap();
                        if o.shape() != &v.shape[..] {
                            bad = Some(format!("shape-mismatch {:?} vs {:?} for {}", o.shape(), v.shape, name));
                        }
                        if let TVal::F32 { data, .. } = o {
                            if data.iter().any(|x| !x.is_finite()) { bad = Some("nonfinite".into()); }
                        }
                    }
                    bad.unwrap_or("ok".into())
                }
                Err(e) => format!("run-err: {}", &e[..e.len().min(90)]),
            },
        });
        let key = match res { Ok(k) => k, Err(p) => format!("panic: {} {}", p.loc(), p.msg_class()) };
        let ok = key == "ok";
        for op in &built.op_types { let e = ops.entry(op.clone()).or_default(); e.0 += 1; if ok { e.1 += 1; } }
        if !ok && std::env::var("SHOW").is_ok() { println!("{key}\n  ops={:?}\n  raw={}", built.op_types, serde_json::to_string(&raw).unwrap()); }
        *stats.entry(key).or_default() += 1;
    }
    for (k, v) in &stats { println!("{v:6} {k}"); }
    println!("--- op: total / in-ok-models");
    for (k, (t, o)) in &ops { println!("{k:24} {t:5} {o:5}"); }
}

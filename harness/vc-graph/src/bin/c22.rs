//! C22 — concurrent use of one model gives sequential results.
//!
//! One model is loaded once. A generated call set (2-6 threads x 1-6 calls
//! each; `run` and `partial_run`; different requested output sets so that the
//! single-entry plan cache is replaced on almost every call; some calls supply
//! an intermediate value as an input; shared or per-call thread pools) is first
//! executed sequentially to obtain the expected result of every call, then
//! executed concurrently (threads released together on a barrier, generated
//! spin delays between calls, several repetitions). Every concurrent result
//! must equal the sequential one; no call may panic. A hang is caught by the
//! engine's watchdog (exit 2, triaged by hand).

use proptest::prelude::*;
use rten::{Model, NodeId, RunOptions, ThreadPool, Value, ValueOrView};
use serde::{Deserialize, Serialize};
use std::sync::{Arc, Barrier};
use vc_onnxgen::grammar::*;
use vc_onnxgen::*;
use vcore::{Check, Verdict};

#[derive(Clone, Debug, Serialize, Deserialize)]
struct Call {
    partial: bool,
    /// selectors of requested outputs among all computable values
    outputs: Vec<u16>,
    /// Some(sel): additionally supply that intermediate value as an input
    cut: Option<u16>,
    /// busy-wait iterations (x256) before the call
    spin: u8,
    /// use a private 2-thread pool for this call instead of the shared one
    own_pool: bool,
}

#[derive(Clone, Debug, Serialize, Deserialize)]
struct Case {
    graph: GraphCase,
    optimize: bool,
    threads: Vec<Vec<Call>>,
}

#[derive(Clone, Debug, PartialEq)]
enum Outcome {
    Run(Result<Vec<TVal>, String>),
    Partial(Result<Vec<(u32, TVal)>, String>),
}

struct Prepared {
    partial: bool,
    inputs: Vec<(NodeId, TVal)>,
    outputs: Vec<NodeId>,
    spin: u8,
    own_pool: bool,
}

fn execute(model: &Model, p: &Prepared, shared: &Arc<ThreadPool>) -> Outcome {
    for _ in 0..(p.spin as u32 * 256) {
        std::hint::spin_loop();
    }
    let pool = if p.own_pool { Arc::new(ThreadPool::with_num_threads(2)) } else { shared.clone() };
    let opts = RunOptions::default().with_thread_pool(Some(pool));
    let ins: Vec<(NodeId, ValueOrView)> = p.inputs.iter().map(|(id, v)| (*id, ValueOrView::from(v.to_value()))).collect();
    if p.partial {
        Outcome::Partial(
            model
                .partial_run(ins, &p.outputs, Some(opts))
                .map(|l| {
                    let mut v: Vec<(u32, TVal)> = l.iter().map(|(id, v)| (id.as_u32(), TVal::from_value(v))).collect();
                    v.sort_by_key(|(id, _)| *id);
                    v
                })
                .map_err(|e| e.to_string()),
        )
    } else {
        Outcome::Run(model.run(ins, &p.outputs, Some(opts)).map(|vs| vs.iter().map(TVal::from_value).collect()).map_err(|e| e.to_string()))
    }
}

fn same(a: &Outcome, b: &Outcome) -> Result<(), String> {
    const TOL: Tol = Tol { rtol: 1e-5, atol: 1e-6 };
    match (a, b) {
        (Outcome::Run(Ok(x)), Outcome::Run(Ok(y))) => {
            if x.len() != y.len() {
                return Err("different number of outputs".into());
            }
            for (i, (p, q)) in x.iter().zip(y).enumerate() {
                compare(p, q, TOL).map_err(|e| format!("output {i}: {e}"))?;
            }
            Ok(())
        }
        (Outcome::Partial(Ok(x)), Outcome::Partial(Ok(y))) => {
            if x.len() != y.len() || x.iter().zip(y).any(|((i, _), (j, _))| i != j) {
                return Err(format!("different leaf sets {:?} vs {:?}", x.iter().map(|p| p.0).collect::<Vec<_>>(), y.iter().map(|p| p.0).collect::<Vec<_>>()));
            }
            for ((id, p), (_, q)) in x.iter().zip(y) {
                compare(p, q, TOL).map_err(|e| format!("leaf {id}: {e}"))?;
            }
            Ok(())
        }
        (Outcome::Run(Err(_)), Outcome::Run(Err(_))) | (Outcome::Partial(Err(_)), Outcome::Partial(Err(_))) => Ok(()),
        _ => Err(format!("sequential {:?} vs concurrent {:?}", short(a), short(b))),
    }
}

fn short(o: &Outcome) -> String {
    match o {
        Outcome::Run(Ok(_)) | Outcome::Partial(Ok(_)) => "Ok".into(),
        Outcome::Run(Err(e)) | Outcome::Partial(Err(e)) => format!("Err({e})"),
    }
}

fn oracle(profile: &Profile, shared: &Arc<ThreadPool>, repeats: usize, c: &Case) -> Verdict {
    let built = c.graph.build(profile);
    let bytes = built.model.encode();
    let cfg = if c.optimize { Config::OptInferOn } else { Config::Plain };
    let model = match vcore::catch(|| cfg.load(&bytes)) {
        Ok(Ok(m)) => m,
        _ => return Verdict::pass(false).label("load-failed"),
    };
    // all values of the model that a plain run can produce, computed once
    let names: Vec<String> = built.values.iter().map(|v| v.name.clone()).filter(|n| model.find_node(n).is_some()).collect();
    let mut known: Vec<(String, NodeId, TVal)> = Vec::new();
    for n in &names {
        if let Ok(Ok(v)) = vcore::catch(|| run_named(&model, &built.inputs, &[n.clone()], None, None)) {
            known.push((n.clone(), model.find_node(n).unwrap(), v[0].clone()));
        }
    }
    if known.len() < 2 {
        return Verdict::pass(false).label("too-few-computable-values");
    }
    let input_ids: Vec<(NodeId, TVal)> = built.inputs.iter().filter_map(|(n, v)| model.find_node(n).map(|id| (id, v.clone()))).collect();
    let pick = |sel: u16| &known[((sel as usize) * known.len()) >> 16];
    let prepared: Vec<Vec<Prepared>> = c
        .threads
        .iter()
        .map(|calls| {
            calls
                .iter()
                .map(|call| {
                    let mut outputs: Vec<NodeId> = Vec::new();
                    for s in &call.outputs {
                        let id = pick(*s).1;
                        if !outputs.contains(&id) {
                            outputs.push(id);
                        }
                    }
                    if outputs.is_empty() {
                        outputs.push(known[known.len() - 1].1);
                    }
                    let mut inputs = input_ids.clone();
                    if let Some(s) = call.cut {
                        let (_, id, v) = pick(s);
                        if !inputs.iter().any(|(i, _)| i == id) {
                            inputs.push((*id, v.clone()));
                        }
                    }
                    Prepared { partial: call.partial, inputs, outputs, spin: call.spin, own_pool: call.own_pool }
                })
                .collect()
        })
        .collect();
    // sequential expectation, on a fresh model so that it cannot be affected by cache state
    let fresh = match vcore::catch(|| cfg.load(&bytes)) {
        Ok(Ok(m)) => m,
        _ => return Verdict::pass(false).label("load-failed"),
    };
    let mut expected: Vec<Vec<Outcome>> = Vec::new();
    for calls in &prepared {
        let mut v = Vec::new();
        for p in calls {
            match vcore::catch(|| execute(&fresh, p, shared)) {
                Ok(o) => v.push(o),
                Err(p) => return Verdict::fail(format!("sequential-panic:{}", p.signature()), format!("a call panicked when made alone: {} at {}", p.msg, p.loc())),
            }
        }
        expected.push(v);
    }
    for rep in 0..repeats {
        let barrier = Barrier::new(prepared.len());
        let results: Vec<Result<Vec<Outcome>, vcore::PanicInfo>> = std::thread::scope(|s| {
            let handles: Vec<_> = prepared
                .iter()
                .map(|calls| {
                    let (model, barrier) = (&model, &barrier);
                    s.spawn(move || {
                        barrier.wait();
                        vcore::catch(|| calls.iter().map(|p| execute(model, p, shared)).collect::<Vec<_>>())
                    })
                })
                .collect();
            handles.into_iter().map(|h| h.join().expect("worker thread")).collect()
        });
        for (t, (res, exp)) in results.iter().zip(&expected).enumerate() {
            match res {
                Err(p) => {
                    return Verdict::fail(
                        format!("concurrent-panic:{}", p.signature()),
                        format!("thread {t} panicked during concurrent use (repeat {rep}): {} at {}; ops={:?}", p.msg, p.loc(), built.op_types),
                    )
                }
                Ok(outs) => {
                    for (k, (got, want)) in outs.iter().zip(exp).enumerate() {
                        if let Err(why) = same(want, got) {
                            return Verdict::fail(
                                if prepared[t][k].partial { "concurrent-differs:partial_run" } else { "concurrent-differs:run" },
                                format!("thread {t} call {k} (repeat {rep}): {why}; ops={:?}", built.op_types),
                            );
                        }
                    }
                }
            }
        }
    }
    let distinct_sets: std::collections::BTreeSet<Vec<u32>> = prepared
        .iter()
        .flat_map(|calls| calls.iter().map(|p| {
            let mut v: Vec<u32> = p.outputs.iter().map(|i| i.as_u32()).collect();
            v.sort();
            v
        }))
        .collect();
    let mut labels = Vec::new();
    if prepared.iter().flatten().any(|p| p.partial) {
        labels.push("has-partial_run");
    }
    if prepared.iter().flatten().any(|p| p.own_pool) {
        labels.push("has-per-call-pool");
    }
    if c.threads.iter().flatten().any(|c| c.cut.is_some()) {
        labels.push("intermediate-supplied-as-input");
    }
    Verdict::pass_l(prepared.len() >= 2 && distinct_sets.len() >= 2, labels)
}

fn main() {
    let mut ck = Check::new("C22");
    ck.rule(
        "Cases = (typed-grammar ONNX model, optimisation on/off, 2-6 threads each with 1-6 calls). A call = run or partial_run, \
         requested outputs drawn from all computable values, optionally an intermediate value supplied as an extra input, a \
         generated spin delay, shared or private thread pool. The call set is executed sequentially on a fresh model (expected \
         results), then concurrently on one shared model several times. Every concurrent outcome (values, leaf sets, Ok/Err) \
         must equal the sequential one (ints exact, floats rtol 1e-5); no panic. Non-trivial = >= 2 threads and >= 2 distinct \
         requested output sets in the call set (forces plan-cache replacement). Distinct = distinct case value.",
    );
    ck.assume("OS/rayon scheduling is sampled, not enumerated: a race that needs a rare preemption can be missed; the history dimension (any cache state reachable by an interleaving) is covered by the many sequential orders that concurrent runs realise");
    // the concurrent section already uses many OS threads per case
    ck.set_threads(3);
    let shared = Arc::new(ThreadPool::with_num_threads(4));
    let repeats = ck.pick(4, 12) as usize;
    let n = ck.pick(600, 30_000);
    let call = (any::<bool>(), proptest::collection::vec(any::<u16>(), 1..4), proptest::option::weighted(0.3, any::<u16>()), 0u8..40, prop::bool::weighted(0.2))
        .prop_map(|(partial, outputs, cut, spin, own_pool)| Call { partial: partial && outputs.len() > 1, outputs, cut, spin, own_pool });
    let p = Profile::general();
    let mk = || {
        let call = call.clone();
        (raw_graph(3, 8), any::<bool>(), proptest::collection::vec(proptest::collection::vec(call, 1..6), 2..6))
            .prop_map(|(raw, optimize, threads)| Case { graph: GraphCase::Raw(raw), optimize, threads })
    };
    ck.prop_export("call-sets", n, mk, |c| oracle(&p, &shared, repeats, c), |c| Case { graph: c.graph.export(&p), ..c.clone() });
    // Plan-cache stress: few models, many threads hammering `run` with two
    // alternating output sets and no delays, so that plan creation, cache
    // replacement and plan use of different threads overlap as often as the
    // scheduler allows.
    let iters = ck.pick(600, 6000) as usize;
    let n_stress = ck.pick(60, 600);
    ck.set_threads(1);
    ck.prop_export(
        "plan-cache-stress",
        n_stress,
        || (raw_graph(3, 6), any::<bool>(), any::<[u16; 2]>()).prop_map(|(raw, optimize, sel)| Stress { graph: GraphCase::Raw(raw), optimize, sel }),
        |c| stress_oracle(&p, &shared, iters, c),
        |c| Stress { graph: c.graph.export(&p), ..c.clone() },
    );
    ck.finish();
}

#[derive(Clone, Debug, Serialize, Deserialize)]
struct Stress {
    graph: GraphCase,
    optimize: bool,
    sel: [u16; 2],
}

fn stress_oracle(profile: &Profile, shared: &Arc<ThreadPool>, iters: usize, c: &Stress) -> Verdict {
    let built = c.graph.build(profile);
    let bytes = built.model.encode();
    let cfg = if c.optimize { Config::OptInferOn } else { Config::Plain };
    let model = match vcore::catch(|| cfg.load(&bytes)) {
        Ok(Ok(m)) => m,
        _ => return Verdict::pass(false).label("load-failed"),
    };
    let names: Vec<String> = built.values.iter().map(|v| v.name.clone()).filter(|n| model.find_node(n).is_some()).collect();
    let mut known: Vec<(NodeId, TVal)> = Vec::new();
    for n in &names {
        if let Ok(Ok(v)) = vcore::catch(|| run_named(&model, &built.inputs, &[n.clone()], None, None)) {
            known.push((model.find_node(n).unwrap(), v[0].clone()));
        }
    }
    if known.len() < 2 {
        return Verdict::pass(false).label("too-few-computable-values");
    }
    let a = ((c.sel[0] as usize) * known.len()) >> 16;
    let mut b = ((c.sel[1] as usize) * known.len()) >> 16;
    if b == a {
        b = (a + 1) % known.len();
    }
    let inputs: Vec<(NodeId, TVal)> = built.inputs.iter().filter_map(|(n, v)| model.find_node(n).map(|id| (id, v.clone()))).collect();
    // two output sets of different sizes, so a plan made for one cannot serve the other
    let sets: [Vec<NodeId>; 2] = [vec![known[a].0], vec![known[b].0, known[a].0]];
    let expect: [Vec<TVal>; 2] = [vec![known[a].1.clone()], vec![known[b].1.clone(), known[a].1.clone()]];
    let n_threads = 6;
    let barrier = Barrier::new(n_threads);
    let results: Vec<Result<Option<String>, vcore::PanicInfo>> = std::thread::scope(|s| {
        let handles: Vec<_> = (0..n_threads)
            .map(|t| {
                let (model, barrier, sets, expect, inputs) = (&model, &barrier, &sets, &expect, &inputs);
                s.spawn(move || {
                    barrier.wait();
                    vcore::catch(|| {
                        for i in 0..iters {
                            let k = (i + t) % 2;
                            let ins: Vec<(NodeId, ValueOrView)> = inputs.iter().map(|(id, v)| (*id, ValueOrView::from(v.to_value()))).collect();
                            let opts = RunOptions::default().with_thread_pool(Some(shared.clone()));
                            match model.run(ins, &sets[k], Some(opts)) {
                                Ok(vs) => {
                                    let got: Vec<TVal> = vs.iter().map(TVal::from_value).collect();
                                    for (x, y) in expect[k].iter().zip(&got) {
                                        if let Err(why) = compare(x, y, Tol { rtol: 1e-5, atol: 1e-6 }) {
                                            return Some(format!("thread {t} iteration {i} output set {k}: {why}"));
                                        }
                                    }
                                    if got.len() != expect[k].len() {
                                        return Some(format!("thread {t} iteration {i}: {} outputs instead of {}", got.len(), expect[k].len()));
                                    }
                                }
                                Err(e) => return Some(format!("thread {t} iteration {i} output set {k}: run failed: {e}")),
                            }
                        }
                        None
                    })
                })
            })
            .collect();
        handles.into_iter().map(|h| h.join().expect("worker thread")).collect()
    });
    for r in results {
        match r {
            Err(p) => {
                return Verdict::fail(
                    format!("stress-panic:{}", p.signature()),
                    format!("a thread panicked while 6 threads alternated between two output sets: {} at {}; ops={:?}", p.msg, p.loc(), built.op_types),
                )
            }
            Ok(Some(why)) => return Verdict::fail("stress-differs", format!("{why}; ops={:?}", built.op_types)),
            Ok(None) => {}
        }
    }
    Verdict::pass_l(true, vec!["plan-cache-stress"])
}

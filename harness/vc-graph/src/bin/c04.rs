//! C04 — partial evaluation composes with full evaluation.
//!
//! full = run(all inputs); leaves = partial_run(subset of inputs);
//! run(leaves ∪ remaining inputs) must equal `full` (bit-exact: the same
//! kernels run on the same values). Values downstream of a non-deterministic
//! operator must never be returned by partial_run, and constant propagation
//! at load time must never bake them into the graph.

use proptest::prelude::*;
use rten::{NodeId, Value, ValueOrView};
use serde::{Deserialize, Serialize};
use vc_onnxgen::grammar::*;
use vc_onnxgen::*;
use vcore::{Check, Verdict};

#[derive(Clone, Debug, Serialize, Deserialize)]
struct Case {
    graph: GraphCase,
}

fn run_ids(model: &rten::Model, inputs: Vec<(NodeId, Value)>, outs: &[NodeId]) -> Result<Vec<TVal>, String> {
    let ins: Vec<(NodeId, ValueOrView)> = inputs.into_iter().map(|(id, v)| (id, ValueOrView::from(v))).collect();
    model.run(ins, outs, None).map(|vs| vs.iter().map(TVal::from_value).collect()).map_err(|e| e.to_string())
}

fn oracle(profile: &Profile, c: &Case) -> Verdict {
    let built = c.graph.build(profile);
    let bytes = built.model.encode();
    let mut labels: Vec<&'static str> = Vec::new();
    let mut nontrivial = false;
    let has_random = built.values.iter().any(|v| v.random);
    if has_random {
        labels.push("has-random-op");
    }
    for cfg in [Config::Plain, Config::OptInferOn] {
        let model = match vcore::catch(|| cfg.load(&bytes)) {
            Ok(Ok(m)) => m,
            _ => {
                labels.push("load-failed");
                continue;
            }
        };
        // Non-deterministic operators must survive optimisation (never folded
        // into constants), as long as something still depends on them.
        if cfg == Config::OptInferOn && has_random {
            if let Ok(Ok(base)) = vcore::catch(|| Config::Plain.load(&bytes)) {
                let (a, b) = (op_multiset(&base), op_multiset(&model));
                for op in ["RandomUniform", "RandomNormal", "RandomUniformLike", "RandomNormalLike"] {
                    // only when the random value reaches a graph output
                    let reaches_output = built
                        .outputs
                        .iter()
                        .any(|o| built.values.iter().any(|v| &v.name == o && v.random));
                    if reaches_output && a.get(op).copied().unwrap_or(0) > 0 && b.get(op).copied().unwrap_or(0) == 0 {
                        // it may legitimately disappear only if no output depends on it
                        let any_random_output_left = b.keys().any(|k| k.starts_with("Random"));
                        if !any_random_output_left {
                            return Verdict::fail(
                                format!("random-op-folded:{op}"),
                                format!("{op} feeds a graph output but is absent from the optimised graph (base ops {a:?}, optimised {b:?})"),
                            );
                        }
                    }
                }
            }
        }
        let ids: Vec<NodeId> = match built.inputs.iter().map(|(n, _)| node_id(&model, n)).collect::<Result<_, _>>() {
            Ok(v) => v,
            Err(_) => continue,
        };
        let out_ids: Vec<NodeId> = match built.outputs.iter().map(|n| node_id(&model, n)).collect::<Result<_, _>>() {
            Ok(v) => v,
            Err(_) => continue,
        };
        let all_inputs = || -> Vec<(NodeId, Value)> { ids.iter().zip(&built.inputs).map(|(id, (_, v))| (*id, v.to_value())).collect() };
        let full = match vcore::catch(|| run_ids(&model, all_inputs(), &out_ids)) {
            Ok(Ok(f)) => f,
            _ => {
                labels.push("full-run-failed");
                continue;
            }
        };
        let n = ids.len();
        for mask in 0u32..(1 << n) {
            let subset: Vec<(NodeId, ValueOrView)> =
                (0..n).filter(|i| (mask >> i) & 1 == 1).map(|i| (ids[i], ValueOrView::from(built.inputs[i].1.to_value()))).collect();
            let leaves = match vcore::catch(|| model.partial_run(subset, &out_ids, None)) {
                Ok(Ok(l)) => l,
                Ok(Err(e)) => {
                    return Verdict::fail(
                        format!("partial-run-failed:{}", cfg.name()),
                        format!("full run succeeds but partial_run(mask {mask:b}) fails: {e}; ops={:?}", built.op_types),
                    )
                }
                Err(p) => {
                    return Verdict::fail(
                        format!("partial-run-panic:{}", p.signature()),
                        format!("partial_run(mask {mask:b}) panicked: {} at {}; ops={:?}", p.msg, p.loc(), built.op_types),
                    )
                }
            };
            // no leaf may be downstream of a non-deterministic operator
            let g = model.verif_graph();
            for (id, _) in &leaves {
                let name = g.node_name(*id);
                if let Some(v) = built.values.iter().find(|v| v.name == name) {
                    if v.random {
                        return Verdict::fail(
                            "partial-run-returned-random-value",
                            format!("partial_run(mask {mask:b}, {}) returned {name}, which depends on a non-deterministic operator; ops={:?}", cfg.name(), built.op_types),
                        );
                    }
                }
            }
            let executed_something = leaves.iter().any(|(id, _)| !ids.contains(id));
            let computed_everything = out_ids.iter().all(|o| leaves.iter().any(|(id, _)| id == o));
            if executed_something && !computed_everything {
                nontrivial = true;
            }
            // compose: leaves + the remaining inputs
            let mut second: Vec<(NodeId, Value)> = leaves;
            for i in 0..n {
                if (mask >> i) & 1 == 0 {
                    second.push((ids[i], built.inputs[i].1.to_value()));
                }
            }
            // The statement: "the values returned by partial_run together with the
            // REMAINING inputs". Inputs of the first call are not supplied again:
            // if a pruned operator still needs one, partial_run must return it.
            let got = match vcore::catch(|| run_ids(&model, second, &out_ids)) {
                Ok(Ok(g)) => g,
                Ok(Err(e)) => {
                    return Verdict::fail(
                        format!("compose-run-failed:{}", cfg.name()),
                        format!("run(partial_run leaves + remaining inputs) fails for mask {mask:b}: {e}; ops={:?}", built.op_types),
                    )
                }
                Err(p) => {
                    return Verdict::fail(
                        format!("compose-run-panic:{}", p.signature()),
                        format!("second run panicked for mask {mask:b}: {} at {}", p.msg, p.loc()),
                    )
                }
            };
            for ((name, a), b) in built.outputs.iter().zip(&full).zip(&got) {
                // outputs that depend on a non-deterministic op differ from run to run by design
                if built.values.iter().any(|v| &v.name == name && v.random) {
                    continue;
                }
                if let Err(why) = compare(a, b, Tol::EXACT) {
                    return Verdict::fail(
                        format!("compose-differs:{}", cfg.name()),
                        format!("output {name}: full run vs partial_run(mask {mask:b}) + run: {why}; ops={:?}", built.op_types),
                    );
                }
            }
        }
    }
    labels.sort();
    labels.dedup();
    Verdict::pass_l(nontrivial, labels)
}

fn main() {
    let mut ck = Check::new("C04");
    ck.rule(
        "Cases = typed-grammar ONNX models with 1-3 inputs (general profile, and a profile with RandomUniform/RandomNormal(+Like) \
         nodes, seeded and unseeded). For every subset of the inputs (all 2^n): leaves = partial_run(subset); \
         run(leaves + remaining inputs) must equal the full run bit-exactly on every output that does not depend on a random op; \
         no leaf may depend on a random op; a random op that feeds a graph output must still be present after optimisation. \
         Both optimisation off and on. Non-trivial = for some subset partial_run returned at least one computed (non-input) \
         value and did not compute every requested output (i.e. it executed >= 1 op and pruned >= 1 op). Distinct = distinct case value.",
    );
    ck.set_threads(12);
    let n = ck.pick(4000, 120_000);
    let p1 = Profile::general();
    ck.prop_export("general", n / 2, || raw_graph(3, 10).prop_map(|raw| Case { graph: GraphCase::Raw(raw) }), |c| oracle(&p1, c), |c| Case { graph: c.graph.export(&p1) });
    let p2 = Profile::inplace_biased().with_random();
    ck.prop_export("with-random-ops", n / 2, || raw_graph(3, 10).prop_map(|raw| Case { graph: GraphCase::Raw(raw) }), |c| oracle(&p2, c), |c| Case { graph: c.graph.export(&p2) });
    ck.finish();
}

//! C01 — graph optimisation preserves model semantics.
//!
//! Differential oracle: the same model bytes are loaded with optimisation off
//! and with optimisation on under shape inference Off / On / Strict, run with
//! the same conforming inputs, and compared. If the unoptimised run succeeds,
//! every optimised configuration must load (Strict may refuse) and produce
//! equal shape, dtype and values (ints exact, floats within tolerance,
//! identical NaN positions).

use vc_onnxgen::grammar::*;
use vc_onnxgen::*;
use vcore::{Check, Verdict};

type Case = GraphCase;

/// Float tolerance: fused kernels legitimately re-order float operations
/// (e.g. MatMul+Add, LayerNorm variants); the defects of interest change
/// results by O(1). Generated values are finite and moderate.
const TOL: Tol = Tol { rtol: 2e-3, atol: 2e-4 };

fn err_class(e: &str) -> String {
    let mut out = String::new();
    let mut last_digit = false;
    let mut in_quote = false;
    for c in e.chars().take(100) {
        if c == '"' {
            in_quote = !in_quote;
            continue;
        }
        if in_quote {
            continue;
        }
        if c.is_ascii_digit() {
            if !last_digit {
                out.push('#');
            }
            last_digit = true;
        } else {
            out.push(c);
            last_digit = false;
        }
    }
    out
}

/// Pattern-template cases carry a tag `@pattern=<Template>;knobs=<...>` as the
/// first op_types entry; it is appended to the signature so that a known
/// finding names the template and the perturbation, not just the fused op.
fn tag_of(built: &Built) -> String {
    match built.op_types.first() {
        Some(t) if t.starts_with('@') => format!(":{t}"),
        _ => String::new(),
    }
}

fn oracle(profile: &Profile, c: &Case) -> Verdict {
    let built = c.build(profile);
    let tag = tag_of(&built);
    let bytes = built.model.encode();
    let base_model = match vcore::catch(|| Config::Plain.load(&bytes)) {
        Ok(Ok(m)) => m,
        Ok(Err(_)) => return Verdict::pass(false).label("base-load-failed"),
        Err(_) => return Verdict::pass(false).label("base-load-panicked"),
    };
    let base = match vcore::catch(|| run_named(&base_model, &built.inputs, &built.outputs, None, None)) {
        Ok(Ok(o)) => o,
        Ok(Err(_)) => return Verdict::pass(false).label("base-run-failed"),
        Err(_) => return Verdict::pass(false).label("base-run-panicked"),
    };
    let mut nontrivial = false;
    let mut labels: Vec<&'static str> = Vec::new();
    for cfg in [Config::OptInferOff, Config::OptInferOn, Config::OptInferStrict] {
        let model = match vcore::catch(|| cfg.load(&bytes)) {
            Ok(Ok(m)) => m,
            Ok(Err(e)) => {
                if cfg == Config::OptInferStrict {
                    labels.push("strict-refused-load");
                    continue;
                }
                return Verdict::fail(
                    format!("load-failed:{}:{}{tag}", cfg.name(), err_class(&e)),
                    format!("unoptimised model loads and runs, but {} fails to load: {e}; ops={:?}", cfg.name(), built.op_types),
                );
            }
            Err(p) => {
                return Verdict::fail(
                    format!("load-panic:{}:{}{tag}", cfg.name(), p.signature()),
                    format!("{} load panicked: {} at {}; ops={:?}", cfg.name(), p.msg, p.loc(), built.op_types),
                )
            }
        };
        let diff = op_diff(&base_model, &model);
        if !diff.is_empty() {
            nontrivial = true;
        }
        let outs = match vcore::catch(|| run_named(&model, &built.inputs, &built.outputs, None, None)) {
            Ok(Ok(o)) => o,
            Ok(Err(e)) => {
                return Verdict::fail(
                    format!("run-failed:{}:{}{tag}", diff.join(","), err_class(&e)),
                    format!("unoptimised run succeeds but {} run fails: {e}; optimiser changes {:?}; ops={:?}", cfg.name(), diff, built.op_types),
                )
            }
            Err(p) => {
                return Verdict::fail(
                    format!("run-panic:{}:{}{tag}", diff.join(","), p.signature()),
                    format!("{} run panicked: {} at {}; optimiser changes {:?}", cfg.name(), p.msg, p.loc(), diff),
                )
            }
        };
        for ((name, b), o) in built.outputs.iter().zip(&base).zip(&outs) {
            if let Err(why) = compare(b, o, TOL) {
                return Verdict::fail(
                    format!("mismatch:{}{tag}", diff.join(",")),
                    format!(
                        "output {name} differs between opt-off and {}: {why}; optimiser changes {:?}; ops={:?}",
                        cfg.name(),
                        diff,
                        built.op_types
                    ),
                );
            }
        }
        for d in &diff {
            // coarse histogram of which rewrites fired
            labels.push(match d.as_str() {
                "+FusedMatMul" => "fused:FusedMatMul",
                "+Silu" => "fused:Silu",
                "+Swish" => "fused:Swish",
                "+Gelu" => "fused:Gelu",
                "+LayerNormalization" => "fused:LayerNorm",
                "+RmsNormalization" | "+RMSNormalization" => "fused:RmsNorm",
                "+Reciprocal" => "fused:Reciprocal",
                "+ComputeShape" => "fused:ComputeShape",
                "+AddSoftmax" => "fused:AddSoftmax",
                "+Conv" => "fused:Conv+Add",
                "+Cast" => "fused:Cast",
                "+Identity" => "fused:Identity",
                "+Transpose" => "fused:Transpose",
                "-Identity" => "removed:Identity",
                "-Add" => "removed:Add",
                "-Mul" => "removed:Mul",
                "-Shape" => "removed:Shape",
                "-Transpose" => "removed:Transpose",
                "-Cast" => "removed:Cast",
                "-Dropout" => "removed:Dropout",
                s if s.starts_with('+') => "fused:other",
                _ => "removed:other",
            });
        }
    }
    labels.sort();
    labels.dedup();
    Verdict::pass_l(nontrivial, labels)
}

fn main() {
    let mut ck = Check::new("C01");
    ck.rule(
        "Cases = raw choice vectors interpreted by the typed ONNX graph grammar (vc-onnxgen): 1-3 inputs \
         (f32/i32/i64/bool, rank 0-4, fixed and symbolic dims, sizes 0-6), up to 14 ops from ~90 operator kinds \
         incl. the shapes fusions look for (x±0, x*1, MatMul+Add/scale, Conv+Add, Sigmoid·x, Shape chains, \
         Transpose→MatMul, Cast chains, Reciprocal, LayerNorm/RMSNorm ...), constants of rank 0/[1]/vector/full, \
         extra graph outputs on intermediates/inputs/constants. Each model is encoded to real .onnx bytes and \
         loaded under {opt off} ∪ {opt on × infer Off/On/Strict}. Non-trivial = the unoptimised run succeeded \
         AND the optimised graph's operator multiset differs from the unoptimised one in at least one \
         configuration (i.e. some fusion/elimination/constant-propagation really fired). Distinct = distinct raw case.",
    );
    ck.assume("float tolerance rtol 2e-3 / atol 2e-4 (fused kernels legitimately re-order float ops); generated values are finite and moderate so re-ordering cannot flip NaN/inf");
    ck.assume("Strict shape inference may refuse to load a model (its contract); that is not a violation");
    ck.set_threads(12);
    let profile = Profile::general();
    let n = ck.pick(3000, 120_000);
    ck.prop_export("grammar-general", n, || raw_graph(3, 14).prop_map(GraphCase::Raw), |c| oracle(&profile, c), |c| c.export(&profile));
    let profile2 = Profile::inplace_biased();
    ck.prop_export("grammar-elementwise", n / 2, || raw_graph(3, 10).prop_map(GraphCase::Raw), |c| oracle(&profile2, c), |c| c.export(&profile2));
    // Shape arithmetic on symbolic dims that are instantiated to 0 / 1: the
    // regime where shape inference folds comparisons and arithmetic on dims.
    let profile3 = {
        use Family::*;
        Profile {
            families: vec![
                (6, Shape), (8, ShapeArith), (3, Where), (2, Cast), (2, Compare), (2, Reshape), (2, Expand), (2, ConstantOfShape),
                (2, UnaryF), (2, BinaryF), (1, Concat), (1, Slice), (1, Gather), (1, Unsqueeze), (1, Squeeze), (1, Reduce), (1, Identity),
            ],
            ..Profile::general()
        }
    };
    ck.prop_export(
        "shape-arith-zero-dims",
        n / 2,
        || {
            (raw_graph(3, 10), any::<[u8; 12]>()).prop_map(|(mut raw, z)| {
                // make many input dims symbolic and a good share of them empty or 1
                for (k, inp) in raw.inputs.iter_mut().enumerate() {
                    inp.sym |= z[k % 12] | 0x0f;
                    if inp.rank == 0 {
                        inp.rank = 1 + z[(k + 3) % 12] % 3;
                    }
                    for d in 0..4 {
                        match z[(k * 4 + d) % 12] % 4 {
                            0 => inp.dims[d] = 230, // size 0
                            1 => inp.dims[d] = 0,   // size 1
                            _ => {}
                        }
                    }
                }
                GraphCase::Raw(raw)
            })
        },
        |c| oracle(&profile3, c),
        |c| c.export(&profile3),
    );
    // Fusion-pattern templates with perturbation knobs (vc-patterns): every
    // fusion of src/optimize/fusions.rs just inside / just outside its
    // legality conditions.
    let n_pat = ck.pick(6000, 200_000);
    ck.prop("fusion-patterns", n_pat, || vc_patterns::pattern_graph_case(), |c| oracle(&profile, c));
    ck.finish();
}

use proptest::prelude::*;

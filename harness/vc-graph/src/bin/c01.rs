//! C01 — graph optimisation preserves model semantics.
//!
//! Differential oracle: the same model bytes are loaded with optimisation off
//! and with optimisation on under shape inference Off / On / Strict, run with
//! the same conforming inputs, and compared. If the unoptimised run succeeds,
//! every optimised configuration must load (Strict may refuse) and produce
//! equal shape, dtype and values (ints exact, floats within tolerance,
//! identical NaN positions).

use vc_onnxgen::grammar::*;
use vc_onnxgen::*;
use vcore::{Check, Verdict};

type Case = GraphCase;

/// Float tolerance: fused kernels legitimately re-order float operations
/// (e.g. MatMul+Add, LayerNorm variants); the defects of interest change
/// results by O(1). Generated values are finite and moderate.
const TOL: Tol = Tol { rtol: 2e-3, atol: 2e-4 };

fn err_class(e: &str) -> String {
    let mut out = String::new();
    let mut last_digit = false;
    let mut in_quote = false;
    for c in e.chars().take(100) {
        if c == '"' {
            in_quote = !in_quote;
            continue;
        }
        if in_quote {
            continue;
        }
        if c.is_ascii_digit() {
            if !last_digit {
                out.push('#');
            }
            last_digit = true;
        } else {
            out.push(c);
            last_digit = false;
        }
    }
    out
}

fn oracle(profile: &Profile, c: &Case) -> Verdict {
    let built = c.build(profile);
    let bytes = built.model.encode();
    let base_model = match vcore::catch(|| Config::Plain.load(&bytes)) {
        Ok(Ok(m)) => m,
        Ok(Err(_)) => return Verdict::pass(false).label("base-load-failed"),
        Err(_) => return Verdict::pass(false).label("base-load-panicked"),
    };
    let base = match vcore::catch(|| run_named(&base_model, &built.inputs, &built.outputs, None, None)) {
        Ok(Ok(o)) => o,
        Ok(Err(_)) => return Verdict::pass(false).label("base-run-failed"),
        Err(_) => return Verdict::pass(false).label("base-run-panicked"),
    };
    let mut nontrivial = false;
    let mut labels: Vec<&'static str> = Vec::new();
    for cfg in [Config::OptInferOff, Config::OptInferOn, Config::OptInferStrict] {
        let model = match vcore::catch(|| cfg.load(&bytes)) {
            Ok(Ok(m)) => m,
            Ok(Err(e)) => {
                if cfg == Config::OptInferStrict {
                    labels.push("strict-refused-load");
                    continue;
                }
                return Verdict::fail(
                    format!("load-failed:{}:{}", cfg.name(), err_class(&e)),
                    format!("unoptimised model loads and runs, but {} fails to load: {e}; ops={:?}", cfg.name(), built.op_types),
                );
            }
            Err(p) => {
                return Verdict::fail(
                    format!("load-panic:{}:{}", cfg.name(), p.signature()),
                    format!("{} load panicked: {} at {}; ops={:?}", cfg.name(), p.msg, p.loc(), built.op_types),
                )
            }
        };
        let diff = op_diff(&base_model, &model);
        if !diff.is_empty() {
            nontrivial = true;
        }
        let outs = match vcore::catch(|| run_named(&model, &built.inputs, &built.outputs, None, None)) {
            Ok(Ok(o)) => o,
            Ok(Err(e)) => {
                return Verdict::fail(
                    format!("run-failed:{}:{}", diff.join(","), err_class(&e)),
                    format!("unoptimised run succeeds but {} run fails: {e}; optimiser changes {:?}; ops={:?}", cfg.name(), diff, built.op_types),
                )
            }
            Err(p) => {
                return Verdict::fail(
                    format!("run-panic:{}:{}", diff.join(","), p.signature()),
                    format!("{} run panicked: {} at {}; optimiser changes {:?}", cfg.name(), p.msg, p.loc(), diff),
                )
            }
        };
        for ((name, b), o) in built.outputs.iter().zip(&base).zip(&outs) {
            if let Err(why) = compare(b, o, TOL) {
                return Verdict::fail(
                    format!("mismatch:{}", diff.join(",")),
                    format!(
                        "output {name} differs between opt-off and {}: {why}; optimiser changes {:?}; ops={:?}",
                        cfg.name(),
                        diff,
                        built.op_types
                    ),
                );
            }
        }
        for d in &diff {
            // coarse histogram of which rewrites fired
            labels.push(match d.as_str() {
                "+FusedMatMul" => "fused:FusedMatMul",
                "+Silu" => "fused:Silu",
                "+Swish" => "fused:Swish",
                "+Gelu" => "fused:Gelu",
                "+LayerNormalization" => "fused:LayerNorm",
                "+RmsNormalization" | "+RMSNormalization" => "fused:RmsNorm",
                "+Reciprocal" => "fused:Reciprocal",
                "+ComputeShape" => "fused:ComputeShape",
                "+AddSoftmax" => "fused:AddSoftmax",
                "+Conv" => "fused:Conv+Add",
                "+Cast" => "fused:Cast",
                "+Identity" => "fused:Identity",
                "+Transpose" => "fused:Transpose",
                "-Identity" => "removed:Identity",
                "-Add" => "removed:Add",
                "-Mul" => "removed:Mul",
                "-Shape" => "removed:Shape",
                "-Transpose" => "removed:Transpose",
                "-Cast" => "removed:Cast",
                "-Dropout" => "removed:Dropout",
                s if s.starts_with('+') => "fused:other",
                _ => "removed:other",
            });
        }
    }
    labels.sort();
    labels.dedup();
    Verdict::pass_l(nontrivial, labels)
}

fn main() {
    let mut ck = Check::new("C01");
    ck.rule(
        "Cases = raw choice vectors interpreted by the typed ONNX graph grammar (vc-onnxgen): 1-3 inputs \
         (f32/i32/i64/bool, rank 0-4, fixed and symbolic dims, sizes 0-6), up to 14 ops from ~90 operator kinds \
         incl. the shapes fusions look for (x±0, x*1, MatMul+Add/scale, Conv+Add, Sigmoid·x, Shape chains, \
         Transpose→MatMul, Cast chains, Reciprocal, LayerNorm/RMSNorm ...), constants of rank 0/[1]/vector/full, \
         extra graph outputs on intermediates/inputs/constants. Each model is encoded to real .onnx bytes and \
         loaded under {opt off} ∪ {opt on × infer Off/On/Strict}. Non-trivial = the unoptimised run succeeded \
         AND the optimised graph's operator multiset differs from the unoptimised one in at least one \
         configuration (i.e. some fusion/elimination/constant-propagation really fired). Distinct = distinct raw case.",
    );
    ck.assume("float tolerance rtol 2e-3 / atol 2e-4 (fused kernels legitimately re-order float ops); generated values are finite and moderate so re-ordering cannot flip NaN/inf");
    ck.assume("Strict shape inference may refuse to load a model (its contract); that is not a violation");
    ck.set_threads(12);
    let profile = Profile::general();
    let n = ck.pick(3000, 120_000);
    ck.prop_export("grammar-general", n, || raw_graph(3, 14).prop_map(GraphCase::Raw), |c| oracle(&profile, c), |c| c.export(&profile));
    let profile2 = Profile::inplace_biased();
    ck.prop_export("grammar-elementwise", n / 2, || raw_graph(3, 10).prop_map(GraphCase::Raw), |c| oracle(&profile2, c), |c| c.export(&profile2));
    ck.finish();
}

use proptest::strategy::Strategy;

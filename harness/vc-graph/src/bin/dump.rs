//! Development aid: print the model a replay file (or raw case JSON) builds.
use vc_onnxgen::grammar::*;
fn main() {
    let path = std::env::args().nth(1).expect("replay file");
    let prof = std::env::args().nth(2).unwrap_or("general".into());
    let v: serde_json::Value = serde_json::from_str(&std::fs::read_to_string(path).unwrap()).unwrap();
    let raw_v = v.get("case").and_then(|c| c.get("raw")).cloned().unwrap_or(v.clone());
    let raw: RawGraph = serde_json::from_value(raw_v).unwrap();
    let profile = match prof.as_str() { "inplace" => Profile::inplace_biased(), "random" => Profile::general().with_random(), _ => Profile::general() };
    let b = build(&raw, &profile);
    for i in &b.model.graph.inputs { println!("input {:?}", i); }
    for (n, t) in &b.model.graph.initializers { println!("init {n} {:?} {:?} f={:?} i={:?}", t.dtype, t.dims, &t.f[..t.f.len().min(8)], &t.i[..t.i.len().min(8)]); }
    for n in &b.model.graph.nodes { println!("{} {:?} -> {:?} {:?}", n.op, n.inputs, n.outputs, n.attrs); }
    println!("outputs {:?}", b.outputs);
    for (n, v) in &b.inputs { println!("data {n} = {:?}", v); }
}

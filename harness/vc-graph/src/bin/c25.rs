//! C25 — model runs are deterministic and leave model and inputs unchanged.
//!
//! Histories of runs on ONE loaded model with varying inputs and output sets:
//! the same request twice gives bit-identical outputs; every borrowed input
//! buffer is bit-identical before/after; every constant of the graph is
//! bit-identical before/after each run; the last run of a history equals the
//! same run on a freshly loaded model.

use proptest::prelude::*;
use rten::verif::graph::Node;
use rten::{NodeId, Value, ValueOrView};
use serde::{Deserialize, Serialize};
use vc_onnxgen::grammar::*;
use vc_onnxgen::*;
use vcore::{Check, Verdict};

#[derive(Clone, Debug, Serialize, Deserialize)]
struct RunReq {
    /// input data variant
    variant: u8,
    /// bit i: input i is passed as an owned value (else borrowed view)
    owned: u8,
    /// selectors of requested outputs among all named values (inputs, constants, intermediates)
    outputs: Vec<u16>,
    /// Some(sel): additionally supply an (altered) value for that intermediate
    /// value, overriding what the graph would compute
    #[serde(default)]
    cut: Option<u16>,
}

#[derive(Clone, Debug, Serialize, Deserialize)]
struct Case {
    graph: GraphCase,
    optimize: bool,
    history: Vec<RunReq>,
}

fn variant_of(v: &TVal, k: u8) -> TVal {
    match v {
        TVal::F32 { shape, data } => TVal::F32 {
            shape: shape.clone(),
            data: data.iter().enumerate().map(|(i, x)| if k == 0 { *x } else { x * 0.5 + (k as f32) * 0.25 - (i % 3) as f32 }).collect(),
        },
        TVal::I32 { shape, data } => TVal::I32 {
            shape: shape.clone(),
            data: data.iter().enumerate().map(|(i, x)| if k == 0 { *x } else { (x + k as i32 + i as i32) % 5 }).collect(),
        },
        other => other.clone(),
    }
}

fn constants(model: &rten::Model) -> Vec<(NodeId, TVal)> {
    model
        .verif_graph()
        .iter()
        .filter_map(|(id, n)| match n {
            Node::Constant(c) => Some((id, TVal::from_value(&c.as_view().to_owned()))),
            _ => None,
        })
        .collect()
}

fn bits_equal(a: &TVal, b: &TVal) -> bool {
    match (a, b) {
        (TVal::F32 { shape: s1, data: d1 }, TVal::F32 { shape: s2, data: d2 }) => {
            s1 == s2 && d1.len() == d2.len() && d1.iter().zip(d2).all(|(x, y)| x.to_bits() == y.to_bits())
        }
        _ => a == b,
    }
}

struct Outcome {
    result: Result<Vec<TVal>, String>,
}

fn do_run(model: &rten::Model, built: &Built, req: &RunReq, names: &[String], cuts: &[(String, TVal)]) -> Result<(Outcome, Vec<String>), Verdict> {
    let mut inputs: Vec<(String, TVal)> = built.inputs.iter().map(|(n, v)| (n.clone(), variant_of(v, req.variant))).collect();
    if let (Some(sel), false) = (req.cut, cuts.is_empty()) {
        let (n, v) = &cuts[((sel as usize) * cuts.len()) >> 16];
        if !inputs.iter().any(|(m, _)| m == n) {
            // an altered value, so that ignoring the override is observable
            inputs.push((n.clone(), variant_of(v, 3)));
        }
    }
    let values: Vec<Value> = inputs.iter().map(|(_, v)| v.to_value()).collect();
    let mut ins: Vec<(NodeId, ValueOrView)> = Vec::new();
    for (i, (name, _)) in inputs.iter().enumerate() {
        let id = model.node_id(name).map_err(|e| Verdict::fail("node-id", e.to_string()))?;
        if (req.owned >> (i % 8)) & 1 == 1 {
            ins.push((id, ValueOrView::from(values[i].clone())));
        } else {
            ins.push((id, ValueOrView::from(&values[i])));
        }
    }
    let mut out_names: Vec<String> = Vec::new();
    for s in &req.outputs {
        let n = names[((*s as usize) * names.len()) >> 16].clone();
        if !out_names.contains(&n) {
            out_names.push(n);
        }
    }
    if out_names.is_empty() {
        out_names = built.outputs.clone();
    }
    let out_ids: Vec<NodeId> = out_names.iter().filter_map(|n| model.find_node(n)).collect();
    if out_ids.len() != out_names.len() {
        return Err(Verdict::pass(false).label("name-lookup-failed"));
    }
    let res = vcore::catch(|| model.run(ins, &out_ids, None));
    let result = match res {
        Ok(Ok(vs)) => Ok(vs.iter().map(TVal::from_value).collect()),
        Ok(Err(e)) => Err(e.to_string()),
        Err(p) => return Err(Verdict::fail(format!("run-panic:{}", p.signature()), format!("{} at {}", p.msg, p.loc()))),
    };
    // borrowed inputs unchanged
    for (i, (name, orig)) in inputs.iter().enumerate() {
        if (req.owned >> (i % 8)) & 1 == 0 {
            let after = TVal::from_value(&values[i]);
            if !bits_equal(orig, &after) {
                return Err(Verdict::fail(
                    "borrowed-input-modified",
                    format!("borrowed input {name} changed during run: before {orig:?}, after {after:?}; outputs requested {out_names:?}; ops={:?}", built.op_types),
                ));
            }
        }
    }
    Ok((Outcome { result }, out_names))
}

fn oracle(profile: &Profile, c: &Case) -> Verdict {
    let built = c.graph.build(profile);
    let bytes = built.model.encode();
    let cfg = if c.optimize { Config::OptInferOn } else { Config::Plain };
    let model = match vcore::catch(|| cfg.load(&bytes)) {
        Ok(Ok(m)) => m,
        _ => return Verdict::pass(false).label("load-failed"),
    };
    // names of all values that can be requested: inputs, initialisers, intermediates
    let names: Vec<String> = built.values.iter().map(|v| v.name.clone()).filter(|n| model.find_node(n).is_some()).collect();
    if names.is_empty() {
        return Verdict::pass(false);
    }
    // intermediate values that can be supplied as overriding inputs
    let mut cuts: Vec<(String, TVal)> = Vec::new();
    if let Ok(Ok(probe)) = vcore::catch(|| cfg.load(&bytes)) {
        for v in built.values.iter().filter(|v| v.kind == VKind::Inter) {
            if let Ok(Ok(r)) = vcore::catch(|| run_named(&probe, &built.inputs, &[v.name.clone()], None, None)) {
                cuts.push((v.name.clone(), r[0].clone()));
            }
        }
    }
    let consts0 = constants(&model);
    let mut ok_runs = 0;
    let mut last: Option<(RunReq, Vec<String>, Vec<TVal>)> = None;
    for req in &c.history {
        let (first, out_names) = match do_run(&model, &built, req, &names, &cuts) {
            Ok(x) => x,
            Err(v) => return v,
        };
        let (second, _) = match do_run(&model, &built, req, &names, &cuts) {
            Ok(x) => x,
            Err(v) => return v,
        };
        match (&first.result, &second.result) {
            (Ok(a), Ok(b)) => {
                ok_runs += 1;
                for ((n, x), y) in out_names.iter().zip(a).zip(b) {
                    if !bits_equal(x, y) {
                        return Verdict::fail(
                            "same-request-differs",
                            format!("output {n} differs between two identical runs: {x:?} vs {y:?}; ops={:?}", built.op_types),
                        );
                    }
                }
                last = Some((req.clone(), out_names.clone(), a.clone()));
                // every run equals the same run on a freshly loaded model
                if let Ok(Ok(fresh)) = vcore::catch(|| cfg.load(&bytes)) {
                    if let Ok((o, _)) = do_run(&fresh, &built, req, &names, &cuts) {
                        if let Ok(vs) = o.result {
                            for ((n, x), y) in out_names.iter().zip(a).zip(&vs) {
                                if !bits_equal(x, y) {
                                    return Verdict::fail(
                                        "history-affects-result",
                                        format!("output {n}: on the used model {x:?}, on a fresh model {y:?} (request {req:?}); ops={:?}", built.op_types),
                                    );
                                }
                            }
                        }
                    }
                }
            }
            (Err(_), Err(_)) => {}
            (a, b) => {
                return Verdict::fail(
                    "same-request-ok-vs-err",
                    format!("identical requests: first {:?}, second {:?}; ops={:?}", a.as_ref().map(|_| "Ok"), b.as_ref().map(|_| "Ok"), built.op_types),
                )
            }
        }
        let consts = constants(&model);
        for ((id, before), (_, after)) in consts0.iter().zip(&consts) {
            if !bits_equal(before, after) {
                return Verdict::fail(
                    "constant-modified",
                    format!(
                        "constant {} changed after a run (outputs {out_names:?}, owned mask {:b}): before {before:?}, after {after:?}; ops={:?}",
                        model.verif_graph().node_name(*id),
                        req.owned,
                        built.op_types
                    ),
                );
            }
        }
    }
    // the final run equals the same run on a fresh model
    if let Some((req, out_names, expect)) = last {
        if let Ok(Ok(fresh)) = vcore::catch(|| cfg.load(&bytes)) {
            if let Ok((o, _)) = do_run(&fresh, &built, &req, &names, &cuts) {
                match o.result {
                    Ok(vs) => {
                        for ((n, x), y) in out_names.iter().zip(&expect).zip(&vs) {
                            if !bits_equal(x, y) {
                                return Verdict::fail(
                                    "history-affects-result",
                                    format!("output {n}: after a history of {} runs {x:?}, on a fresh model {y:?}; ops={:?}", c.history.len(), built.op_types),
                                );
                            }
                        }
                    }
                    Err(e) => return Verdict::fail("history-affects-result", format!("run succeeds after a history but fails on a fresh model: {e}")),
                }
            }
        }
    }
    // structural non-triviality: a constant or graph input feeds an in-place-capable operator position
    let g = model.verif_graph();
    let input_ids: Vec<NodeId> = built.inputs.iter().filter_map(|(n, _)| model.find_node(n)).collect();
    let mut feeds_inplace = false;
    for (_, node) in g.iter() {
        if let Some(op) = node.as_operator() {
            for pos in op.operator().in_place_inputs().iter() {
                if let Some(Some(id)) = op.input_ids().get(pos as usize) {
                    if matches!(g.get_node(*id), Some(Node::Constant(_))) || input_ids.contains(id) {
                        feeds_inplace = true;
                    }
                }
            }
        }
    }
    let mut labels = Vec::new();
    if feeds_inplace {
        labels.push("const-or-input-feeds-inplace-op");
    }
    if c.optimize {
        labels.push("optimised");
    }
    Verdict::pass_l(feeds_inplace && ok_runs >= 2, labels)
}

fn main() {
    let mut ck = Check::new("C25");
    ck.rule(
        "Cases = (typed-grammar ONNX model, optimisation on/off, history of 2-6 run requests). A request = input data \
         variant, per-input owned/borrowed flag, requested outputs drawn from ALL named values (graph inputs, \
         initialisers, intermediates, graph outputs). Every request is issued twice. Oracle: identical requests give \
         bit-identical outputs; borrowed input buffers are bit-identical after each run; every constant node of the \
         graph is bit-identical after each run; the last successful run equals the same run on a freshly loaded model. \
         Non-trivial = at least 2 requests succeeded AND some constant or graph input feeds an in-place-capable operator \
         position. Distinct = distinct case value.",
    );
    ck.set_threads(12);
    let req = (any::<u8>().prop_map(|v| v % 4), any::<u8>(), proptest::collection::vec(any::<u16>(), 0..4), proptest::option::weighted(0.3, any::<u16>()))
        .prop_map(|(variant, owned, outputs, cut)| RunReq { variant, owned, outputs, cut });
    let n = ck.pick(4000, 100_000);
    let p1 = Profile::inplace_biased();
    let mk = |max_nodes: usize| {
        let req = req.clone();
        move || {
            (raw_graph(3, max_nodes), any::<bool>(), proptest::collection::vec(req.clone(), 2..6))
                .prop_map(|(raw, optimize, history)| Case { graph: GraphCase::Raw(raw), optimize, history })
        }
    };
    ck.prop_export("elementwise", n / 2, mk(8), |c| oracle(&p1, c), |c| Case { graph: c.graph.export(&p1), ..c.clone() });
    let p2 = Profile::general();
    ck.prop_export("general", n / 2, mk(10), |c| oracle(&p2, c), |c| Case { graph: c.graph.export(&p2), ..c.clone() });
    ck.finish();
}

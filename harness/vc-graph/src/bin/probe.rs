use rten::{NodeId, Value, ValueOrView};
use vc_onnxgen::grammar::*;
use vc_onnxgen::*;
fn main() {
    let path = std::env::args().nth(1).unwrap();
    let v: serde_json::Value = serde_json::from_str(&std::fs::read_to_string(path).unwrap()).unwrap();
    let gc: GraphCase = serde_json::from_value(v["case"]["graph"].clone()).unwrap();
    let built = gc.build(&Profile::general());
    let bytes = built.model.encode();
    for cfg in [Config::Plain, Config::OptInferOn] {
        let model = cfg.load(&bytes).unwrap();
        println!("== {} ops {:?}", cfg.name(), op_multiset(&model));
        let ids: Vec<NodeId> = built.inputs.iter().map(|(n, _)| node_id(&model, n).unwrap()).collect();
        let outs: Vec<NodeId> = built.outputs.iter().map(|n| node_id(&model, n).unwrap()).collect();
        let ins: Vec<(NodeId, ValueOrView)> = ids.iter().zip(&built.inputs).map(|(i, (_, v))| (*i, ValueOrView::from(v.to_value()))).collect();
        let full = model.run(ins, &outs, None);
        println!("full: {:?}", full.map(|v| v.iter().map(TVal::from_value).collect::<Vec<_>>()));
        let ins: Vec<(NodeId, ValueOrView)> = ids.iter().zip(&built.inputs).map(|(i, (_, v))| (*i, ValueOrView::from(v.to_value()))).collect();
        let leaves = model.partial_run(ins, &outs, None).unwrap();
        for (id, v) in &leaves { println!("leaf {} = {:?}", model.verif_graph().node_name(*id), TVal::from_value(v)); }
        let _ : Option<Value> = None;
        println!("borrowed: {:?}", run_named(&model, &built.inputs, &built.outputs, None, None));
        println!("v3 borrowed: {:?}", run_named(&model, &built.inputs, &["v3".to_string()], None, None));
        let owned = vec![true; built.inputs.len()];
        println!("v3 owned: {:?}", run_named(&model, &built.inputs, &["v3".to_string()], Some(&owned), None));
    }
}

use rten::{NodeId, ValueOrView};
use vc_onnxgen::grammar::*;
use vc_onnxgen::*;
fn main() {
    let path = std::env::args().nth(1).unwrap();
    let v: serde_json::Value = serde_json::from_str(&std::fs::read_to_string(path).unwrap()).unwrap();
    let gc: GraphCase = serde_json::from_value(v["case"]["graph"].clone()).unwrap();
    let built = gc.build(&Profile::general());
    let bytes = built.model.encode();
    let model = Config::Plain.load(&bytes).unwrap();
    let id = |n: &str| model.find_node(n).unwrap();
    let in0 = built.inputs[0].1.to_value();
    let v3 = run_named(&model, &built.inputs, &["v3".to_string()], None, None).unwrap()[0].to_value();
    for (name, outs) in [("v4,v3", vec![id("v4"), id("v3")]), ("v4", vec![id("v4")]), ("v3", vec![id("v3")])] {
        let mk = || -> Vec<(NodeId, ValueOrView)> { vec![(id("in0"), ValueOrView::from(in0.clone())), (id("v3"), ValueOrView::from(v3.clone()))] };
        let r = vcore::catch(|| model.run(mk(), &outs, None).map(|v| v.len()).map_err(|e| e.to_string()));
        println!("run outputs [{name}] with v3 supplied: {:?}", r.map_err(|p| format!("PANIC {} at {}", p.msg, p.loc())));
        let r = vcore::catch(|| model.partial_run(mk(), &outs, None).map(|v| v.len()).map_err(|e| e.to_string()));
        println!("partial_run outputs [{name}] with v3 supplied: {:?}", r.map_err(|p| format!("PANIC {} at {}", p.msg, p.loc())));
    }
}

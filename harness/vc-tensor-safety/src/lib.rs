//! Shared code for the C06 / C08 memory-safety checks of rten-tensor.
//!
//! Everything in here is the *harness's own* arithmetic: exact (u128/i128)
//! layout maths that never wraps, an exact injectivity decision for small
//! layouts, a collision-witness search for huge layouts, and "layout recipes"
//! that derive non-overlapping layouts from a contiguous one by construction.
//! Nothing in this file calls into rten; the sub-modules `ctor`, `prog` and
//! `owned` hold the C06 sub-checks that do.

use serde::{Deserialize, Serialize};

pub mod ctor;
pub mod owned;
pub mod prog;
pub mod prog_gen;

pub mod exact {
    /// Exact element count; saturates at u128::MAX.
    pub fn elem_count(shape: &[usize]) -> u128 {
        let mut p: u128 = 1;
        for &s in shape {
            if s == 0 {
                return 0;
            }
            p = p.checked_mul(s as u128).unwrap_or(u128::MAX);
        }
        p
    }

    /// Exact offset of an index; None when it does not fit u128 (cannot
    /// happen for rank <= 6 unless the sum of six 2^128-ish products overflows).
    pub fn offset(index: &[usize], strides: &[usize]) -> Option<u128> {
        let mut o: u128 = 0;
        for (&i, &s) in index.iter().zip(strides) {
            o = o.checked_add((i as u128).checked_mul(s as u128)?)?;
        }
        Some(o)
    }

    /// What release-mode usize arithmetic computes for the same index.
    pub fn offset_wrapped(index: &[usize], strides: &[usize]) -> usize {
        let mut o: usize = 0;
        for (&i, &s) in index.iter().zip(strides) {
            o = o.wrapping_add(i.wrapping_mul(s));
        }
        o
    }

    /// Exact minimum storage length (max offset + 1, or 0 when empty).
    /// Saturates at u128::MAX.
    pub fn required_len(shape: &[usize], strides: &[usize]) -> u128 {
        if shape.iter().any(|&s| s == 0) {
            return 0;
        }
        let mut o: u128 = 0;
        for (&n, &s) in shape.iter().zip(strides) {
            let term = ((n - 1) as u128).checked_mul(s as u128).unwrap_or(u128::MAX);
            o = o.saturating_add(term);
        }
        o.saturating_add(1)
    }

    /// Row-major contiguous strides in exact arithmetic.
    pub fn contiguous_strides(shape: &[usize]) -> Vec<u128> {
        let mut st = vec![0u128; shape.len()];
        let mut p: u128 = 1;
        for i in (0..shape.len()).rev() {
            st[i] = p;
            p = p.checked_mul(shape[i] as u128).unwrap_or(u128::MAX);
        }
        st
    }

    pub fn is_contiguous(shape: &[usize], strides: &[usize]) -> bool {
        let mut p: u128 = 1;
        for (&n, &s) in shape.iter().zip(strides).rev() {
            if n == 1 {
                continue;
            }
            if s as u128 != p {
                return false;
            }
            p = p.saturating_mul(n as u128);
        }
        true
    }

    /// Sufficient condition for injectivity, in exact arithmetic: after
    /// dropping size-1 dims and sorting by stride, every stride is strictly
    /// larger than the largest offset reachable with the smaller-stride dims.
    /// (Empty layouts have no indices and are trivially injective.)
    pub fn dominance_proof(shape: &[usize], strides: &[usize]) -> bool {
        if shape.iter().any(|&s| s == 0) {
            return true;
        }
        let mut dims: Vec<(u128, u128)> = shape
            .iter()
            .zip(strides)
            .filter(|(&n, _)| n != 1)
            .map(|(&n, &s)| (s as u128, n as u128))
            .collect();
        dims.sort();
        let mut span: u128 = 0;
        for (s, n) in dims {
            if s <= span {
                return false;
            }
            span = span.saturating_add((n - 1).checked_mul(s).unwrap_or(u128::MAX));
        }
        true
    }

    /// All indices of a (small) shape in row-major order.
    pub fn indices(shape: &[usize]) -> Vec<Vec<usize>> {
        let n = elem_count(shape);
        assert!(n <= 1 << 20, "indices(): shape too large");
        let mut out = Vec::with_capacity(n as usize);
        if n == 0 {
            return out;
        }
        let mut idx = vec![0usize; shape.len()];
        loop {
            out.push(idx.clone());
            let mut d = shape.len();
            loop {
                if d == 0 {
                    return out;
                }
                d -= 1;
                idx[d] += 1;
                if idx[d] < shape[d] {
                    break;
                }
                idx[d] = 0;
            }
        }
    }

    /// Exact injectivity by enumeration. Returns the first colliding pair.
    /// Only for layouts with at most 2^20 indices.
    pub fn collision_by_enumeration(shape: &[usize], strides: &[usize]) -> Option<(Vec<usize>, Vec<usize>)> {
        let idx = indices(shape);
        let mut seen: std::collections::BTreeMap<u128, usize> = std::collections::BTreeMap::new();
        for (k, i) in idx.iter().enumerate() {
            let o = offset(i, strides).expect("small layout");
            if let Some(&prev) = seen.get(&o) {
                return Some((idx[prev].clone(), i.clone()));
            }
            seen.insert(o, k);
        }
        None
    }

    /// A pair of distinct valid indices with equal offsets.
    #[derive(Debug, Clone)]
    pub struct Collision {
        pub a: Vec<usize>,
        pub b: Vec<usize>,
        /// true: equal in exact arithmetic; false: equal only modulo 2^64
        /// (i.e. in the wrapping usize arithmetic a release build performs).
        pub exact: bool,
    }

    /// Witness search for layouts too large to enumerate. `seeds` are extra
    /// candidate indices (reduced modulo the dim sizes). Sound (any returned
    /// pair really collides), not complete.
    pub fn find_collision(shape: &[usize], strides: &[usize], seeds: &[Vec<u64>]) -> Option<Collision> {
        let r = shape.len();
        if shape.iter().any(|&s| s == 0) || r == 0 {
            return None;
        }
        if elem_count(shape) <= 4096 {
            return collision_by_enumeration(shape, strides).map(|(a, b)| Collision { a, b, exact: true });
        }
        let mut cands: Vec<Vec<usize>> = vec![vec![0; r]];
        let mut push = |c: Vec<usize>| {
            if c.iter().zip(shape).all(|(&i, &n)| i < n) && cands.len() < 400 {
                cands.push(c);
            }
        };
        for k in 0..r {
            let n = shape[k];
            let s = strides[k];
            let mut js: Vec<usize> = vec![1, 2, 3, n - 1, n / 2, n.saturating_sub(2)];
            if s != 0 {
                // smallest j > 0 with j*s == 0 mod 2^64
                let tz = s.trailing_zeros();
                if tz > 0 {
                    js.push(1usize << (64 - tz));
                    js.push((1usize << (64 - tz)).wrapping_add(1));
                }
            }
            // j with j*stride_k == stride_m (unit step of a larger dim)
            for m in 0..r {
                if m != k && s != 0 && strides[m] % s == 0 {
                    js.push(strides[m] / s);
                    js.push((strides[m] / s).wrapping_add(1));
                }
            }
            for j in js {
                let mut c = vec![0; r];
                c[k] = j;
                push(c);
            }
            // unit steps in two dims at once
            for m in (k + 1)..r {
                let mut c = vec![0; r];
                c[k] = 1;
                c[m] = 1;
                push(c);
            }
        }
        for sd in seeds {
            let c: Vec<usize> = (0..r)
                .map(|k| (sd.get(k).copied().unwrap_or(0) % shape[k] as u64) as usize)
                .collect();
            push(c);
        }
        cands.sort();
        cands.dedup();
        let mut by_wrapped: std::collections::BTreeMap<usize, usize> = std::collections::BTreeMap::new();
        for (k, c) in cands.iter().enumerate() {
            let w = offset_wrapped(c, strides);
            if let Some(&p) = by_wrapped.get(&w) {
                let exact = offset(c, strides) == offset(&cands[p], strides);
                return Some(Collision { a: cands[p].clone(), b: c.clone(), exact });
            }
            by_wrapped.insert(w, k);
        }
        None
    }
}

/// k-th permutation (Lehmer code) of 0..n.
pub fn nth_permutation(n: usize, mut k: usize) -> Vec<usize> {
    let mut items: Vec<usize> = (0..n).collect();
    let mut out = Vec::with_capacity(n);
    let mut fact: usize = (1..=n).product::<usize>().max(1);
    for i in 0..n {
        fact /= (n - i).max(1);
        let j = if fact == 0 { 0 } else { (k / fact) % (n - i) };
        k %= fact.max(1);
        out.push(items.remove(j));
    }
    out
}

pub fn factorial(n: usize) -> usize {
    (1..=n).product::<usize>().max(1)
}

/// Monotone map of a selector byte onto 0..len (shrinks towards 0).
pub fn sel(b: u8, len: usize) -> usize {
    debug_assert!(len > 0);
    (b as usize * len) >> 8
}

// ---------------------------------------------------------------------------
// Layout recipes: non-overlapping layouts derived from a contiguous one
// ---------------------------------------------------------------------------

/// Per-dimension slice of a recipe. All selectors are mapped monotonically.
#[derive(Clone, Debug, Serialize, Deserialize, PartialEq)]
pub struct DimSlice {
    pub start: u8,
    pub len: u8,
    /// step - 1
    pub step: u8,
}

/// A view derived by construction from a contiguous buffer:
/// contiguous `base` shape -> optional reshape (merge two adjacent dims or
/// split one dim) -> per-dim (start, len, step) slices -> permutation ->
/// inserted unit axes with arbitrary strides.
#[derive(Clone, Debug, Serialize, Deserialize, PartialEq)]
pub struct Recipe {
    pub base: Vec<u8>,
    /// 0 = none; odd = merge dims (k, k+1); even = split dim k by a divisor
    pub reshape: u8,
    pub slices: Vec<DimSlice>,
    pub perm: u16,
    /// (position selector, stride)
    pub unit_axes: Vec<(u8, usize)>,
}

#[derive(Clone, Debug, PartialEq)]
pub struct Derived {
    /// length of the contiguous buffer the layout lives in
    pub buf_len: usize,
    /// offset of the view's first element in that buffer
    pub offset: usize,
    pub shape: Vec<usize>,
    pub strides: Vec<usize>,
    pub labels: Vec<&'static str>,
}

impl Recipe {
    pub fn derive(&self) -> Derived {
        let mut labels = Vec::new();
        let mut shape: Vec<usize> = self.base.iter().map(|&b| b as usize).collect();
        let buf_len: usize = shape.iter().product();
        // reshape of the contiguous layout
        if self.reshape != 0 && !shape.is_empty() {
            let k = sel(self.reshape >> 1, shape.len());
            if self.reshape & 1 == 1 {
                if k + 1 < shape.len() {
                    let m = shape[k] * shape[k + 1];
                    shape[k] = m;
                    shape.remove(k + 1);
                    labels.push("reshaped-merge");
                }
            } else {
                let n = shape[k];
                if let Some(d) = (2..n).find(|d| n % d == 0) {
                    shape[k] = n / d;
                    shape.insert(k + 1, d);
                    labels.push("reshaped-split");
                }
            }
        }
        let mut strides = vec![0usize; shape.len()];
        let mut p = 1usize;
        for i in (0..shape.len()).rev() {
            strides[i] = p;
            p *= shape[i];
        }
        // slicing
        let mut offset = 0usize;
        let mut stepped = false;
        let mut sliced = false;
        for (i, sl) in self.slices.iter().enumerate() {
            if i >= shape.len() {
                break;
            }
            let n = shape[i];
            let start = sel(sl.start, n + 1);
            let avail = n - start;
            // len selector 255 => full remainder
            let len = if sl.len == 255 { avail } else { sel(sl.len, avail + 1) };
            let step = sl.step as usize + 1;
            let new_n = len.div_ceil(step);
            if start != 0 || len != n {
                sliced = true;
            }
            if step > 1 && new_n > 1 {
                stepped = true;
            }
            offset += start * strides[i];
            shape[i] = new_n;
            strides[i] *= step;
        }
        if shape.iter().any(|&n| n == 0) {
            offset = 0;
            labels.push("empty");
        }
        if sliced {
            labels.push("sliced");
        }
        if stepped {
            labels.push("stepped");
        }
        // permutation
        let r = shape.len();
        let perm = nth_permutation(r, crate::pick(self.perm, factorial(r)));
        if perm.iter().enumerate().any(|(i, &p)| i != p) {
            labels.push("permuted");
        }
        let mut shape: Vec<usize> = perm.iter().map(|&p| shape[p]).collect();
        let mut strides: Vec<usize> = perm.iter().map(|&p| strides[p]).collect();
        // unit axes
        for &(pos, stride) in &self.unit_axes {
            let at = sel(pos, shape.len() + 1);
            shape.insert(at, 1);
            strides.insert(at, stride);
            labels.push("unit-axis");
        }
        Derived { buf_len, offset, shape, strides, labels }
    }
}

/// Monotone map of a u16 selector onto 0..len.
pub fn pick(i: u16, len: usize) -> usize {
    ((i as usize) * len) >> 16
}

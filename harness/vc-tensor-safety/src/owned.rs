//! C06 (b''): programs on *owned* tensors (append / clip_dim / reshape /
//! in-place layout edits / mutable iteration), and the storage-level
//! `split_mut` probe.
//!
//! Oracle after every step, from the public API only: the layout's exact max
//! offset fits the storage, the layout is injective (the tensor is mutable),
//! element references point at `ptr + 4*offset` inside the storage, mutable
//! iterators never yield an address twice, and every value that can be read
//! out of the tensor is one that was legitimately put there (catches
//! `set_len` exposing uninitialised capacity).

use crate::prog::{Fail, ItOp, ItemSpec, R};
use crate::{exact, factorial, nth_permutation, pick, sel, Recipe};
use rten_tensor::prelude::*;
use rten_tensor::{NdTensor, NdTensorViewMut, SliceItem, Tensor};
use serde::{Deserialize, Serialize};
use std::collections::HashSet;

#[derive(Clone, Debug, Serialize, Deserialize, PartialEq)]
pub enum Init {
    WithCapacity { shape: Vec<u8>, dim: u8 },
    FromData { shape: Vec<u8>, extra_cap: u8 },
    Strided(Recipe),
}

#[derive(Clone, Debug, Serialize, Deserialize, PartialEq)]
pub enum OStep {
    Append { axis: u8, n: u8, transposed_src: bool },
    ClipDim { dim: u8, start: u8, len: u8 },
    HasCapacity { axis: u8, n: u8 },
    Permute(u16),
    Transpose,
    MoveAxis(u8, u8),
    InsertAxis(u8),
    RemoveAxis(u8),
    Reshape(u8),
    MakeContiguous,
    IterMut(Vec<ItOp>),
    GetMut(Vec<u8>),
    Fill,
    Apply,
    SliceMutFill(Vec<ItemSpec>),
    ToVec,
}

#[derive(Clone, Debug, Serialize, Deserialize, PartialEq)]
pub struct OwnedProg {
    pub init: Init,
    pub steps: Vec<OStep>,
}

const DELTA: u32 = 1 << 22;

struct St {
    allowed: HashSet<u32>,
    next_val: u32,
    src_seq: u32,
    labels: Vec<&'static str>,
    trace: Vec<String>,
    nontrivial: bool,
}

impl St {
    fn label(&mut self, l: &'static str) {
        if !self.labels.contains(&l) {
            self.labels.push(l);
        }
    }
    fn fresh(&mut self) -> u32 {
        self.next_val += 1;
        self.allowed.insert(self.next_val);
        self.next_val
    }
}

fn fail<T>(sig: String, detail: String) -> R<T> {
    Err(Fail { sig, detail })
}

struct Obs {
    addr: usize,
    slen: usize,
    shape: Vec<usize>,
    strides: Vec<usize>,
}

fn observe(t: &Tensor<u32>) -> Obs {
    let v = t.view();
    let st = v.storage();
    Obs {
        addr: rten_tensor::storage::Storage::as_ptr(&st) as usize,
        slen: rten_tensor::storage::Storage::len(&st),
        shape: t.shape().to_vec(),
        strides: t.strides().to_vec(),
    }
}

/// Invariants of an owned (mutable) tensor + readable values.
fn check(t: &Tensor<u32>, st: &mut St, op: &str) -> R<Obs> {
    let o = observe(t);
    let what = |st: &St| format!("after {op}: shape {:?} strides {:?} storage len {}; trace {:?}", o.shape, o.strides, o.slen, st.trace);
    if o.shape.len() != o.strides.len() {
        return fail(format!("owned:shape-strides-mismatch:{op}"), what(st));
    }
    let need = exact::required_len(&o.shape, &o.strides);
    if need > o.slen as u128 {
        return fail(format!("owned:layout-exceeds-storage:{op}"), format!("max offset + 1 = {need}; {}", what(st)));
    }
    if exact::elem_count(&o.shape) > 1 << 14 {
        return fail("harness:owned-too-large".into(), what(st));
    }
    if let Some((a, b)) = exact::collision_by_enumeration(&o.shape, &o.strides) {
        return fail(format!("owned:overlapping-layout:{op}"), format!("indices {a:?} and {b:?} share an offset; {}", what(st)));
    }
    // everything fits: reading is safe. Every readable value must be a known one.
    let vals = match vcore::catch(|| t.to_vec()) {
        Ok(v) => v,
        Err(p) => return fail(format!("owned:to_vec-panicked:{op}"), format!("{} at {}; {}", p.msg, p.loc(), what(st))),
    };
    if vals.len() as u128 != exact::elem_count(&o.shape) {
        return fail(format!("owned:count:{op}"), what(st));
    }
    if let Some(v) = vals.iter().find(|v| !st.allowed.contains(v)) {
        return fail(
            format!("owned:foreign-value:{op}"),
            format!("value {v:#x} was never stored in this tensor (uninitialised or out-of-view memory); {}", what(st)),
        );
    }
    Ok(o)
}

fn axis_sel(b: u8, ndim: usize) -> (usize, bool) {
    if b >= 250 || ndim == 0 {
        (ndim + (b as usize).saturating_sub(250), false)
    } else {
        (sel(b, ndim), true)
    }
}

fn dims(v: &[u8]) -> Vec<usize> {
    v.iter().map(|&b| b as usize).collect()
}

pub struct Outcome {
    pub labels: Vec<&'static str>,
    pub nontrivial: bool,
}

pub fn execute(p: &OwnedProg) -> R<Outcome> {
    let mut st = St { allowed: HashSet::new(), next_val: 1 << 27, src_seq: 0, labels: Vec::new(), trace: Vec::new(), nontrivial: false };
    let mut t: Tensor<u32> = match &p.init {
        Init::WithCapacity { shape, dim } => {
            let sh = dims(shape);
            if sh.is_empty() {
                Tensor::from_data(&[0usize], vec![])
            } else {
                let d = sel(*dim, sh.len());
                st.label("with_capacity");
                Tensor::with_capacity(&sh, d)
            }
        }
        Init::FromData { shape, extra_cap } => {
            let sh = dims(shape);
            let n: usize = sh.iter().product();
            let mut data = Vec::with_capacity(n + *extra_cap as usize);
            data.extend(0..n as u32);
            st.allowed.extend(0..n as u32);
            Tensor::from_data(&sh, data)
        }
        Init::Strided(rc) => {
            let d = rc.derive();
            let n = d.buf_len - d.offset;
            let mut data = Vec::with_capacity(n + 16);
            data.extend(0..n as u32);
            st.allowed.extend(0..n as u32);
            st.label("strided-init");
            match Tensor::from_data_with_strides(&d.shape, data, &d.strides) {
                Ok(t) => t,
                Err(e) => return fail("root-rejected".into(), format!("derived layout {:?}/{:?} refused: {e:?}", d.shape, d.strides)),
            }
        }
    };
    check(&t, &mut st, "init")?;
    for step in &p.steps {
        let o = observe(&t);
        let nd = o.shape.len();
        st.trace.push(format!("{step:?} on shape {:?} strides {:?} len {}", o.shape, o.strides, o.slen));
        let name: &'static str;
        let mut panicked: Option<String> = None;
        // Each arm runs the rten call under catch; a panic is a refusal (memory safe) and
        // the invariants are re-checked afterwards in every case.
        macro_rules! g {
            ($n:expr, $body:expr) => {{
                name = $n;
                match vcore::catch(|| $body) {
                    Ok(r) => Some(r),
                    Err(p) => {
                        st.label("op-panicked");
                        panicked = Some(p.msg.clone());
                        None
                    }
                }
            }};
        }
        match step {
            OStep::Append { axis, n, transposed_src } => {
                let (ax, ok) = axis_sel(*axis, nd);
                let mut sh = o.shape.clone();
                if ok {
                    sh[ax] = (*n % 4) as usize;
                }
                let count: usize = sh.iter().product();
                st.src_seq += 1;
                let lo = (1u32 << 20) + st.src_seq * 4096;
                st.allowed.extend(lo..lo + count as u32);
                let src = if *transposed_src && nd >= 1 {
                    let rev: Vec<usize> = sh.iter().rev().copied().collect();
                    let mut s = Tensor::<u32>::from_data(&rev, (lo..lo + count as u32).collect::<Vec<u32>>());
                    s.transpose();
                    s
                } else {
                    Tensor::<u32>::from_data(&sh, (lo..lo + count as u32).collect::<Vec<u32>>())
                };
                let before = o.slen;
                if let Some(r) = g!("append", t.append(ax, &src)) {
                    match r {
                        Ok(()) => {
                            st.label("append-ok");
                            let after = observe(&t);
                            if count > 0 {
                                st.nontrivial = true;
                            }
                            if after.slen > before {
                                st.label("append-grew-storage");
                            }
                        }
                        Err(_) => st.label("append-refused"),
                    }
                }
            }
            OStep::ClipDim { dim, start, len } => {
                let (d, ok) = axis_sel(*dim, nd);
                let n = if ok { o.shape[d] } else { 0 };
                let s = sel(*start, n + 1);
                let e = s + sel(*len, n - s + 1);
                g!("clip_dim", t.clip_dim(d, s..e));
                st.label("clip_dim");
            }
            OStep::HasCapacity { axis, n } => {
                let (ax, ok) = axis_sel(*axis, nd);
                if let Some(true) = g!("has_capacity", t.has_capacity(ax, *n as usize)) {
                    if ok {
                        let mut sh = o.shape.clone();
                        sh[ax] = *n as usize;
                        if exact::elem_count(&sh) <= 1 << 14 {
                            if let Some((a, b)) = exact::collision_by_enumeration(&sh, &o.strides) {
                                return fail(
                                    "owned:has_capacity-admits-overlap".into(),
                                    format!("has_capacity({ax}, {n}) is true but shape {sh:?} strides {:?} maps {a:?} and {b:?} to one offset; trace {:?}", o.strides, st.trace),
                                );
                            }
                        }
                    }
                }
            }
            OStep::Permute(k) => {
                let perm = nth_permutation(nd, pick(*k, factorial(nd)));
                g!("permute", t.permute(&perm));
            }
            OStep::Transpose => {
                g!("transpose", t.transpose());
            }
            OStep::MoveAxis(a, b) => {
                let (a, _) = axis_sel(*a, nd);
                let (b, _) = axis_sel(*b, nd);
                g!("move_axis", t.move_axis(a, b));
            }
            OStep::InsertAxis(a) => {
                if nd < 6 {
                    // positions > ndim are invalid and must be refused without damage
                    let at = if *a >= 250 { nd + 1 + (*a as usize - 250) } else { sel(*a, nd + 1) };
                    g!("insert_axis", t.insert_axis(at));
                } else {
                    name = "insert_axis";
                }
            }
            OStep::RemoveAxis(a) => {
                let (ax, _) = axis_sel(*a, nd);
                g!("remove_axis", t.remove_axis(ax));
            }
            OStep::Reshape(k) => {
                let count: usize = o.shape.iter().product();
                let new_shape: Vec<usize> = match k % 4 {
                    0 => vec![count],
                    1 => vec![1, count],
                    2 => match (2..=count).find(|d| count % d == 0) {
                        Some(d) => vec![d, count / d],
                        None => vec![count, 1],
                    },
                    _ => vec![count + 1],
                };
                g!("reshape", t.reshape(&new_shape));
                st.label("reshape");
            }
            OStep::MakeContiguous => {
                g!("make_contiguous", t.make_contiguous());
            }
            OStep::IterMut(ops) => {
                name = "iter_mut";
                let mut seen: HashSet<usize> = HashSet::new();
                let (lo, hi) = (o.addr, o.addr + 4 * o.slen);
                let path = if exact::is_contiguous(&o.shape, &o.strides) { "contiguous" } else { "indexing" };
                let mut front = false;
                let mut back = false;
                let mut vals: Vec<u32> = Vec::new();
                let nv = &mut st.next_val;
                let r = vcore::catch(|| -> R<()> {
                    let mut it = t.iter_mut();
                    let mut take = |r: &mut u32, front: bool, back: bool| -> R<()> {
                        let a = r as *mut u32 as usize;
                        if a < lo || a >= hi || (a - lo) % 4 != 0 {
                            return fail("owned:oob-reference:iter_mut".into(), format!("address {a:#x} outside storage [{lo:#x}, {hi:#x})"));
                        }
                        if !seen.insert(a) {
                            let class = if front && back { "mixed" } else if back { "back" } else { "front" };
                            return fail(format!("alias:iter_mut:{path}:{class}"), format!("owned tensor iter_mut yielded storage offset {} twice", (a - lo) / 4));
                        }
                        *nv += 1;
                        *r = *nv; // verified: inside the storage, not handed out before
                        vals.push(*nv);
                        Ok(())
                    };
                    for op in ops {
                        match op {
                            ItOp::Next | ItOp::Nth(_) | ItOp::Rest | ItOp::Split { .. } => front = true,
                            _ => back = true,
                        }
                        let item = match op {
                            ItOp::Next => it.next(),
                            ItOp::NextBack => it.next_back(),
                            ItOp::Nth(k) => it.nth((*k % 8) as usize),
                            // (splitting is exercised by the view programs; here it is a plain drain)
                            ItOp::Rest | ItOp::Split { .. } => {
                                let mut e = Ok(());
                                for r in it.by_ref() {
                                    if e.is_ok() {
                                        e = take(r, front, back);
                                    }
                                }
                                e?;
                                None
                            }
                            ItOp::RevRest => {
                                let mut e = Ok(());
                                for r in it.by_ref().rev() {
                                    if e.is_ok() {
                                        e = take(r, front, back);
                                    }
                                }
                                e?;
                                None
                            }
                        };
                        if let Some(r) = item {
                            take(r, front, back)?;
                        }
                    }
                    Ok(())
                });
                st.allowed.extend(vals);
                match r {
                    Ok(r) => r.map_err(|mut f| {
                        f.detail = format!("{}; trace {:?}", f.detail, st.trace);
                        f
                    })?,
                    Err(_) => st.label("op-panicked"),
                }
                if front && back && path == "indexing" {
                    st.nontrivial = true;
                }
            }
            OStep::GetMut(spec) => {
                name = "get_mut";
                let idx: Vec<usize> = o.shape.iter().enumerate().map(|(k, &n)| {
                    let b = spec.get(k).copied().unwrap_or(0);
                    if b >= 250 || n == 0 { n + (b as usize).saturating_sub(250) } else { sel(b, n) }
                }).collect();
                let valid = idx.iter().zip(&o.shape).all(|(&i, &n)| i < n);
                if let Ok(Some(a)) = vcore::catch(|| t.get_mut(idx.as_slice()).map(|r| r as *mut u32 as usize)) {
                    if !valid {
                        return fail("owned:get_mut-accepts-invalid-index".into(), format!("index {idx:?} shape {:?}; trace {:?}", o.shape, st.trace));
                    }
                    let want = o.addr + 4 * exact::offset(&idx, &o.strides).unwrap() as usize;
                    if a != want {
                        return fail("owned:wrong-address:get_mut".into(), format!("index {idx:?}: got {a:#x}, want {want:#x}; trace {:?}", st.trace));
                    }
                }
            }
            OStep::Fill => {
                let v = st.fresh();
                g!("fill", t.fill(v));
            }
            OStep::Apply => {
                let more: Vec<u32> = st.allowed.iter().map(|v| v.wrapping_add(DELTA)).collect();
                st.allowed.extend(more);
                g!("apply", t.apply(|x| x.wrapping_add(DELTA)));
            }
            OStep::SliceMutFill(specs) => {
                let mut items = Vec::new();
                for (k, sp) in specs.iter().take(nd).enumerate() {
                    let n = o.shape[k];
                    items.push(match sp {
                        ItemSpec::Full | ItemSpec::NegStep => SliceItem::full_range(),
                        ItemSpec::Index { i, .. } => SliceItem::Index(if n == 0 { 0 } else { sel(*i, n) as isize }),
                        ItemSpec::Range { start, len, step, .. } => {
                            let s = sel(*start, n + 1);
                            let e = s + sel(*len, n - s + 1);
                            SliceItem::range(s as isize, Some(e as isize), (*step % 4) as isize + 1)
                        }
                    });
                }
                let v = st.fresh();
                g!("slice_mut", {
                    if let Ok(mut s) = t.try_slice_mut(items.as_slice()) {
                        s.fill(v);
                    }
                });
            }
            OStep::ToVec => {
                name = "to_vec";
            }
        }
        if let Some(msg) = panicked {
            // a refused (panicking) call must leave the tensor as it was
            let a = observe(&t);
            if a.shape != o.shape || a.strides != o.strides || a.slen != o.slen {
                let need = exact::required_len(&a.shape, &a.strides);
                return fail(
                    format!("layout-changed-by-panicking-call:{name}"),
                    format!(
                        "{name} panicked ({msg}) but left the tensor modified: shape {:?} strides {:?} storage len {} -> shape {:?} strides {:?} storage len {} (max offset + 1 = {need}); trace {:?}",
                        o.shape, o.strides, o.slen, a.shape, a.strides, a.slen, st.trace
                    ),
                );
            }
        }
        check(&t, &mut st, name)?;
    }
    Ok(Outcome { labels: st.labels, nontrivial: st.nontrivial })
}

// ---------------------------------------------------------------------------
// storage-level split
// ---------------------------------------------------------------------------

#[derive(Clone, Debug, Serialize, Deserialize, PartialEq)]
pub struct SplitCase {
    pub n: usize,
    pub left: (usize, usize),
    pub right: (usize, usize),
}

pub fn split_cases(max_n: usize) -> Vec<SplitCase> {
    let mut v = Vec::new();
    for n in 0..=max_n {
        for a in 0..=n + 1 {
            for b in 0..=n + 1 {
                for c in 0..=n + 1 {
                    for d in 0..=n + 1 {
                        v.push(SplitCase { n, left: (a, b), right: (c, d) });
                    }
                }
            }
        }
    }
    v
}

// Compile-time probe: is `ViewMutData::split_mut` (still) a *safe* fn? Safe fn
// items implement `Fn`, unsafe ones do not; method resolution prefers the
// by-reference impl when the bound holds (autoref specialisation). When the
// function is unsafe it is not part of the safe API and the probe is vacuous.
use rten_tensor::storage::ViewMutData;
use std::ops::Range;
type Halves<'a> = (ViewMutData<'a, u32>, ViewMutData<'a, u32>);
struct SplitFn<F>(F);
#[allow(dead_code)]
trait ViaSafe<'a> {
    fn split(&self, s: ViewMutData<'a, u32>, l: Range<usize>, r: Range<usize>) -> Option<Halves<'a>>;
}
impl<'a, F: Fn(ViewMutData<'a, u32>, Range<usize>, Range<usize>) -> Halves<'a>> ViaSafe<'a> for SplitFn<F> {
    fn split(&self, s: ViewMutData<'a, u32>, l: Range<usize>, r: Range<usize>) -> Option<Halves<'a>> {
        Some((self.0)(s, l, r))
    }
}
#[allow(dead_code)]
trait ViaUnsafe<'a> {
    fn split(&self, s: ViewMutData<'a, u32>, l: Range<usize>, r: Range<usize>) -> Option<Halves<'a>>;
}
impl<'a, F> ViaUnsafe<'a> for &SplitFn<F> {
    fn split(&self, _s: ViewMutData<'a, u32>, _l: Range<usize>, _r: Range<usize>) -> Option<Halves<'a>> {
        None
    }
}

/// `tensor.storage_mut().split_mut(l, r)` followed by the safe
/// `from_storage_and_layout`: two mutable views that are alive at the same time
/// must not share an element.
pub fn split_oracle(c: &SplitCase) -> vcore::Verdict {
    use rten_tensor::layout::{MutLayout, NdLayout, OverlapPolicy};
    let mut t = NdTensor::<u32, 1>::from_data([c.n], (0..c.n as u32).collect::<Vec<u32>>());
    let base = t.data_ptr() as usize;
    let (l, r) = (c.left, c.right);
    let res = vcore::catch(|| {
        let sm = t.storage_mut();
        let Some((ls, rs)) = (&SplitFn(ViewMutData::<u32>::split_mut)).split(sm, l.0..l.1, r.0..r.1) else {
            return None;
        };
        let (ll, rl) = (rten_tensor::storage::Storage::len(&ls), rten_tensor::storage::Storage::len(&rs));
        let mk = |n: usize| NdLayout::<1>::from_shape_and_strides([n], [1], OverlapPolicy::DisallowOverlap).unwrap();
        let mut a = NdTensorViewMut::from_storage_and_layout(ls, mk(ll));
        let mut b = NdTensorViewMut::from_storage_and_layout(rs, mk(rl));
        // both views are alive here
        let pa: Vec<usize> = a.iter_mut().map(|r| (r as *mut u32 as usize - base) / 4).collect();
        let pb: Vec<usize> = b.iter_mut().map(|r| (r as *mut u32 as usize - base) / 4).collect();
        Some((pa, pb))
    });
    match res {
        Err(_) => vcore::Verdict::pass_l(false, vec!["split-refused"]),
        Ok(None) => vcore::Verdict::pass_l(false, vec!["split_mut-is-an-unsafe-fn(not-safe-API)"]),
        Ok(Some((pa, pb))) => {
            if pa.iter().chain(&pb).any(|&p| p >= c.n) {
                return vcore::Verdict::fail("oob:storage-split_mut", format!("{c:?}: positions {pa:?} / {pb:?} outside storage of {} elements", c.n));
            }
            if let Some(p) = pa.iter().find(|p| pb.contains(p)) {
                return vcore::Verdict::fail(
                    "alias:storage-split_mut",
                    format!("storage_mut().split_mut({}..{}, {}..{}) on {} elements + from_storage_and_layout: two live mutable views both contain element {p}", l.0, l.1, r.0, r.1, c.n),
                );
            }
            vcore::Verdict::pass_l(!pa.is_empty() && !pb.is_empty(), vec!["split-disjoint"])
        }
    }
}

//! C06 (a): constructors. Accepted => the true (u128) element count and max
//! offset fit the storage, and mutable storage never gets an aliasing layout.
//! Huge tensors are never indexed: only arithmetic is checked.

use crate::exact;
use proptest::prelude::*;
use rten_tensor::layout::{DynLayout, MutLayout, OverlapPolicy};
use rten_tensor::prelude::*;
use rten_tensor::storage::{CowData, IntoStorage, Storage};
use rten_tensor::{ArcTensor, CowTensor, NdLayout, NdTensor, NdTensorView, NdTensorViewMut, Tensor, TensorView, TensorViewMut};
use serde::{Deserialize, Serialize};
use std::sync::Arc;
use vcore::Verdict;

#[derive(Clone, Copy, Debug, Serialize, Deserialize, PartialEq)]
pub enum Ctor {
    FromData,
    TryFromData,
    FromDataWithStrides,
    FromSliceWithStrides,
    FromStorageAndLayout,
}

#[derive(Clone, Copy, Debug, Serialize, Deserialize, PartialEq)]
pub enum Store {
    Vec,
    Slice,
    SliceMut,
    CowOwned,
    CowBorrowed,
    Arc,
}

#[derive(Clone, Copy, Debug, Serialize, Deserialize, PartialEq)]
pub enum LenSel {
    /// exact requirement + delta
    Exact(i8),
    /// what wrapping usize arithmetic computes for max offset + 1, + delta
    WrappedNeed(i8),
    /// wrapping product of the shape + delta
    WrappedCount(i8),
    Small(u8),
}

#[derive(Clone, Debug, Serialize, Deserialize)]
pub struct CtorCase {
    pub ctor: Ctor,
    pub store: Store,
    /// static-rank (NdLayout) instead of DynLayout
    pub nd: bool,
    pub shape: Vec<usize>,
    /// used by the *WithStrides / FromStorageAndLayout constructors
    pub strides: Vec<usize>,
    pub len: LenSel,
}

const CAP: usize = 1 << 14;

fn dim() -> impl Strategy<Value = usize> {
    prop_oneof![
        6 => prop_oneof![Just(0usize), Just(1), Just(2), Just(3)],
        3 => prop_oneof![Just(1usize << 16), Just(1 << 31), Just(1 << 32), Just(1 << 63), Just(usize::MAX)],
        1 => prop_oneof![Just((1usize << 32) + 1), Just((1 << 63) + 1), Just(usize::MAX / 2), Just(usize::MAX - 1), Just(1 << 62), Just(1 << 21), Just(1 << 22), Just(1 << 43)],
        1 => 4usize..12,
    ]
}

/// The (constructor, storage, static-rank) combinations that exist in the API.
const COMBOS: &[(Ctor, Store, bool)] = &[
    (Ctor::FromData, Store::Vec, false),
    (Ctor::FromData, Store::Slice, false),
    (Ctor::FromData, Store::SliceMut, false),
    (Ctor::FromData, Store::Vec, true),
    (Ctor::TryFromData, Store::Vec, false),
    (Ctor::TryFromData, Store::Slice, false),
    (Ctor::TryFromData, Store::SliceMut, false),
    (Ctor::TryFromData, Store::CowOwned, false),
    (Ctor::TryFromData, Store::CowBorrowed, false),
    (Ctor::TryFromData, Store::Arc, false),
    (Ctor::TryFromData, Store::Vec, true),
    (Ctor::TryFromData, Store::Slice, true),
    (Ctor::TryFromData, Store::SliceMut, true),
    (Ctor::FromDataWithStrides, Store::Vec, false),
    (Ctor::FromDataWithStrides, Store::Slice, false),
    (Ctor::FromDataWithStrides, Store::SliceMut, false),
    (Ctor::FromDataWithStrides, Store::Arc, false),
    (Ctor::FromDataWithStrides, Store::CowOwned, false),
    (Ctor::FromDataWithStrides, Store::Vec, true),
    (Ctor::FromDataWithStrides, Store::SliceMut, true),
    (Ctor::FromSliceWithStrides, Store::Slice, false),
    (Ctor::FromSliceWithStrides, Store::Slice, true),
    (Ctor::FromStorageAndLayout, Store::Vec, false),
    (Ctor::FromStorageAndLayout, Store::Slice, false),
    (Ctor::FromStorageAndLayout, Store::SliceMut, false),
    (Ctor::FromStorageAndLayout, Store::Arc, false),
    (Ctor::FromStorageAndLayout, Store::CowBorrowed, false),
    (Ctor::FromStorageAndLayout, Store::CowOwned, false),
    (Ctor::FromStorageAndLayout, Store::SliceMut, true),
    (Ctor::FromStorageAndLayout, Store::Vec, true),
];

pub fn strategy() -> impl Strategy<Value = CtorCase> {
    (0usize..=4).prop_flat_map(|r| {
        (
            0..COMBOS.len(),
            proptest::collection::vec(dim(), r),
            proptest::collection::vec(dim(), r),
            prop_oneof![
                3 => (-2i8..=2).prop_map(LenSel::Exact),
                3 => (-2i8..=2).prop_map(LenSel::WrappedNeed),
                2 => (-2i8..=2).prop_map(LenSel::WrappedCount),
                1 => (0u8..9).prop_map(LenSel::Small),
            ],
        )
            .prop_map(|(combo, shape, strides, len)| {
                let (ctor, store, nd) = COMBOS[combo];
                CtorCase { ctor, store, nd, shape, strides, len }
            })
    })
}

fn wrapped_need(shape: &[usize], strides: &[usize]) -> usize {
    if shape.iter().any(|&n| n == 0) {
        return 0;
    }
    let mut o = 0usize;
    for (&n, &s) in shape.iter().zip(strides) {
        o = o.wrapping_add((n - 1).wrapping_mul(s));
    }
    o.wrapping_add(1)
}

fn wrapped_contiguous_strides(shape: &[usize]) -> Vec<usize> {
    let mut st = vec![0usize; shape.len()];
    let mut p = 1usize;
    for i in (0..shape.len()).rev() {
        st[i] = p;
        p = p.wrapping_mul(shape[i]);
    }
    st
}

fn uses_strides(c: Ctor) -> bool {
    !matches!(c, Ctor::FromData | Ctor::TryFromData)
}

/// Storage length actually offered (always <= CAP so nothing big is allocated).
pub fn storage_len(c: &CtorCase) -> usize {
    let add = |base: u128, d: i8| -> Option<usize> {
        let v = base as i128 + d as i128;
        (v >= 0 && v <= CAP as i128).then_some(v as usize)
    };
    let strides_w = if uses_strides(c.ctor) { c.strides.clone() } else { wrapped_contiguous_strides(&c.shape) };
    let r = match c.len {
        LenSel::Exact(d) => {
            let need = if uses_strides(c.ctor) { exact::required_len(&c.shape, &c.strides) } else { exact::elem_count(&c.shape) };
            if need <= CAP as u128 { add(need, d) } else { None }
        }
        LenSel::WrappedNeed(d) => add(wrapped_need(&c.shape, &strides_w) as u128, d),
        LenSel::WrappedCount(d) => add(c.shape.iter().fold(1usize, |a, &b| a.wrapping_mul(b)) as u128, d),
        LenSel::Small(n) => Some(n as usize),
    };
    r.unwrap_or(match c.len {
        LenSel::Exact(d) | LenSel::WrappedNeed(d) | LenSel::WrappedCount(d) => (d + 2) as usize,
        LenSel::Small(n) => n as usize,
    })
}

/// What came out of the constructor.
pub struct Made {
    pub shape: Vec<usize>,
    pub strides: Vec<usize>,
    pub storage_len: usize,
    pub storage_mutable: bool,
    /// addresses yielded by iter_mut() of the (possibly converted) owned/mutable result, for small tensors
    pub mut_addrs: Option<Vec<usize>>,
    pub storage_addr: usize,
}

pub enum Outcome {
    Accepted(Made),
    Rejected,
    Panicked(vcore::PanicInfo),
    /// combination that does not exist in the API (e.g. from_slice_with_strides with a Vec)
    NotApplicable,
}

fn small_enough(shape: &[usize], strides: &[usize], slen: usize) -> bool {
    exact::elem_count(shape) <= 4096 && exact::required_len(shape, strides) <= slen as u128
}

fn made<S: Storage<Elem = u8>, L: Layout + Clone>(t: &rten_tensor::TensorBase<S, L>) -> Made {
    use rten_tensor::SizeArray;
    let v = t.view();
    let st = v.storage();
    Made {
        shape: t.shape().iter().collect(),
        strides: t.strides().iter().collect(),
        storage_len: st.len(),
        storage_mutable: S::MUTABLE,
        mut_addrs: None,
        storage_addr: st.as_ptr() as usize,
    }
}

macro_rules! with_rank {
    ($rank:expr, $n:ident, $body:block, $else:block) => {
        match $rank {
            0 => { const $n: usize = 0; $body }
            1 => { const $n: usize = 1; $body }
            2 => { const $n: usize = 2; $body }
            3 => { const $n: usize = 3; $body }
            4 => { const $n: usize = 4; $body }
            _ => $else,
        }
    };
}

/// Addresses yielded by iter_mut on a mutable tensor, only when it is safe to
/// run the iterator at all (everything verified to fit the storage).
fn probe_mut<S: rten_tensor::storage::StorageMut<Elem = u8>, L: Layout + Clone>(t: &mut rten_tensor::TensorBase<S, L>, m: &mut Made) {
    if small_enough(&m.shape, &m.strides, m.storage_len) {
        m.mut_addrs = Some(t.iter_mut().map(|r| r as *mut u8 as usize).collect());
    }
}

fn run_ctor(c: &CtorCase) -> Outcome {
    let len = storage_len(c);
    let shape = c.shape.clone();
    let strides = c.strides.clone();
    let rank = shape.len();
    let mut backing = vec![0u8; len];
    let r = vcore::catch(move || -> Outcome {
        macro_rules! finish {
            ($res:expr) => {
                match $res {
                    Ok(t) => Outcome::Accepted(made(&t)),
                    Err(_) => Outcome::Rejected,
                }
            };
        }
        macro_rules! finish_mut {
            ($res:expr) => {
                match $res {
                    Ok(mut t) => {
                        let mut m = made(&t);
                        probe_mut(&mut t, &mut m);
                        Outcome::Accepted(m)
                    }
                    Err(_) => Outcome::Rejected,
                }
            };
        }
        type E = rten_tensor::errors::FromDataError;
        match (c.ctor, c.store, c.nd) {
            // ---- from_data / try_from_data ----
            (Ctor::FromData, Store::Vec, false) => finish_mut!(Ok::<_, E>(Tensor::<u8>::from_data(&shape, backing))),
            (Ctor::TryFromData, Store::Vec, false) => finish_mut!(Tensor::<u8>::try_from_data(&shape, backing)),
            (Ctor::FromData, Store::Slice, false) => finish!(Ok::<_, E>(TensorView::<u8>::from_data(&shape, backing.as_slice()))),
            (Ctor::TryFromData, Store::Slice, false) => finish!(TensorView::<u8>::try_from_data(&shape, backing.as_slice())),
            (Ctor::FromData, Store::SliceMut, false) => finish_mut!(Ok::<_, E>(TensorViewMut::<u8>::from_data(&shape, backing.as_mut_slice()))),
            (Ctor::TryFromData, Store::SliceMut, false) => finish_mut!(TensorViewMut::<u8>::try_from_data(&shape, backing.as_mut_slice())),
            (Ctor::TryFromData, Store::CowOwned, false) => finish!(CowTensor::<u8>::try_from_data(&shape, CowData::Owned(backing))),
            (Ctor::TryFromData, Store::CowBorrowed, false) => finish!(CowTensor::<u8>::try_from_data(&shape, CowData::Borrowed(backing.as_slice().into_storage()))),
            (Ctor::TryFromData, Store::Arc, false) => finish!(ArcTensor::<u8>::try_from_data(&shape, Arc::new(backing))),
            (Ctor::FromData, Store::Vec, true) => with_rank!(rank, N, {
                let sh: [usize; N] = shape.as_slice().try_into().unwrap();
                finish_mut!(Ok::<_, E>(NdTensor::<u8, N>::from_data(sh, backing)))
            }, { Outcome::NotApplicable }),
            (Ctor::TryFromData, Store::Vec, true) => with_rank!(rank, N, {
                let sh: [usize; N] = shape.as_slice().try_into().unwrap();
                finish_mut!(NdTensor::<u8, N>::try_from_data(sh, backing))
            }, { Outcome::NotApplicable }),
            (Ctor::TryFromData, Store::Slice, true) => with_rank!(rank, N, {
                let sh: [usize; N] = shape.as_slice().try_into().unwrap();
                finish!(NdTensorView::<u8, N>::try_from_data(sh, backing.as_slice()))
            }, { Outcome::NotApplicable }),
            (Ctor::TryFromData, Store::SliceMut, true) => with_rank!(rank, N, {
                let sh: [usize; N] = shape.as_slice().try_into().unwrap();
                finish_mut!(NdTensorViewMut::<u8, N>::try_from_data(sh, backing.as_mut_slice()))
            }, { Outcome::NotApplicable }),
            // ---- from_data_with_strides ----
            (Ctor::FromDataWithStrides, Store::Vec, false) => finish_mut!(Tensor::<u8>::from_data_with_strides(&shape, backing, &strides)),
            (Ctor::FromDataWithStrides, Store::Slice, false) => finish!(TensorView::<u8>::from_data_with_strides(&shape, backing.as_slice(), &strides)),
            (Ctor::FromDataWithStrides, Store::SliceMut, false) => finish_mut!(TensorViewMut::<u8>::from_data_with_strides(&shape, backing.as_mut_slice(), &strides)),
            (Ctor::FromDataWithStrides, Store::Arc, false) => finish!(ArcTensor::<u8>::from_data_with_strides(&shape, Arc::new(backing), &strides)),
            (Ctor::FromDataWithStrides, Store::CowOwned, false) => match CowTensor::<u8>::from_data_with_strides(&shape, CowData::Owned(backing), &strides) {
                Ok(t) => {
                    let mut m = made(&t);
                    // into_owned may have to copy: only for tensors with few elements
                    if exact::elem_count(&m.shape) <= 4096 {
                        let mut owned = t.into_owned();
                        m.storage_mutable = true;
                        probe_mut(&mut owned, &mut m);
                    }
                    Outcome::Accepted(m)
                }
                Err(_) => Outcome::Rejected,
            },
            (Ctor::FromDataWithStrides, Store::Vec, true) => with_rank!(rank, N, {
                let sh: [usize; N] = shape.as_slice().try_into().unwrap();
                let st: [usize; N] = strides.as_slice().try_into().unwrap();
                finish_mut!(NdTensor::<u8, N>::from_data_with_strides(sh, backing, st))
            }, { Outcome::NotApplicable }),
            (Ctor::FromDataWithStrides, Store::SliceMut, true) => with_rank!(rank, N, {
                let sh: [usize; N] = shape.as_slice().try_into().unwrap();
                let st: [usize; N] = strides.as_slice().try_into().unwrap();
                finish_mut!(NdTensorViewMut::<u8, N>::from_data_with_strides(sh, backing.as_mut_slice(), st))
            }, { Outcome::NotApplicable }),
            // ---- from_slice_with_strides (immutable views only) ----
            (Ctor::FromSliceWithStrides, Store::Slice, false) => finish!(TensorView::<u8>::from_slice_with_strides(&shape, backing.as_slice(), &strides)),
            (Ctor::FromSliceWithStrides, Store::Slice, true) => with_rank!(rank, N, {
                let sh: [usize; N] = shape.as_slice().try_into().unwrap();
                let st: [usize; N] = strides.as_slice().try_into().unwrap();
                finish!(NdTensorView::<u8, N>::from_slice_with_strides(sh, backing.as_slice(), st))
            }, { Outcome::NotApplicable }),
            // ---- from_storage_and_layout (panics instead of Err) ----
            (Ctor::FromStorageAndLayout, store, nd) => {
                let dynl = DynLayout::from_shape_and_strides(&shape, &strides, OverlapPolicy::AllowOverlap).unwrap();
                match (store, nd) {
                    (Store::Vec, false) => finish_mut!(Ok::<_, E>(Tensor::<u8>::from_storage_and_layout(backing, dynl))),
                    (Store::Slice, false) => finish!(Ok::<_, E>(TensorView::<u8>::from_storage_and_layout(backing.as_slice().into_storage(), dynl))),
                    (Store::SliceMut, false) => finish_mut!(Ok::<_, E>(TensorViewMut::<u8>::from_storage_and_layout(backing.as_mut_slice().into_storage(), dynl))),
                    (Store::Arc, false) => finish!(Ok::<_, E>(ArcTensor::<u8>::from_storage_and_layout(Arc::new(backing), dynl))),
                    (Store::CowBorrowed, false) => {
                        let t = CowTensor::<u8>::from_storage_and_layout(CowData::Borrowed(backing.as_slice().into_storage()), dynl);
                        let mut m = made(&t);
                        // into_owned copies: the result is a fresh contiguous tensor
                        if small_enough(&m.shape, &m.strides, m.storage_len) {
                            let mut owned = t.into_owned();
                            let mut m2 = made(&owned);
                            m2.storage_mutable = true;
                            probe_mut(&mut owned, &mut m2);
                            m = m2;
                        }
                        Outcome::Accepted(m)
                    }
                    (Store::CowOwned, false) => {
                        let t = CowTensor::<u8>::from_storage_and_layout(CowData::Owned(backing), dynl);
                        let mut m = made(&t);
                        // into_owned hands the Vec over (or copies): the result is a mutable
                        // tensor. Only for tensors with few elements (a copy allocates them all).
                        if exact::elem_count(&m.shape) <= 4096 {
                            let mut owned = t.into_owned();
                            let mut m2 = made(&owned);
                            m2.storage_mutable = true;
                            probe_mut(&mut owned, &mut m2);
                            m = m2;
                        }
                        Outcome::Accepted(m)
                    }
                    (Store::SliceMut, true) => with_rank!(rank, N, {
                        let sh: [usize; N] = shape.as_slice().try_into().unwrap();
                        let st: [usize; N] = strides.as_slice().try_into().unwrap();
                        let l = NdLayout::<N>::from_shape_and_strides(sh, st, OverlapPolicy::AllowOverlap).unwrap();
                        finish_mut!(Ok::<_, E>(NdTensorViewMut::<u8, N>::from_storage_and_layout(backing.as_mut_slice().into_storage(), l)))
                    }, { Outcome::NotApplicable }),
                    (Store::Vec, true) => with_rank!(rank, N, {
                        let sh: [usize; N] = shape.as_slice().try_into().unwrap();
                        let st: [usize; N] = strides.as_slice().try_into().unwrap();
                        let l = NdLayout::<N>::from_shape_and_strides(sh, st, OverlapPolicy::AllowOverlap).unwrap();
                        finish_mut!(Ok::<_, E>(NdTensor::<u8, N>::from_storage_and_layout(backing, l)))
                    }, { Outcome::NotApplicable }),
                    _ => Outcome::NotApplicable,
                }
            }
            _ => Outcome::NotApplicable,
        }
    });
    match r {
        Ok(o) => o,
        Err(p) => Outcome::Panicked(p),
    }
}

fn ctor_name(c: &CtorCase) -> String {
    let n = match c.ctor {
        Ctor::FromData => "from_data",
        Ctor::TryFromData => "try_from_data",
        Ctor::FromDataWithStrides => "from_data_with_strides",
        Ctor::FromSliceWithStrides => "from_slice_with_strides",
        Ctor::FromStorageAndLayout => "from_storage_and_layout",
    };
    n.to_string()
}

pub fn oracle(c: &CtorCase) -> Verdict {
    let slen = storage_len(c);
    let count = exact::elem_count(&c.shape);
    let overflowing = count > usize::MAX as u128
        || (uses_strides(c.ctor) && exact::required_len(&c.shape, &c.strides) > usize::MAX as u128);
    let mut labels: Vec<&'static str> = Vec::new();
    if overflowing {
        labels.push("overflowing-shape-or-span");
    }
    let name = ctor_name(c);
    match run_ctor(c) {
        Outcome::NotApplicable => Verdict::Discard,
        Outcome::Rejected => {
            labels.push("rejected");
            Verdict::pass_l(overflowing, labels)
        }
        Outcome::Panicked(p) => {
            // documented for from_data (length mismatch) and from_storage_and_layout;
            // in the checked flavour also the overflow panics
            labels.push(if p.msg.contains("overflow") { "rejected-by-overflow-panic" } else { "rejected-by-panic" });
            Verdict::pass_l(overflowing, labels)
        }
        Outcome::Accepted(m) => {
            labels.push("accepted");
            // the layout the tensor really has
            let need = exact::required_len(&m.shape, &m.strides);
            let real_count = exact::elem_count(&m.shape);
            let what = format!(
                "{name}({:?} storage, nd={}) shape {:?} strides {:?} storage len {} -> accepted with shape {:?} strides {:?} storage len {}",
                c.store, c.nd, c.shape, if uses_strides(c.ctor) { Some(&c.strides) } else { None }, slen, m.shape, m.strides, m.storage_len
            );
            if m.shape != c.shape {
                return Verdict::fail(format!("ctor-shape-changed:{name}"), what);
            }
            if need > m.storage_len as u128 {
                let reason = if need > usize::MAX as u128 || real_count > usize::MAX as u128 {
                    "unrepresentable"
                } else {
                    "storage-too-short"
                };
                return Verdict::fail(
                    format!("ctor-accepts:{reason}:{name}"),
                    format!("{what}; exact max offset + 1 = {need} (element count {real_count}) exceeds the storage length"),
                );
            }
            if !uses_strides(c.ctor) && real_count != m.storage_len as u128 {
                return Verdict::fail(
                    format!("ctor-accepts:length-mismatch:{name}"),
                    format!("{what}; exact element count {real_count} != storage length"),
                );
            }
            if m.storage_mutable || c.ctor == Ctor::FromDataWithStrides {
                if let Some(col) = exact::find_collision(&m.shape, &m.strides, &[]) {
                    let via = if matches!(c.store, Store::CowOwned) { "cow-into_owned" } else { "mutable-storage" };
                    return Verdict::fail(
                        format!("ctor-accepts:overlap:{via}:{name}"),
                        format!("{what}; the storage is (or became, via into_owned) mutable but indices {:?} and {:?} map to the same offset", col.a, col.b),
                    );
                }
            }
            if let Some(addrs) = &m.mut_addrs {
                labels.push("iter_mut-probed");
                let mut sorted = addrs.clone();
                sorted.sort();
                let dup = sorted.windows(2).any(|w| w[0] == w[1]);
                let oob = addrs.iter().any(|&a| a < m.storage_addr || a >= m.storage_addr + m.storage_len.max(1));
                if addrs.len() as u128 != real_count {
                    return Verdict::fail(format!("iter_mut-count:{name}"), format!("{what}; iter_mut yielded {} items", addrs.len()));
                }
                if dup {
                    return Verdict::fail(format!("alias:iter_mut-after-ctor:{name}"), format!("{what}; iter_mut yielded the same address twice"));
                }
                if oob && !addrs.is_empty() {
                    return Verdict::fail(format!("oob:iter_mut-after-ctor:{name}"), format!("{what}; iter_mut yielded an address outside the storage"));
                }
            }
            Verdict::pass_l(true, labels)
        }
    }
}

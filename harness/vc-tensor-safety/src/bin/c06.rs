//! C06 — safe tensor APIs never access memory out of bounds or alias mutably.
//!
//! Sub-checks (details in the modules of the library crate):
//!   constructors   shapes/strides from {0,1,2,3,2^16,2^31,2^32,2^63,MAX,..} x storage lengths around the
//!                  (true and wrapped) requirement x every constructor/storage kind: accepted => the exact
//!                  (u128) element count and max offset fit the storage and mutable storage is alias-free
//!   programs       random programs of safe calls on small real tensors living inside a guarded buffer,
//!                  checked against a shadow model of addresses (see prog.rs)
//!   owned-programs append/clip_dim/reshape/... on owned tensors (see owned.rs)
//!   storage-split  storage_mut().split_mut + from_storage_and_layout
use vc_tensor_safety::{ctor, owned, prog, prog_gen};
use vcore::{Check, Verdict};

fn prog_oracle(p: &prog::Prog) -> Verdict {
    match prog::execute(p) {
        Ok(o) => Verdict::pass_l(o.nontrivial, o.labels),
        Err(f) => Verdict::fail(f.sig, f.detail),
    }
}

fn owned_oracle(p: &owned::OwnedProg) -> Verdict {
    match owned::execute(p) {
        Ok(o) => Verdict::pass_l(o.nontrivial, o.labels),
        Err(f) => Verdict::fail(f.sig, f.detail),
    }
}

fn main() {
    let mut ck = Check::new("C06");
    ck.rule(
        "constructors: (constructor x storage kind x static/dynamic rank) from the 30 combinations the API offers; shape and strides of rank 0..=4 \
         from {0,1,2,3,4..11,2^16,2^21,2^22,2^31,2^32,2^32+1,2^43,2^62,2^63,2^63+1,MAX/2,MAX-1,MAX}; storage length = exact requirement, \
         wrapped (mod 2^64) requirement or wrapped element count, each -2..=+2, or 0..8. Accepted => exact (u128) max offset + 1 <= storage \
         length, from_data/try_from_data additionally exact element count == length, mutable storage additionally injective layout; small accepted \
         tensors are then really iterated with iter_mut (addresses distinct and inside the storage). \
         programs: a layout recipe (contiguous base of rank<=4, dims<=5 -> reshape -> step slices -> permutation -> unit axes) places a mutable \
         root view inside a guarded buffer; 1..9 steps from {slice_mut, slice_axis_mut, permuted_mut, index_axis_mut, split_at_mut, reshaped_mut, \
         transpose/move_axis/insert_axis/remove_axis/merge_axes, iter_mut/lanes_mut/inner_iter_mut/axis_iter_mut/axis_chunks_mut driven by \
         next/next_back/nth/for_each/rev histories, get_mut/index_mut/weakly-checked index, fill, apply, copy_from, the same through \
         nd_view_mut::<N>, and read-only detours (broadcast, slice, permute, index_axis, split_at, squeezed -> iter/lanes/inner_iter/axis_iter/\
         axis_chunks/get/index/to_vec/copy_into_slice/map/data/item)}; selectors are mostly valid, ~1/13 deliberately invalid. \
         owned-programs: Tensor<u32> from with_capacity/from_data/strided Vec + 1..9 steps of append/clip_dim/has_capacity/permute/transpose/\
         move_axis/insert_axis/remove_axis/reshape/make_contiguous/iter_mut/get_mut/fill/apply/slice_mut. storage-split: every pair of ranges for \
         storage_mut().split_mut on <=3 elements. \
         Non-trivial: constructors = accepted, or shape/span overflowing usize; programs = the program reached a non-contiguous view AND consumed a \
         mutable iterator from both ends; owned-programs = a non-empty append succeeded or a mutable iterator over a non-contiguous tensor was \
         consumed from both ends; storage-split = both views non-empty. Distinct = distinct Debug rendering of the case.",
    );
    ck.assume("the harness observes (pointer, length, shape, strides) of every tensor/view through the public API (view().storage(), shape(), strides()) and trusts these accessors");
    ck.assume("a panic is a memory-safe refusal; it is a violation only if (a) the parameters were valid and the message is an internal bounds/overflow check, or (b) the panicking &mut self call left the tensor's layout/storage modified");
    ck.assume("reads inside rten (to_vec, copy_from sources, map) are observed only through the values they produce: every produced value must be the current value of an element of the view (poison values surround strided sources)");
    ck.assume("element type u32/u8 only; no rayon paths; UB that leaves no trace in addresses, values, the guarded buffer or a signal is not visible (Miri tier not run)");
    ck.set_threads(16);
    // constructors never touch memory they have not verified to exist: no crash attribution needed (it costs a file write per case)
    ck.set_slots(false);
    ck.prop("constructors", ck.pick(400_000, 6_000_000), ctor::strategy, ctor::oracle);
    ck.set_slots(true);
    ck.prop("programs", ck.pick(250_000, 3_000_000), prog_gen::prog, prog_oracle);
    ck.prop("owned-programs", ck.pick(200_000, 3_000_000), prog_gen::owned_prog, owned_oracle);
    if ck.selected("storage-split") {
        let cases = owned::split_cases(ck.pick(3, 5) as usize);
        let n = cases.len() as u64;
        ck.enumerate_par("storage-split", true, n, |i| cases[i as usize].clone(), owned::split_oracle);
    }
    ck.finish();
}

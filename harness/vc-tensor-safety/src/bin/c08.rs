//! C08 — the overlap check never admits aliasing layouts.
//!
//! Direction 1 (soundness): whenever any of rten's "this layout is safe for
//! mutable use" gates accepts a shape/strides pair, the index -> offset map is
//! injective. Gates exercised (all public API):
//!   dyn      DynLayout::from_shape_and_strides(.., DisallowOverlap)
//!   nd       NdLayout::<N>::from_shape_and_strides(.., DisallowOverlap)
//!   tensor   Tensor::from_data_with_strides (Vec storage)
//!   ndtensor NdTensor::<_, N>::from_data_with_strides
//!   viewmut  TensorViewMut::from_data_with_strides (&mut [T] storage)
//!   storage  TensorViewMut::from_storage_and_layout (layout built with AllowOverlap)
//!   capacity Tensor::has_capacity(axis, n) on a tensor whose `axis` is shorter
//! Injectivity is decided exactly by enumeration for small layouts; for huge
//! layouts (products overflow usize) a violation needs a concrete witness: two
//! distinct valid indices for which rten's own `Layout::offset` returns the
//! same value.
//!
//! Direction 2 (completeness clause): layouts derived from a contiguous layout
//! by reshaping, step-slicing, permuting and inserting unit axes are accepted by
//! every gate. The derivation is done twice: by the harness's own recipe and
//! through rten's layout API (slice_dyn / permuted / reshaped_for_view /
//! insert_axis).

use proptest::prelude::*;
use rten_tensor::layout::{DynLayout, FromShape, MutLayout, OverlapPolicy, ResizeLayout};
use rten_tensor::prelude::*;
use rten_tensor::{NdLayout, NdTensor, SliceItem, Tensor, TensorViewMut};
use serde::{Deserialize, Serialize};
use vc_tensor_safety::{exact, DimSlice, Recipe};
use vcore::{Check, Verdict};

#[derive(Clone, Debug, Serialize, Deserialize, PartialEq)]
struct Lay {
    shape: Vec<usize>,
    strides: Vec<usize>,
}

#[derive(Clone, Copy, Debug, PartialEq)]
enum Gate {
    Accept,
    Reject,
    /// panicked (only legitimate in the overflow-checked flavour)
    Panic,
    /// gate not applicable to this case (e.g. storage would be too large)
    Skip,
}

fn g(r: Result<bool, vcore::PanicInfo>) -> Gate {
    match r {
        Ok(true) => Gate::Accept,
        Ok(false) => Gate::Reject,
        Err(_) => Gate::Panic,
    }
}

macro_rules! with_rank {
    ($rank:expr, $n:ident, $body:block, $else:block) => {
        match $rank {
            0 => { const $n: usize = 0; $body }
            1 => { const $n: usize = 1; $body }
            2 => { const $n: usize = 2; $body }
            3 => { const $n: usize = 3; $body }
            4 => { const $n: usize = 4; $body }
            5 => { const $n: usize = 5; $body }
            6 => { const $n: usize = 6; $body }
            _ => $else,
        }
    };
}

fn gate_dyn(l: &Lay) -> Gate {
    g(vcore::catch(|| DynLayout::from_shape_and_strides(&l.shape, &l.strides, OverlapPolicy::DisallowOverlap).is_ok()))
}

fn gate_nd(l: &Lay) -> Gate {
    with_rank!(l.shape.len(), N, {
        let sh: [usize; N] = l.shape.as_slice().try_into().unwrap();
        let st: [usize; N] = l.strides.as_slice().try_into().unwrap();
        g(vcore::catch(|| NdLayout::<N>::from_shape_and_strides(sh, st, OverlapPolicy::DisallowOverlap).is_ok()))
    }, { Gate::Skip })
}

/// Storage length to offer: the exact requirement when it is small, else the
/// value release-mode arithmetic computes (when small), else skip.
fn storage_len_for(l: &Lay) -> Option<usize> {
    let need = exact::required_len(&l.shape, &l.strides);
    if need <= 1 << 16 {
        return Some(need as usize);
    }
    // wrapped min_data_len
    let mut o: usize = 0;
    for (&n, &s) in l.shape.iter().zip(&l.strides) {
        o = o.wrapping_add((n - 1).wrapping_mul(s));
    }
    let w = o.wrapping_add(1);
    (w <= 1 << 16).then_some(w)
}

fn gate_tensor(l: &Lay) -> Gate {
    let Some(len) = storage_len_for(l) else { return Gate::Skip };
    g(vcore::catch(|| Tensor::<u8>::from_data_with_strides(&l.shape, vec![0u8; len], &l.strides).is_ok()))
}

fn gate_ndtensor(l: &Lay) -> Gate {
    let Some(len) = storage_len_for(l) else { return Gate::Skip };
    with_rank!(l.shape.len(), N, {
        let sh: [usize; N] = l.shape.as_slice().try_into().unwrap();
        let st: [usize; N] = l.strides.as_slice().try_into().unwrap();
        g(vcore::catch(|| NdTensor::<u8, N>::from_data_with_strides(sh, vec![0u8; len], st).is_ok()))
    }, { Gate::Skip })
}

fn gate_viewmut(l: &Lay) -> Gate {
    let Some(len) = storage_len_for(l) else { return Gate::Skip };
    let mut buf = vec![0u8; len];
    g(vcore::catch(|| TensorViewMut::<u8>::from_data_with_strides(&l.shape, buf.as_mut_slice(), &l.strides).is_ok()))
}

fn gate_storage(l: &Lay) -> Gate {
    let Some(len) = storage_len_for(l) else { return Gate::Skip };
    let mut buf = vec![0u8; len];
    // from_storage_and_layout panics (documented) instead of returning Err.
    match vcore::catch(|| {
        let layout = DynLayout::from_shape_and_strides(&l.shape, &l.strides, OverlapPolicy::AllowOverlap).unwrap();
        let storage: rten_tensor::storage::ViewMutData<u8> = rten_tensor::storage::IntoStorage::into_storage(buf.as_mut_slice());
        let _t = TensorViewMut::<u8>::from_storage_and_layout(storage, layout);
    }) {
        Ok(()) => Gate::Accept,
        Err(p) if p.msg.contains("assertion failed") => Gate::Reject,
        Err(_) => Gate::Panic,
    }
}

/// has_capacity(axis, shape[axis]) on a tensor whose `axis` has `shape[axis] - shrink` entries.
fn gate_capacity(l: &Lay, axis: usize, small: usize) -> Gate {
    let Some(len) = storage_len_for(l) else { return Gate::Skip };
    let mut sh = l.shape.clone();
    let full = sh[axis];
    sh[axis] = small;
    let small_lay = Lay { shape: sh.clone(), strides: l.strides.clone() };
    let Some(small_len) = storage_len_for(&small_lay) else { return Gate::Skip };
    let mut data: Vec<u8> = Vec::with_capacity(len.max(small_len) + 8);
    data.resize(small_len, 0);
    match vcore::catch(|| match Tensor::<u8>::from_data_with_strides(&sh, data, &l.strides) {
        Ok(t) => Some(t.has_capacity(axis, full)),
        Err(_) => None,
    }) {
        Ok(Some(true)) => Gate::Accept,
        Ok(Some(false)) => Gate::Reject,
        Ok(None) => Gate::Skip, // the shorter tensor itself was refused
        Err(_) => Gate::Panic,
    }
}

fn all_gates(l: &Lay) -> Vec<(String, Gate)> {
    let mut v = vec![
        ("dyn".to_string(), gate_dyn(l)),
        ("nd".to_string(), gate_nd(l)),
        ("tensor".to_string(), gate_tensor(l)),
        ("ndtensor".to_string(), gate_ndtensor(l)),
        ("viewmut".to_string(), gate_viewmut(l)),
        ("storage".to_string(), gate_storage(l)),
    ];
    for axis in 0..l.shape.len() {
        let n = l.shape[axis];
        if n >= 1 {
            v.push(("capacity".to_string(), gate_capacity(l, axis, n - 1)));
            if n >= 2 {
                v.push(("capacity".to_string(), gate_capacity(l, axis, 0)));
            }
        }
    }
    v
}

/// Offsets as rten computes them (the function under test), None on panic.
fn rten_offset(l: &Lay, idx: &[usize]) -> Option<usize> {
    vcore::catch(|| {
        let lay = DynLayout::from_shape_and_strides(&l.shape, &l.strides, OverlapPolicy::AllowOverlap).unwrap();
        lay.offset(idx)
    })
    .ok()
    .flatten()
}

/// Non-trivial: no empty dim, at least one dim of size >= 2 (unit dims are
/// allowed: they exercise the size-1 filter) and not contiguous.
fn nontrivial(l: &Lay) -> bool {
    l.shape.iter().all(|&n| n >= 1) && l.shape.iter().any(|&n| n >= 2) && !exact::is_contiguous(&l.shape, &l.strides)
}

/// Oracle for layouts small enough to enumerate.
fn oracle_small(l: &Lay) -> Verdict {
    let gates = all_gates(l);
    let collision = exact::collision_by_enumeration(&l.shape, &l.strides);
    let dominance = exact::dominance_proof(&l.shape, &l.strides);
    let mut labels: Vec<&'static str> = Vec::new();
    let mut any_accept = false;
    for (name, gate) in &gates {
        match gate {
            Gate::Accept => {
                any_accept = true;
                if let Some((a, b)) = &collision {
                    return Verdict::fail(
                        format!("accepts-overlap:{name}"),
                        format!(
                            "shape {:?} strides {:?} accepted by gate `{name}` but indices {a:?} and {b:?} both map to offset {}",
                            l.shape,
                            l.strides,
                            exact::offset(a, &l.strides).unwrap()
                        ),
                    );
                }
            }
            Gate::Reject => {
                if dominance {
                    return Verdict::fail(
                        format!("rejects-documented-criterion:{name}"),
                        format!(
                            "shape {:?} strides {:?}: sorted strides strictly step over the reachable span (the documented acceptance criterion) but gate `{name}` refused",
                            l.shape, l.strides
                        ),
                    );
                }
            }
            Gate::Panic => {
                return Verdict::fail(
                    format!("panic-small-layout:{name}"),
                    format!("shape {:?} strides {:?}: gate `{name}` panicked on a layout whose products all fit", l.shape, l.strides),
                );
            }
            Gate::Skip => {}
        }
    }
    // cross-check rten's own offset() against the exact one on the colliding pair
    if let Some((a, b)) = &collision {
        if rten_offset(l, a) != rten_offset(l, b) {
            return Verdict::fail("harness:offset-model", "rten offset() disagrees with the exact offset on a small layout");
        }
    }
    labels.push(if any_accept { "accepted" } else { "rejected" });
    if collision.is_some() {
        labels.push("overlapping");
    } else if !any_accept {
        labels.push("injective-but-rejected(conservative)");
    }
    if l.shape.iter().any(|&n| n == 0) {
        labels.push("empty");
    }
    if l.shape.iter().any(|&n| n == 1) {
        labels.push("unit-dims");
    }
    if l.strides.iter().any(|&s| s == 0) {
        labels.push("zero-stride");
    }
    Verdict::pass_l(nontrivial(l), labels)
}

// ---------------------------------------------------------------------------
// exhaustive domain
// ---------------------------------------------------------------------------

fn decode(mut i: u64, max_rank: usize, sizes: u64, strides: u64) -> Lay {
    let per = sizes * strides;
    let mut rank = 0usize;
    let mut block = 1u64;
    loop {
        if i < block || rank == max_rank {
            break;
        }
        i -= block;
        block *= per;
        rank += 1;
    }
    let mut shape = Vec::with_capacity(rank);
    let mut st = Vec::with_capacity(rank);
    for _ in 0..rank {
        let d = i % per;
        i /= per;
        shape.push((d % sizes) as usize);
        st.push((d / sizes) as usize);
    }
    Lay { shape, strides: st }
}

fn domain_size(max_rank: usize, sizes: u64, strides: u64) -> u64 {
    let per = sizes * strides;
    (0..=max_rank as u32).map(|r| per.pow(r)).sum()
}

// ---------------------------------------------------------------------------
// huge layouts
// ---------------------------------------------------------------------------

#[derive(Clone, Debug, Serialize, Deserialize)]
struct Huge {
    lay: Lay,
    /// candidate indices for the witness search (reduced modulo the sizes)
    seeds: Vec<Vec<u64>>,
}

fn special() -> impl Strategy<Value = usize> {
    prop_oneof![
        4 => prop_oneof![Just(0usize), Just(1), Just(2), Just(3), Just(4)],
        3 => (0u32..64).prop_map(|k| 1usize << k),
        2 => (1u32..64, 0usize..3).prop_map(|(k, d)| (1usize << k).wrapping_add(d).wrapping_sub(1)),
        1 => (0u32..62).prop_map(|k| 3usize << k),
        1 => prop_oneof![Just(usize::MAX), Just(usize::MAX / 2), Just(usize::MAX / 2 + 1), Just(usize::MAX - 1), Just(1 << 32), Just((1 << 32) + 1), Just(1 << 16), Just(1 << 31)],
        1 => any::<usize>(),
    ]
}

/// Free mixture of sizes and strides.
fn huge_free() -> impl Strategy<Value = Lay> {
    (1usize..=6)
        .prop_flat_map(|r| (proptest::collection::vec(special(), r), proptest::collection::vec(special(), r)))
        .prop_map(|(shape, strides)| Lay { shape, strides })
}

/// A chain that *is* dominating in exact arithmetic (stride_{k+1} = span_k + 1 + slack),
/// then truncated to 64 bits and shuffled: the candidates for wrap-around acceptance.
fn huge_chain() -> impl Strategy<Value = Lay> {
    (1usize..=6)
        .prop_flat_map(|r| {
            (
                proptest::collection::vec(prop_oneof![3 => 2usize..6, 2 => (1u32..40).prop_map(|k| 1usize << k), 1 => (1u32..40).prop_map(|k| (1usize << k) + 1)], r),
                proptest::collection::vec(prop_oneof![3 => Just(0u128), 1 => 0u128..4, 1 => (0u32..70).prop_map(|k| 1u128 << k)], r),
                any::<u16>(),
            )
        })
        .prop_map(|(sizes, slack, perm)| {
            let r = sizes.len();
            let mut span: u128 = 0;
            let mut strides = Vec::with_capacity(r);
            for k in 0..r {
                let s = span.wrapping_add(1).wrapping_add(slack[k]);
                strides.push(s as u64 as usize); // truncate to 64 bits
                span = span.wrapping_add((sizes[k] as u128 - 1).wrapping_mul(s));
            }
            let p = vc_tensor_safety::nth_permutation(r, vc_tensor_safety::pick(perm, vc_tensor_safety::factorial(r)));
            Lay { shape: p.iter().map(|&i| sizes[i]).collect(), strides: p.iter().map(|&i| strides[i]).collect() }
        })
}

fn huge_case() -> impl Strategy<Value = Huge> {
    (prop_oneof![huge_free(), huge_chain()], proptest::collection::vec(proptest::collection::vec(any::<u64>(), 6), 0..4))
        .prop_map(|(lay, seeds)| Huge { lay, seeds })
}

fn oracle_huge(h: &Huge) -> Verdict {
    let l = &h.lay;
    if exact::elem_count(&l.shape) <= 4096 && exact::required_len(&l.shape, &l.strides) <= 1 << 16 {
        return oracle_small(l).label("small-in-huge-domain");
    }
    let gates = vec![("dyn", gate_dyn(l)), ("nd", gate_nd(l)), ("tensor", gate_tensor(l)), ("viewmut", gate_viewmut(l)), ("storage", gate_storage(l))];
    let proof = exact::dominance_proof(&l.shape, &l.strides);
    let need = exact::required_len(&l.shape, &l.strides);
    let fits = need <= usize::MAX as u128;
    let mut labels: Vec<&'static str> = Vec::new();
    let mut accepted = false;
    let mut panicked = false;
    for (name, gate) in &gates {
        match gate {
            Gate::Accept => {
                accepted = true;
                // no 64-bit wrap anywhere and the exact criterion holds: injective (proved)
                if proof && fits {
                    continue;
                }
                // look for a witness: two distinct valid indices with equal offsets
                if let Some(c) = exact::find_collision(&l.shape, &l.strides, &h.seeds) {
                    // confirm with rten's own offset function when it does not panic
                    let (oa, ob) = (rten_offset(l, &c.a), rten_offset(l, &c.b));
                    let confirmed = match (oa, ob) {
                        (Some(x), Some(y)) => x == y,
                        _ => c.exact, // offset() panicked on overflow: only exact collisions count
                    };
                    if confirmed {
                        let kind = if c.exact { "exact" } else { "offsets-wrap" };
                        // `fits`: max offset + 1 fits usize, so no offset can wrap and the
                        // collision is a plain failure of the criterion (same signature as
                        // in the enumerated domain). Otherwise the layout is not
                        // representable in usize at all and should have been refused.
                        let sig = if fits {
                            format!("accepts-overlap:{name}")
                        } else {
                            format!("accepts-unrepresentable-layout:{kind}:{name}")
                        };
                        return Verdict::fail(
                            sig,
                            format!(
                                "shape {:?} strides {:?} accepted by gate `{name}`; distinct valid indices {:?} and {:?} map to the same storage offset {:?} ({})",
                                l.shape,
                                l.strides,
                                c.a,
                                c.b,
                                oa,
                                if c.exact { "equal in exact arithmetic" } else { "equal in the usize arithmetic Layout::offset performs; exact offsets differ by a multiple of 2^64" }
                            ),
                        );
                    }
                }
                labels.push(if fits {
                    "accepted-nondominating-representable-no-witness"
                } else if proof {
                    "accepted-span-exceeds-usize-no-witness"
                } else {
                    "accepted-unproven-no-witness"
                });
            }
            Gate::Reject => {
                if proof && fits {
                    return Verdict::fail(
                        format!("rejects-documented-criterion:{name}"),
                        format!("shape {:?} strides {:?}: exact criterion holds and nothing overflows, yet gate `{name}` refused", l.shape, l.strides),
                    );
                }
            }
            Gate::Panic => {
                panicked = true;
                if fits && exact::elem_count(&l.shape) <= usize::MAX as u128 {
                    // every quantity fits in usize: a panic is not an overflow rejection
                    // (only intermediate products of sorted partial spans can overflow; they are <= need)
                    return Verdict::fail(
                        format!("panic-nothing-overflows:{name}"),
                        format!("shape {:?} strides {:?}: gate `{name}` panicked although span and element count fit usize", l.shape, l.strides),
                    );
                }
            }
            Gate::Skip => {}
        }
    }
    labels.push(if accepted { "accepted" } else if panicked { "overflow-panic" } else { "rejected" });
    if !fits {
        labels.push("span-exceeds-usize");
    }
    if proof && fits && accepted {
        labels.push("accepted-proved-injective");
    }
    labels.sort();
    labels.dedup();
    Verdict::pass_l(nontrivial(l) && accepted, labels)
}

// ---------------------------------------------------------------------------
// derived layouts (completeness)
// ---------------------------------------------------------------------------

/// The same derivation through rten's layout API.
fn derive_via_rten(rc: &Recipe) -> Option<Lay> {
    let d = rc.derive();
    vcore::catch(|| {
        let base: Vec<usize> = rc.base.iter().map(|&b| b as usize).collect();
        let mut lay = DynLayout::from_shape(&base);
        // reshape: ask for the shape the recipe produced before slicing; recompute it here
        let mut shape = base.clone();
        if rc.reshape != 0 && !shape.is_empty() {
            let k = vc_tensor_safety::sel(rc.reshape >> 1, shape.len());
            if rc.reshape & 1 == 1 {
                if k + 1 < shape.len() {
                    let m = shape[k] * shape[k + 1];
                    shape[k] = m;
                    shape.remove(k + 1);
                }
            } else {
                let n = shape[k];
                if let Some(dv) = (2..n).find(|dv| n % dv == 0) {
                    shape[k] = n / dv;
                    shape.insert(k + 1, dv);
                }
            }
            lay = lay.reshaped_for_view(shape.as_slice()).expect("reshape of contiguous layout");
        }
        let mut items = Vec::new();
        for (i, sl) in rc.slices.iter().enumerate() {
            if i >= shape.len() {
                break;
            }
            let n = shape[i];
            let start = vc_tensor_safety::sel(sl.start, n + 1);
            let avail = n - start;
            let len = if sl.len == 255 { avail } else { vc_tensor_safety::sel(sl.len, avail + 1) };
            items.push(SliceItem::range(start as isize, Some((start + len) as isize), sl.step as isize + 1));
        }
        let (_range, lay) = lay.slice_dyn(&items).expect("valid slice");
        let r = lay.ndim();
        let perm = vc_tensor_safety::nth_permutation(r, vc_tensor_safety::pick(rc.perm, vc_tensor_safety::factorial(r)));
        let mut lay = lay.permuted(&perm);
        for &(pos, _stride) in &rc.unit_axes {
            let at = vc_tensor_safety::sel(pos, lay.ndim() + 1);
            lay.insert_axis(at);
        }
        let _ = d;
        Lay { shape: lay.shape().to_vec(), strides: lay.strides().to_vec() }
    })
    .ok()
}

fn oracle_derived(rc: &Recipe) -> Verdict {
    let d = rc.derive();
    let own = Lay { shape: d.shape.clone(), strides: d.strides.clone() };
    let mut labels = d.labels.clone();
    let mut variants = vec![("recipe", own.clone())];
    match derive_via_rten(rc) {
        Some(api) => {
            // unit-axis strides are chosen by rten and legitimately differ
            let same = api.shape == own.shape
                && api.shape.iter().zip(api.strides.iter().zip(&own.strides)).all(|(&n, (a, b))| n == 1 || a == b);
            if !same {
                labels.push("api-derivation-differs-from-recipe");
            }
            variants.push(("rten-api", api));
        }
        None => labels.push("api-derivation-panicked"),
    }
    for (how, l) in &variants {
        // harness sanity: a derived layout is injective
        if exact::elem_count(&l.shape) <= 1 << 16 && exact::collision_by_enumeration(&l.shape, &l.strides).is_some() {
            if *how == "recipe" {
                return Verdict::fail("harness:recipe-not-injective", format!("{l:?}"));
            }
            labels.push("api-derived-layout-overlaps");
            continue;
        }
        for (name, gate) in all_gates(l) {
            // capacity gate: only meaningful when the axis was not refused; Skip is fine
            match gate {
                Gate::Reject | Gate::Panic => {
                    return Verdict::fail(
                        format!("rejects-derived-layout:{name}"),
                        format!(
                            "layout shape {:?} strides {:?} derived ({how}) from contiguous {:?} by {:?} is refused by gate `{name}` ({gate:?})",
                            l.shape, l.strides, rc.base, labels
                        ),
                    );
                }
                _ => {}
            }
        }
    }
    labels.sort();
    labels.dedup();
    Verdict::pass_l(nontrivial(&own), labels)
}

/// Every recipe of rank <= 2: base dims 1..=5, every (start, len) window, steps 1..=3,
/// both permutations, with/without one unit axis.
fn derived_exhaustive_cases() -> Vec<Recipe> {
    let mut out = Vec::new();
    // selectors that hit every value of 0..=n for n <= 5 under sel(): use exact inverse
    let inv = |v: usize, len: usize| -> u8 { (((v * 256) + len - 1) / len).min(255) as u8 };
    for rank in 0..=2usize {
        let dims: Vec<Vec<u8>> = match rank {
            0 => vec![vec![]],
            1 => (1..=5u8).map(|a| vec![a]).collect(),
            _ => (1..=5u8).flat_map(|a| (1..=5u8).map(move |b| vec![a, b])).collect(),
        };
        for base in dims {
            let mut per_dim: Vec<Vec<DimSlice>> = Vec::new();
            for &n in &base {
                let n = n as usize;
                let mut v = Vec::new();
                for start in 0..=n {
                    for len in 0..=(n - start) {
                        for step in 0..3u8 {
                            let s = inv(start, n + 1);
                            let l = inv(len, n - start + 1);
                            debug_assert_eq!(vc_tensor_safety::sel(s, n + 1), start);
                            debug_assert_eq!(vc_tensor_safety::sel(l, n - start + 1), len);
                            v.push(DimSlice { start: s, len: l, step });
                        }
                    }
                }
                per_dim.push(v);
            }
            let combos: Vec<Vec<DimSlice>> = match per_dim.len() {
                0 => vec![vec![]],
                1 => per_dim[0].iter().map(|a| vec![a.clone()]).collect(),
                _ => per_dim[0].iter().flat_map(|a| per_dim[1].iter().map(move |b| vec![a.clone(), b.clone()])).collect(),
            };
            for slices in combos {
                for perm in [0u16, 40000] {
                    if rank < 2 && perm != 0 {
                        continue;
                    }
                    for unit in [None, Some((128u8, 7usize))] {
                        out.push(Recipe { base: base.clone(), reshape: 0, slices: slices.clone(), perm, unit_axes: unit.into_iter().collect() });
                    }
                }
            }
        }
    }
    out
}

fn main() {
    let mut ck = Check::new("C08");
    ck.rule(
        "Cases are (shape, strides) pairs. exhaustive-*: every layout of the stated rank/size/stride box (decided exactly by \
         enumerating all indices). random-huge: rank 1..=6, sizes/strides from {0..4, 2^k, 2^k±1, 3·2^k, MAX, MAX/2, random} plus \
         exactly-dominating chains truncated to 64 bits (the wrap-around candidates); a violation needs two concrete distinct \
         valid indices for which rten's Layout::offset returns the same value. derived-*: layouts built by construction from a \
         contiguous layout (reshape, step-slice, permute, unit axes), once by the harness's recipe and once through rten's layout API; \
         all must be accepted. Every case is put through all gates (dyn, nd, tensor, ndtensor, viewmut, storage, capacity). \
         Non-trivial = no empty dim, at least one dim of size >= 2 and not contiguous (for random-huge additionally: accepted by some gate). \
         Distinct = distinct Debug rendering of the case.",
    );
    ck.assume("a panic inside a gate counts as refusal when some quantity of the layout (element count or max offset + 1) exceeds usize (overflow-checked flavour)");
    ck.assume("for layouts too large to enumerate, acceptance is a violation only with a concrete colliding index pair; accepted layouts whose exact span exceeds usize but for which the candidate search finds no pair are labelled, not failed");
    ck.assume("doc comment of may_have_internal_overlap is taken as the documented acceptance criterion (sorted strides strictly step over the reachable span) for the 'rejects-documented-criterion' signature");
    ck.set_threads(16);
    ck.set_slots(false); // overlap.rs / layout constructors contain no unsafe code; cases are tiny and very many

    // (a) exhaustive
    let total = domain_size(3, 5, 13);
    ck.enumerate_par("exhaustive-rank3-size4-stride12", true, total, |i| decode(i, 3, 5, 13), oracle_small);
    let (sz, st) = match ck.tier() {
        vcore::Tier::Quick => (4u64, 7u64),    // sizes 0..=3, strides 0..=6
        vcore::Tier::Thorough => (4u64, 11u64), // sizes 0..=3, strides 0..=10
    };
    {
        let per = sz * st;
        let total4 = per.pow(4);
        // rank-4 layouts only (lower ranks are covered above)
        let skip = domain_size(3, sz, st);
        ck.enumerate_par("exhaustive-rank4", true, total4, move |i| decode(i + skip, 4, sz, st), oracle_small);
    }

    // (b) huge
    ck.prop("random-huge", ck.pick(400_000, 10_000_000), huge_case, oracle_huge);

    // (c) derived
    if ck.selected("derived-exhaustive-rank2") {
        let cases = derived_exhaustive_cases();
        let n = cases.len() as u64;
        ck.enumerate_par("derived-exhaustive-rank2", true, n, |i| cases[i as usize].clone(), oracle_derived);
    }
    ck.prop("derived-random", ck.pick(150_000, 3_000_000), || vc_tensor_safety::prog_gen::recipe(5, 5, true, 10), oracle_derived);

    ck.finish();
}

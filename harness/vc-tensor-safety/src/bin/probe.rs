use vc_tensor_safety::prog::*;
use vc_tensor_safety::Recipe;
fn main() {
    let p = Prog {
        root: Recipe { base: vec![], reshape: 0, slices: vec![], perm: 0, unit_axes: vec![(0, 0), (0, 31)] },
        steps: vec![
            Step::Read { pre: vec![RStep::SplitAt { axis: 0, mid: 251, right: false }], obs: RObs::ToVec },
            Step::Transpose,
            Step::LanesMut { dim: 52, ops: vec![ItOp::Next], lane_ops: vec![ItOp::Next] },
            Step::LanesMut { dim: 236, ops: vec![ItOp::NextBack], lane_ops: vec![ItOp::Next] },
        ],
    };
    std::env::set_var("VC_DEBUG_PANICS", "1");
    let r = vcore::catch(|| execute(&p).map(|o| o.labels));
    println!("{:?}", r.map_err(|p| p.msg));
}

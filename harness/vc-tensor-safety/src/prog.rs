//! C06 (b): random programs of safe calls on small real tensors, checked
//! against a shadow model of *where in memory* every view and reference may
//! point. The harness itself never dereferences an address it has not first
//! verified to lie inside the backing buffer, and never reads the buffer while
//! a rten view of it is alive (the write footprint is compared after the
//! program, when every view is gone).

use crate::{exact, factorial, nth_permutation, pick, sel, Recipe};
use rten_tensor::layout::{MutLayout, RemoveDim};
use rten_tensor::prelude::*;
use rten_tensor::storage::ViewMutData;
use rten_tensor::{NdLayout, SliceItem, Tensor, TensorBase, TensorView, TensorViewMut};
use serde::{Deserialize, Serialize};

pub const GUARD: usize = 16;
pub const PAD: usize = 16;
const DELTA: u32 = 1 << 22;
const POISON: u32 = 0xF000_0000;

#[derive(Debug, Clone)]
pub struct Fail {
    pub sig: String,
    pub detail: String,
}
pub type R<T> = Result<T, Fail>;

fn fail<T>(sig: String, detail: String) -> R<T> {
    Err(Fail { sig, detail })
}

#[derive(Clone, Copy, Debug, PartialEq)]
pub enum Exp {
    Val(u32),
    /// any value in [lo, hi)
    Range(u32, u32),
}

impl Exp {
    fn matches(&self, v: u32) -> bool {
        match *self {
            Exp::Val(x) => x == v,
            Exp::Range(lo, hi) => v >= lo && v < hi,
        }
    }
}

// ---------------------------------------------------------------------------
// program description
// ---------------------------------------------------------------------------

#[derive(Clone, Debug, Serialize, Deserialize, PartialEq)]
pub enum ItOp {
    Next,
    NextBack,
    Nth(u8),
    /// consume the rest with for_each (fold fast path)
    Rest,
    /// consume the rest in reverse
    RevRest,
    /// SplitIterator::split_at(at mapped onto 0..=len), then drive both halves
    /// (left first). Ends the history. Iterators without `split_at` (single
    /// lanes) treat it as `Rest`.
    Split { at: u8, left: Vec<ItOp>, right: Vec<ItOp> },
}

#[derive(Clone, Debug, Serialize, Deserialize, PartialEq)]
pub enum ItemSpec {
    Full,
    Index { i: u8, neg: bool },
    Range { start: u8, len: u8, step: u8, neg: bool, open: bool },
    /// negative step: views must refuse it
    NegStep,
}

#[derive(Clone, Debug, Serialize, Deserialize, PartialEq)]
pub enum NdOp {
    InnerIterMut { k: u8, ops: Vec<ItOp> },
    AxisIterMut { dim: u8, ops: Vec<ItOp> },
    LanesMut { dim: u8, ops: Vec<ItOp>, lane_ops: Vec<ItOp> },
    AxisChunksMut { dim: u8, chunk: u8, ops: Vec<ItOp> },
    SplitAtMut { axis: u8, mid: u8 },
    IndexAxisMut { axis: u8, index: u8 },
    GetMut(Vec<u8>),
    /// typed range slice on the first axis: (a..b,)
    SliceFirst { start: u8, len: u8 },
    /// rank-2 only: typed (index, range) / (range, index) / (index, index)
    Slice2 { form: u8, i: u8, j: u8, start: u8, len: u8 },
    /// get_array::<M>(base, dim) / set_array (write = true); rank 1 additionally
    /// to_array / assign_array when `whole` is set. `at`: 0 => 0, 1 => len-M,
    /// 2 => len-M+1, 3 => len-M+2, otherwise mapped onto 0..len.
    Array { write: bool, whole: bool, m: u8, dim: u8, at: u8, base: Vec<u8> },
}

#[derive(Clone, Debug, Serialize, Deserialize, PartialEq)]
pub enum RStep {
    Broadcast { lead: Vec<u8>, expand: u8 },
    Slice(Vec<ItemSpec>),
    Permuted(u16),
    Transposed,
    IndexAxis { axis: u8, index: u8 },
    SliceAxis { axis: u8, start: u8, len: u8 },
    SplitAt { axis: u8, mid: u8, right: bool },
    Squeezed,
}

#[derive(Clone, Debug, Serialize, Deserialize, PartialEq)]
pub enum RObs {
    Iter(Vec<ItOp>),
    Lanes { dim: u8, ops: Vec<ItOp>, lane_ops: Vec<ItOp> },
    InnerIter { n: u8, ops: Vec<ItOp> },
    AxisIter { dim: u8, ops: Vec<ItOp> },
    AxisChunks { dim: u8, chunk: u8, ops: Vec<ItOp> },
    Get(Vec<u8>),
    Index(Vec<u8>),
    WeakIndex(Vec<u8>),
    ToVec,
    CopyIntoSlice,
    Map,
    Data,
    Item,
    /// get_array / to_array on a static-rank read-only view (rank 1..=4)
    Array { whole: bool, m: u8, dim: u8, at: u8, base: Vec<u8> },
    /// slice_copy with (possibly negative-step / out-of-range) items
    SliceCopy(Vec<ItemSpec>),
    /// Tensor::uninit(shape).init_from(&view)
    InitFrom,
    /// Tensor::concat(dim, &[view, view])
    Concat { dim: u8 },
    ToContiguous,
    ToShape,
    ToSlice,
    Reshaped(u8),
}

#[derive(Clone, Debug, Serialize, Deserialize, PartialEq)]
pub enum Step {
    SliceMut(Vec<ItemSpec>),
    SliceAxisMut { axis: u8, start: u8, len: u8 },
    PermutedMut(u16),
    IndexAxisMut { axis: u8, index: u8 },
    SplitAtMut { axis: u8, mid: u8, right: bool },
    ReshapedMut(u8),
    Transpose,
    MoveAxis(u8, u8),
    InsertAxis(u8),
    RemoveAxis(u8),
    MergeAxes,
    IterMut(Vec<ItOp>),
    LanesMut { dim: u8, ops: Vec<ItOp>, lane_ops: Vec<ItOp> },
    InnerIterMut { n: u8, ops: Vec<ItOp> },
    AxisIterMut { dim: u8, ops: Vec<ItOp> },
    AxisChunksMut { dim: u8, chunk: u8, ops: Vec<ItOp> },
    GetMut(Vec<u8>),
    IndexMut(Vec<u8>),
    WeakIndexMut(Vec<u8>),
    Fill,
    Apply,
    CopyFrom { layout: u8 },
    Nd(NdOp),
    Read { pre: Vec<RStep>, obs: RObs },
}

#[derive(Clone, Debug, Serialize, Deserialize, PartialEq)]
pub struct Prog {
    pub root: Recipe,
    pub steps: Vec<Step>,
}

// ---------------------------------------------------------------------------
// shadow model
// ---------------------------------------------------------------------------

#[derive(Clone, Debug)]
pub struct MView {
    /// absolute position (element index in the backing buffer) of storage[0]
    pub base: usize,
    pub slen: usize,
    pub shape: Vec<usize>,
    pub strides: Vec<usize>,
    /// absolute positions of all elements in logical order
    pub pos: Vec<usize>,
}

pub struct Ctx {
    pub buf_addr: usize,
    pub buf_len: usize,
    /// positions [start, end) of the root storage inside the buffer
    pub region: (usize, usize),
    pub expect: Vec<Exp>,
    next_val: u32,
    src_seq: u32,
    pub labels: Vec<&'static str>,
    pub mutated: Vec<&'static str>,
    pub saw_noncontig: bool,
    pub saw_mut_both_ends: bool,
    pub trace: Vec<String>,
}

impl Ctx {
    pub fn new(buf_addr: usize, buf_len: usize, region: (usize, usize), init: &[u32]) -> Ctx {
        Ctx {
            buf_addr,
            buf_len,
            region,
            expect: init.iter().map(|&v| Exp::Val(v)).collect(),
            next_val: 1 << 27,
            src_seq: 0,
            labels: Vec::new(),
            mutated: Vec::new(),
            saw_noncontig: false,
            saw_mut_both_ends: false,
            trace: Vec::new(),
        }
    }
    fn fresh(&mut self) -> u32 {
        self.next_val += 1;
        self.next_val
    }
    fn label(&mut self, l: &'static str) {
        if !self.labels.contains(&l) {
            self.labels.push(l);
        }
    }
    fn mutated(&mut self, l: &'static str) {
        if !self.mutated.contains(&l) {
            self.mutated.push(l);
        }
    }
    fn pos_of(&self, addr: usize, op: &str) -> R<usize> {
        let size = std::mem::size_of::<u32>();
        if addr < self.buf_addr || (addr - self.buf_addr) % size != 0 || (addr - self.buf_addr) / size >= self.buf_len {
            return fail(
                format!("oob-reference:{op}"),
                format!("{op} returned a reference at address {addr:#x}, outside the backing buffer [{:#x}, {:#x}); trace {:?}", self.buf_addr, self.buf_addr + self.buf_len * size, self.trace),
            );
        }
        Ok((addr - self.buf_addr) / size)
    }
    fn bitset(&self, mv: &MView) -> Vec<bool> {
        let mut b = vec![false; self.buf_len];
        for &p in &mv.pos {
            b[p] = true;
        }
        b
    }
}

/// Read (pointer, length, shape, strides) of any tensor through the public API
/// and check the view invariants in exact arithmetic.
pub fn observe<S: rten_tensor::storage::Storage<Elem = u32>, L: Layout + Clone>(ctx: &Ctx, t: &TensorBase<S, L>, op: &str, parent: Option<&[bool]>) -> R<MView> {
    let shape: Vec<usize> = rten_tensor::SizeArray::iter(&t.shape()).collect();
    let strides: Vec<usize> = rten_tensor::SizeArray::iter(&t.strides()).collect();
    let v = t.view();
    let st = v.storage();
    let (addr, slen) = (rten_tensor::storage::Storage::as_ptr(&st) as usize, rten_tensor::storage::Storage::len(&st));
    let what = || format!("after {op}: shape {shape:?} strides {strides:?} storage (ptr {addr:#x}, len {slen}); trace {:?}", ctx.trace);
    let count = exact::elem_count(&shape);
    let need = exact::required_len(&shape, &strides);
    if need > slen as u128 {
        return fail(format!("layout-exceeds-storage:{op}"), format!("max offset + 1 = {need} > storage length; {}", what()));
    }
    if count > 1 << 16 {
        return fail("harness:view-too-large".into(), what());
    }
    let size = std::mem::size_of::<u32>();
    let mut base = ctx.region.0;
    if slen > 0 {
        if addr < ctx.buf_addr || (addr - ctx.buf_addr) % size != 0 {
            return fail(format!("oob-storage:{op}"), format!("storage pointer outside/misaligned w.r.t. the backing buffer; {}", what()));
        }
        base = (addr - ctx.buf_addr) / size;
        if base < ctx.region.0 || base + slen > ctx.region.1 {
            return fail(
                format!("oob-storage:{op}"),
                format!("storage [{base}, {}) leaves the root storage [{}, {}); {}", base + slen, ctx.region.0, ctx.region.1, what()),
            );
        }
    }
    let mut pos = Vec::with_capacity(count as usize);
    for idx in exact::indices(&shape) {
        let o = exact::offset(&idx, &strides).unwrap() as usize;
        let p = base + o;
        if let Some(par) = parent {
            if !par[p] {
                return fail(
                    format!("escapes-parent:{op}"),
                    format!("index {idx:?} maps to buffer position {p}, which is not an element of the view it was derived from; {}", what()),
                );
            }
        }
        pos.push(p);
    }
    Ok(MView { base, slen, shape, strides, pos })
}

// ---------------------------------------------------------------------------
// selectors
// ---------------------------------------------------------------------------

/// (value, valid)
fn axis_sel(b: u8, ndim: usize) -> (usize, bool) {
    if b >= 250 || ndim == 0 {
        (ndim + (b as usize).saturating_sub(250), false)
    } else {
        (sel(b, ndim), true)
    }
}

fn idx_sel(b: u8, size: usize) -> (usize, bool) {
    if b >= 250 || size == 0 {
        (size + (b as usize).saturating_sub(250), false)
    } else {
        (sel(b, size), true)
    }
}

fn index_vec(spec: &[u8], shape: &[usize]) -> (Vec<usize>, bool) {
    let mut valid = true;
    let mut v = Vec::new();
    for (k, &n) in shape.iter().enumerate() {
        let (i, ok) = idx_sel(spec.get(k).copied().unwrap_or(0), n);
        valid &= ok;
        v.push(i);
    }
    // a spec longer than the rank by a marker byte >= 250 produces a wrong-rank index
    if spec.len() > shape.len() && spec[shape.len()] >= 250 {
        v.push(0);
        valid = false;
    }
    (v, valid)
}

fn slice_items(specs: &[ItemSpec], shape: &[usize]) -> (Vec<SliceItem>, bool) {
    let mut valid = specs.len() <= shape.len();
    let mut items = Vec::new();
    for (k, sp) in specs.iter().enumerate() {
        let n = shape.get(k).copied().unwrap_or(1);
        match sp {
            ItemSpec::Full => items.push(SliceItem::full_range()),
            ItemSpec::Index { i, neg } => {
                let (i, ok) = idx_sel(*i, n);
                valid &= ok;
                if *neg && ok {
                    items.push(SliceItem::Index(i as isize - n as isize));
                } else {
                    items.push(SliceItem::Index(i as isize));
                }
            }
            ItemSpec::Range { start, len, step, neg, open } => {
                let s = sel(*start, n + 1);
                let l = sel(*len, n - s + 1);
                let e = s + l;
                let (si, ei) = if *neg && n > 0 { (s as isize - n as isize, if e == n { None } else { Some(e as isize - n as isize) }) } else { (s as isize, Some(e as isize)) };
                let ei = if *open { None } else { ei };
                // negative start of -n with s == 0 is fine; (s - n) for s == n gives 0 which means index 0: avoid
                let si = if *neg && s == n { s as isize } else { si };
                items.push(SliceItem::range(si, ei, (*step % 4) as isize + 1));
            }
            ItemSpec::NegStep => {
                valid = false;
                items.push(SliceItem::range(0, None, -1));
            }
        }
    }
    (items, valid)
}

fn is_internal_panic(msg: &str) -> bool {
    ["offset < self.len()", "attempt to ", "index out of bounds", "out of range for slice", "slice index starts", "range end index", "range start index", "invalid slice range", "misaligned", "unsafe precondition"]
        .iter()
        .any(|p| msg.contains(p))
}

/// A rten call panicked. Invalid parameters: documented refusal. Valid
/// parameters and an internal bounds/overflow message: the library's own
/// offset arithmetic went wrong (in a build without these checks it would
/// have been an unchecked access).
fn refused(ctx: &mut Ctx, op: &str, valid: bool, p: vcore::PanicInfo) -> R<()> {
    if valid && is_internal_panic(&p.msg) {
        return fail(
            format!("internal-panic:{op}:{}", p.msg_class()),
            format!("{op} with valid parameters panicked inside rten: {} at {}; trace {:?}", p.msg, p.loc(), ctx.trace),
        );
    }
    if valid && std::env::var("VC_DEBUG_PANICS").is_ok() {
        eprintln!("valid-panic {op}: {} at {}; last {:?} FULL {:?}", p.msg, p.loc(), ctx.trace.last(), ctx.trace);
    }
    ctx.label(if valid { "op-panicked-on-valid-params" } else { "op-refused-invalid-params" });
    Ok(())
}

// ---------------------------------------------------------------------------
// iterator histories
// ---------------------------------------------------------------------------

#[derive(Default, Clone, Copy)]
struct Hist {
    front: bool,
    back: bool,
    split: bool,
}

impl Hist {
    fn class(&self) -> &'static str {
        match (self.front, self.back, self.split) {
            (true, true, false) => "mixed",
            (_, true, false) => "back",
            (_, false, false) => "front",
            (true, true, true) => "mixed+split",
            (_, true, true) => "back+split",
            (_, false, true) => "front+split",
        }
    }
}

type SplitFn<I> = fn(I, usize) -> (I, I);

fn split_of<I: rten_base::iter::SplitIterator>() -> Option<SplitFn<I>> {
    Some(|it, k| it.split_at(k))
}

fn drive<I, F>(it: I, ops: &[ItOp], h: &mut Hist, mut f: F) -> R<()>
where
    I: DoubleEndedIterator + ExactSizeIterator,
    F: FnMut(I::Item, &Hist) -> R<()>,
{
    drive_s(it, ops, h, None, &mut f)
}

/// `drive` for iterators that implement `SplitIterator` (`ItOp::Split` really splits).
fn drive_sp<I, F>(it: I, ops: &[ItOp], h: &mut Hist, mut f: F) -> R<()>
where
    I: DoubleEndedIterator + ExactSizeIterator + rten_base::iter::SplitIterator,
    F: FnMut(I::Item, &Hist) -> R<()>,
{
    drive_s(it, ops, h, split_of::<I>(), &mut f)
}

fn drive_s<I, F>(mut it: I, ops: &[ItOp], h: &mut Hist, split: Option<SplitFn<I>>, f: &mut F) -> R<()>
where
    I: DoubleEndedIterator + ExactSizeIterator,
    F: FnMut(I::Item, &Hist) -> R<()>,
{
    for op in ops {
        match op {
            ItOp::Next => {
                h.front = true;
                if let Some(x) = it.next() {
                    f(x, h)?;
                }
            }
            ItOp::NextBack => {
                h.back = true;
                if let Some(x) = it.next_back() {
                    f(x, h)?;
                }
            }
            ItOp::Nth(k) => {
                h.front = true;
                if let Some(x) = it.nth((*k % 8) as usize) {
                    f(x, h)?;
                }
            }
            ItOp::Rest => {
                h.front = true;
                let mut err = None;
                let hh = *h;
                it.for_each(|x| {
                    if err.is_none() {
                        if let Err(e) = f(x, &hh) {
                            err = Some(e);
                        }
                    }
                });
                return err.map_or(Ok(()), Err);
            }
            ItOp::RevRest => {
                h.back = true;
                let mut err = None;
                let hh = *h;
                it.rev().for_each(|x| {
                    if err.is_none() {
                        if let Err(e) = f(x, &hh) {
                            err = Some(e);
                        }
                    }
                });
                return err.map_or(Ok(()), Err);
            }
            ItOp::Split { at, left, right } => {
                let Some(sp) = split else {
                    h.front = true;
                    let mut err = None;
                    let hh = *h;
                    it.for_each(|x| {
                        if err.is_none() {
                            if let Err(e) = f(x, &hh) {
                                err = Some(e);
                            }
                        }
                    });
                    return err.map_or(Ok(()), Err);
                };
                h.split = true;
                let k = sel(*at, it.len() + 1);
                let (l, r) = sp(it, k);
                // both halves stay alive while the left one is driven
                drive_s(l, left, h, split, f)?;
                return drive_s(r, right, h, split, f);
            }
        }
    }
    Ok(())
}

fn flat<'a>(ops: &'a [ItOp], out: &mut Vec<&'a ItOp>) {
    for o in ops {
        out.push(o);
        if let ItOp::Split { left, right, .. } = o {
            flat(left, out);
            flat(right, out);
        }
    }
}

fn both_ends(ops: &[ItOp]) -> bool {
    let mut all = Vec::new();
    flat(ops, &mut all);
    all.iter().any(|o| matches!(o, ItOp::Next | ItOp::Nth(_) | ItOp::Rest)) && all.iter().any(|o| matches!(o, ItOp::NextBack | ItOp::RevRest))
}

struct MutSink<'c> {
    ctx: &'c mut Ctx,
    inset: Vec<bool>,
    seen: Vec<bool>,
    kind: &'static str,
    path: &'static str,
}

impl<'c> MutSink<'c> {
    fn new(ctx: &'c mut Ctx, mv: &MView, kind: &'static str, path: &'static str) -> Self {
        let inset = ctx.bitset(mv);
        let seen = vec![false; ctx.buf_len];
        MutSink { ctx, inset, seen, kind, path }
    }
    fn claim(&mut self, p: usize, h: &Hist, what: &str) -> R<()> {
        if !self.inset[p] {
            return fail(
                format!("outside-view:{}", self.kind),
                format!("{} yielded {what} at buffer position {p}, not an element of the view being iterated; trace {:?}", self.kind, self.ctx.trace),
            );
        }
        if self.seen[p] {
            return fail(
                format!("alias:{}:{}:{}", self.kind, self.path, h.class()),
                format!(
                    "{} handed out buffer position {p} twice ({what}); two live mutable references/views to one element; history class {}, offsets path {}; trace {:?}",
                    self.kind,
                    h.class(),
                    self.path,
                    self.ctx.trace
                ),
            );
        }
        self.seen[p] = true;
        Ok(())
    }
    fn elem(&mut self, r: &mut u32, h: &Hist) -> R<()> {
        let addr = r as *mut u32 as usize;
        let p = self.ctx.pos_of(addr, self.kind)?;
        self.claim(p, h, "a &mut element")?;
        let v = self.ctx.fresh();
        *r = v; // address verified: inside the buffer, inside the view, not handed out before
        self.ctx.expect[p] = Exp::Val(v);
        self.ctx.mutated("write-through-iterator");
        Ok(())
    }
    fn view<L: Layout + Clone>(&mut self, item: &mut TensorBase<ViewMutData<'_, u32>, L>, h: &Hist) -> R<()> {
        let mv = observe(self.ctx, item, self.kind, Some(&self.inset))?;
        for &p in &mv.pos {
            self.claim(p, h, "a mutable sub-view containing it")?;
        }
        let v = self.ctx.fresh();
        item.fill(v);
        for &p in &mv.pos {
            self.ctx.expect[p] = Exp::Val(v);
        }
        self.ctx.mutated("fill-through-subview");
        Ok(())
    }
}

struct ReadSink<'c> {
    ctx: &'c mut Ctx,
    inset: Vec<bool>,
    pos: Vec<usize>,
    kind: &'static str,
}

impl<'c> ReadSink<'c> {
    fn new(ctx: &'c mut Ctx, mv: &MView, kind: &'static str) -> Self {
        let inset = ctx.bitset(mv);
        ReadSink { ctx, inset, pos: mv.pos.clone(), kind }
    }
    fn elem(&mut self, r: &u32) -> R<()> {
        let p = self.ctx.pos_of(r as *const u32 as usize, self.kind)?;
        if !self.inset[p] {
            return fail(
                format!("outside-view:{}", self.kind),
                format!("{} yielded a reference to buffer position {p}, not an element of the view; trace {:?}", self.kind, self.ctx.trace),
            );
        }
        let v = *r; // verified in-bounds
        if !self.ctx.expect[p].matches(v) {
            return fail("harness:shadow-value".into(), format!("position {p} holds {v}, shadow expects {:?}; trace {:?}", self.ctx.expect[p], self.ctx.trace));
        }
        Ok(())
    }
    fn view<S: rten_tensor::storage::Storage<Elem = u32>, L: Layout + Clone>(&mut self, item: &TensorBase<S, L>) -> R<()> {
        observe(self.ctx, item, self.kind, Some(&self.inset)).map(|_| ())
    }
    /// a value copied out of the view must be the current value of one of its elements
    fn value(&mut self, v: u32) -> R<()> {
        if self.pos.iter().any(|&p| self.ctx.expect[p].matches(v)) {
            Ok(())
        } else {
            fail(
                format!("foreign-value:{}", self.kind),
                format!("{} produced value {v:#x}, which no element of the view holds (read from outside the view?); trace {:?}", self.kind, self.ctx.trace),
            )
        }
    }
}

fn contiguous_path(shape: &[usize], strides: &[usize]) -> &'static str {
    if exact::is_contiguous(shape, strides) {
        "contiguous"
    } else {
        "indexing"
    }
}

fn without(v: &[usize], dim: usize) -> Vec<usize> {
    v.iter().enumerate().filter(|(i, _)| *i != dim).map(|(_, &x)| x).collect()
}

// ---------------------------------------------------------------------------
// interpreter: mutable views
// ---------------------------------------------------------------------------

macro_rules! guarded {
    ($ctx:expr, $op:expr, $valid:expr, $body:expr) => {
        match vcore::catch(|| $body) {
            Ok(r) => r,
            Err(p) => {
                refused($ctx, $op, $valid, p)?;
                continue;
            }
        }
    };
}

/// In-place layout edit (`&mut self`): when the call panics (documented for
/// invalid arguments) the view must be left as it was. A view whose layout was
/// half-edited before the panic can be used afterwards by safe code
/// (catch_unwind, or a destructor running during unwinding).
macro_rules! guarded_edit {
    ($ctx:expr, $op:expr, $valid:expr, $view:expr, $mv:expr, $body:expr) => {
        match vcore::catch(|| $body) {
            Ok(r) => r,
            Err(p) => {
                refused($ctx, $op, $valid, p.clone())?;
                let shape: Vec<usize> = $view.shape().to_vec();
                let strides: Vec<usize> = $view.strides().to_vec();
                if shape != $mv.shape || strides != $mv.strides {
                    let need = exact::required_len(&shape, &strides);
                    return fail(
                        format!("layout-changed-by-panicking-call:{}", $op),
                        format!(
                            "{} panicked ({}) but left the view modified: shape {:?} strides {:?} -> shape {:?} strides {:?} (max offset + 1 = {}, storage len {}); trace {:?}",
                            $op, p.msg, $mv.shape, $mv.strides, shape, strides, need, $mv.slen, $ctx.trace
                        ),
                    );
                }
                continue;
            }
        }
    };
}

pub fn run(ctx: &mut Ctx, mut view: TensorViewMut<'_, u32>, mut mv: MView, steps: &[Step]) -> R<()> {
    for (si, step) in steps.iter().enumerate() {
        let rest = &steps[si + 1..];
        if !exact::is_contiguous(&mv.shape, &mv.strides) && mv.pos.len() > 1 {
            ctx.saw_noncontig = true;
        }
        let nd = mv.shape.len();
        ctx.trace.push(format!("{step:?} on shape {:?} strides {:?}", mv.shape, mv.strides));
        let inset = ctx.bitset(&mv);
        match step {
            // ---------------- narrowing ----------------
            Step::SliceMut(specs) => {
                let (items, valid) = slice_items(specs, &mv.shape);
                let sub = guarded!(ctx, "slice_mut", valid, view.try_slice_mut(items.as_slice()));
                match sub {
                    Ok(sub) => {
                        let smv = observe(ctx, &sub, "slice_mut", Some(&inset))?;
                        ctx.label("slice_mut");
                        return run(ctx, sub, smv, rest);
                    }
                    Err(_) => ctx.label("slice-refused"),
                }
            }
            Step::SliceAxisMut { axis, start, len } => {
                let (ax, ok) = axis_sel(*axis, nd);
                let n = mv.shape.get(ax).copied().unwrap_or(0);
                let s = sel(*start, n + 1);
                let e = s + sel(*len, n - s + 1);
                let sub = guarded!(ctx, "slice_axis_mut", ok, view.slice_axis_mut(ax, s..e));
                let smv = observe(ctx, &sub, "slice_axis_mut", Some(&inset))?;
                return run(ctx, sub, smv, rest);
            }
            Step::PermutedMut(k) => {
                let perm = nth_permutation(nd, pick(*k, factorial(nd)));
                let sub = guarded!(ctx, "permuted_mut", true, view.permuted_mut(&perm));
                let smv = observe(ctx, &sub, "permuted_mut", Some(&inset))?;
                ctx.label("permuted_mut");
                return run(ctx, sub, smv, rest);
            }
            Step::IndexAxisMut { axis, index } => {
                let (ax, ok1) = axis_sel(*axis, nd);
                let (ix, ok2) = idx_sel(*index, mv.shape.get(ax).copied().unwrap_or(0));
                let sub = guarded!(ctx, "index_axis_mut", ok1 && ok2, view.index_axis_mut(ax, ix));
                let smv = observe(ctx, &sub, "index_axis_mut", Some(&inset))?;
                ctx.label("index_axis_mut");
                return run(ctx, sub, smv, rest);
            }
            Step::SplitAtMut { axis, mid, right } => {
                let (ax, ok) = axis_sel(*axis, nd);
                let n = mv.shape.get(ax).copied().unwrap_or(0);
                let m = if *mid >= 250 { n + 1 } else { sel(*mid, n + 1) };
                let valid = ok && m <= n;
                // split_at_mut consumes the view; on a (documented) panic there is nothing to continue with
                let (l, r) = match vcore::catch(move || view.split_at_mut(ax, m)) {
                    Ok(x) => x,
                    Err(p) => {
                        refused(ctx, "split_at_mut", valid, p)?;
                        return Ok(());
                    }
                };
                let lmv = observe(ctx, &l, "split_at_mut", Some(&inset))?;
                let rmv = observe(ctx, &r, "split_at_mut", Some(&inset))?;
                let lset = ctx.bitset(&lmv);
                if let Some(&p) = rmv.pos.iter().find(|&&p| lset[p]) {
                    return fail(
                        "alias:split_at_mut".into(),
                        format!("both halves of split_at_mut({ax}, {m}) contain buffer position {p}; left {:?}/{:?} right {:?}/{:?}; trace {:?}", lmv.shape, lmv.strides, rmv.shape, rmv.strides, ctx.trace),
                    );
                }
                ctx.label("split_at_mut");
                // keep both halves alive: run the rest on one, then write through the other
                let (mut keep, keep_mv, go, go_mv) = if *right { (l, lmv, r, rmv) } else { (r, rmv, l, lmv) };
                run(ctx, go, go_mv, rest)?;
                let v = ctx.fresh();
                keep.fill(v);
                for &p in &keep_mv.pos {
                    ctx.expect[p] = Exp::Val(v);
                }
                ctx.mutated("fill-sibling-half");
                return Ok(());
            }
            Step::ReshapedMut(k) => {
                let count: usize = mv.shape.iter().product();
                let new_shape: Vec<usize> = match k % 4 {
                    0 => vec![count],
                    1 => vec![1, count],
                    2 => match (2..=count).find(|d| count % d == 0) {
                        Some(d) => vec![d, count / d],
                        None => vec![count, 1],
                    },
                    _ => vec![count + 1], // wrong element count: must be refused
                };
                let valid = k % 4 != 3;
                let sub = guarded!(ctx, "reshaped_mut", valid, view.reshaped_mut(new_shape.as_slice()));
                match sub {
                    Ok(sub) => {
                        let smv = observe(ctx, &sub, "reshaped_mut", Some(&inset))?;
                        ctx.label("reshaped_mut");
                        return run(ctx, sub, smv, rest);
                    }
                    Err(_) => ctx.label("reshape-refused"),
                }
            }
            // ---------------- in-place layout edits ----------------
            Step::Transpose => {
                guarded_edit!(ctx, "transpose", true, view, mv, view.transpose());
                mv = observe(ctx, &view, "transpose", Some(&inset))?;
            }
            Step::MoveAxis(a, b) => {
                let (a, ok1) = axis_sel(*a, nd);
                let (b, ok2) = axis_sel(*b, nd);
                guarded_edit!(ctx, "move_axis", ok1 && ok2, view, mv, view.move_axis(a, b));
                mv = observe(ctx, &view, "move_axis", Some(&inset))?;
            }
            Step::InsertAxis(a) => {
                if nd >= 6 {
                    continue;
                }
                let at = sel(*a, nd + 1);
                guarded_edit!(ctx, "insert_axis", true, view, mv, view.insert_axis(at));
                mv = observe(ctx, &view, "insert_axis", Some(&inset))?;
            }
            Step::RemoveAxis(a) => {
                let (ax, ok) = axis_sel(*a, nd);
                let valid = ok && mv.shape[ax] == 1;
                guarded_edit!(ctx, "remove_axis", valid, view, mv, view.remove_axis(ax));
                mv = observe(ctx, &view, "remove_axis", Some(&inset))?;
            }
            Step::MergeAxes => {
                guarded_edit!(ctx, "merge_axes", true, view, mv, view.merge_axes());
                mv = observe(ctx, &view, "merge_axes", Some(&inset))?;
            }
            // ---------------- mutable iteration ----------------
            Step::IterMut(ops) => {
                let path = contiguous_path(&mv.shape, &mv.strides);
                if both_ends(ops) {
                    ctx.saw_mut_both_ends = true;
                }
                let mut sink = MutSink::new(ctx, &mv, "iter_mut", path);
                let mut h = Hist::default();
                let r = vcore::catch(|| drive_sp(view.iter_mut(), ops, &mut h, |r, h| sink.elem(r, h)));
                match r {
                    Ok(r) => r?,
                    Err(p) => refused(ctx, "iter_mut", true, p)?,
                }
                ctx.label("iter_mut");
            }
            Step::LanesMut { dim, ops, lane_ops } => {
                let (d, ok) = axis_sel(*dim, nd);
                let path = if ok { contiguous_path(&without(&mv.shape, d), &without(&mv.strides, d)) } else { "indexing" };
                if both_ends(ops) {
                    ctx.saw_mut_both_ends = true;
                }
                let mut sink = MutSink::new(ctx, &mv, "lanes_mut", path);
                let mut h = Hist::default();
                let r = vcore::catch(|| {
                    drive_sp(view.lanes_mut(d), ops, &mut h, |lane, h| {
                        let mut lh = Hist::default();
                        let hh = *h;
                        drive(lane, lane_ops, &mut lh, |r, _| sink.elem(r, &hh))
                    })
                });
                match r {
                    Ok(r) => r?,
                    // refuses views with any zero stride (conservative is_broadcast test): documented
                    Err(p) => refused(ctx, "lanes_mut", ok && !mv.strides.contains(&0), p)?,
                }
                ctx.label("lanes_mut");
            }
            Step::InnerIterMut { n, ops } => {
                let k = if *n >= 250 { nd + 1 } else { sel(*n, nd + 1) };
                let valid = k <= nd;
                let outer = nd.saturating_sub(k);
                let path = if valid { contiguous_path(&mv.shape[..outer], &mv.strides[..outer]) } else { "indexing" };
                if both_ends(ops) {
                    ctx.saw_mut_both_ends = true;
                }
                let mut sink = MutSink::new(ctx, &mv, "inner_iter_mut", path);
                let mut h = Hist::default();
                let r = vcore::catch(|| drive_sp(view.inner_iter_dyn_mut(k), ops, &mut h, |mut item, h| sink.view(&mut item, h)));
                match r {
                    Ok(r) => r?,
                    Err(p) => refused(ctx, "inner_iter_mut", valid, p)?,
                }
                ctx.label("inner_iter_mut");
            }
            Step::AxisIterMut { dim, ops } => {
                let (d, ok) = axis_sel(*dim, nd);
                let mut sink = MutSink::new(ctx, &mv, "axis_iter_mut", "index");
                let mut h = Hist::default();
                let r = vcore::catch(|| drive_sp(view.axis_iter_mut(d), ops, &mut h, |mut item, h| sink.view(&mut item, h)));
                match r {
                    Ok(r) => r?,
                    // refuses views with any zero stride (conservative is_broadcast test): documented
                    Err(p) => refused(ctx, "axis_iter_mut", ok && !mv.strides.contains(&0), p)?,
                }
                ctx.label("axis_iter_mut");
            }
            Step::AxisChunksMut { dim, chunk, ops } => {
                let (d, ok) = axis_sel(*dim, nd);
                let c = (*chunk % 5) as usize;
                let mut sink = MutSink::new(ctx, &mv, "axis_chunks_mut", "split");
                let mut h = Hist::default();
                let r = vcore::catch(|| drive_sp(view.axis_chunks_mut(d, c), ops, &mut h, |mut item, h| sink.view(&mut item, h)));
                match r {
                    Ok(r) => r?,
                    Err(p) => refused(ctx, "axis_chunks_mut", ok && c > 0 && !mv.strides.contains(&0), p)?,
                }
                ctx.label("axis_chunks_mut");
            }
            // ---------------- element access ----------------
            Step::GetMut(spec) => {
                let (idx, valid) = index_vec(spec, &mv.shape);
                let got = guarded!(ctx, "get_mut", true, view.get_mut(idx.as_slice()).map(|r| r as *mut u32 as usize));
                check_elem_addr(ctx, &mv, &inset, "get_mut", &idx, valid, got)?;
            }
            Step::IndexMut(spec) => {
                let (idx, valid) = index_vec(spec, &mv.shape);
                let got = guarded!(ctx, "index_mut", valid, Some(&mut view[idx.as_slice()] as *mut u32 as usize));
                check_elem_addr(ctx, &mv, &inset, "index_mut", &idx, valid, got)?;
            }
            Step::WeakIndexMut(spec) => {
                // per-dimension bounds are *not* checked by design; the offset is.
                let (idx, valid) = index_vec(spec, &mv.shape);
                if idx.len() != nd {
                    continue;
                }
                let got = guarded!(ctx, "weak_index_mut", valid, {
                    let mut w = view.weakly_checked_view_mut();
                    Some(&mut w[idx.as_slice()] as *mut u32 as usize)
                });
                if let Some(addr) = got {
                    let p = ctx.pos_of(addr, "weak_index_mut")?;
                    if p < mv.base || p >= mv.base + mv.slen {
                        return fail(
                            "oob-reference:weak_index_mut".into(),
                            format!("weakly checked index {idx:?} returned position {p} outside the view's storage [{}, {}); trace {:?}", mv.base, mv.base + mv.slen, ctx.trace),
                        );
                    }
                    if valid {
                        let want = mv.base + exact::offset(&idx, &mv.strides).unwrap() as usize;
                        if p != want {
                            return fail("wrong-address:weak_index_mut".into(), format!("index {idx:?}: got position {p}, expected {want}; trace {:?}", ctx.trace));
                        }
                    }
                }
            }
            // ---------------- bulk mutation ----------------
            Step::Fill => {
                let v = ctx.fresh();
                guarded!(ctx, "fill", true, view.fill(v));
                for &p in &mv.pos {
                    ctx.expect[p] = Exp::Val(v);
                }
                ctx.mutated("fill");
            }
            Step::Apply => {
                guarded!(ctx, "apply", true, view.apply(|x| x.wrapping_add(DELTA)));
                for &p in &mv.pos {
                    ctx.expect[p] = match ctx.expect[p] {
                        Exp::Val(v) => Exp::Val(v.wrapping_add(DELTA)),
                        Exp::Range(a, b) => Exp::Range(a + DELTA, b + DELTA),
                    };
                }
                ctx.mutated("apply");
            }
            Step::CopyFrom { layout } => {
                let count = mv.pos.len();
                ctx.src_seq += 1;
                let lo = (1u32 << 20) + ctx.src_seq * 1024;
                let hi = lo + count as u32;
                let shape = mv.shape.clone();
                match layout % 3 {
                    0 => {
                        let src = Tensor::<u32>::from_data(&shape, (lo..hi).collect::<Vec<u32>>());
                        guarded!(ctx, "copy_from", true, view.copy_from(&src.view()));
                    }
                    1 => {
                        let rev: Vec<usize> = shape.iter().rev().copied().collect();
                        let src = Tensor::<u32>::from_data(&rev, (lo..hi).collect::<Vec<u32>>());
                        guarded!(ctx, "copy_from", true, view.copy_from(&src.transposed()));
                        ctx.label("copy_from-transposed-src");
                    }
                    _ => {
                        // every other element of the source buffer is poison
                        let cs: Vec<usize> = exact::contiguous_strides(&shape).iter().map(|&s| s as usize * 2).collect();
                        let need = exact::required_len(&shape, &cs) as usize;
                        let data: Vec<u32> = (0..need).map(|i| if i % 2 == 0 { lo + (i / 2) as u32 } else { POISON + i as u32 }).collect();
                        let src = TensorView::<u32>::from_slice_with_strides(&shape, &data, &cs).expect("strided source");
                        guarded!(ctx, "copy_from", true, view.copy_from(&src));
                        ctx.label("copy_from-strided-src");
                    }
                }
                for &p in &mv.pos {
                    ctx.expect[p] = Exp::Range(lo, hi);
                }
                ctx.mutated("copy_from");
            }
            // ---------------- static-rank paths ----------------
            Step::Nd(op) => {
                let r = match nd {
                    1 => nd_op::<1>(ctx, &mut view, &mv, op),
                    2 => nd_op::<2>(ctx, &mut view, &mv, op),
                    3 => nd_op::<3>(ctx, &mut view, &mv, op),
                    4 => nd_op::<4>(ctx, &mut view, &mv, op),
                    _ => Ok(()),
                };
                r?;
            }
            // ---------------- read-only detour ----------------
            Step::Read { pre, obs } => {
                read_prog(ctx, view.view(), &mv, pre, obs)?;
            }
        }
    }
    Ok(())
}

fn check_elem_addr(ctx: &mut Ctx, mv: &MView, inset: &[bool], op: &str, idx: &[usize], valid: bool, got: Option<usize>) -> R<()> {
    match got {
        Some(addr) => {
            let p = ctx.pos_of(addr, op)?;
            if !valid {
                if !inset[p] {
                    return fail(
                        format!("outside-view:{op}"),
                        format!("{op}({idx:?}) on shape {:?} (invalid index) returned buffer position {p}, not an element of the view; trace {:?}", mv.shape, ctx.trace),
                    );
                }
                ctx.label("invalid-index-accepted-but-in-view");
                return Ok(());
            }
            let want = mv.base + exact::offset(idx, &mv.strides).unwrap() as usize;
            if p != want {
                return fail(
                    format!("wrong-address:{op}"),
                    format!("{op}({idx:?}) returned buffer position {p}, expected base {} + offset = {want}; shape {:?} strides {:?}; trace {:?}", mv.base, mv.shape, mv.strides, ctx.trace),
                );
            }
            ctx.label("element-access");
            Ok(())
        }
        None => Ok(()),
    }
}


// ---------------------------------------------------------------------------
// get_array / set_array / to_array / assign_array
// ---------------------------------------------------------------------------

struct ArrayPlan {
    base: Vec<usize>,
    dim: usize,
    m: usize,
    /// the request is valid for the view's shape
    in_bounds: bool,
    /// buffer positions of the M addressed elements (computed from the raw
    /// request, valid or not), when all of them lie inside the root storage
    pos: Option<Vec<usize>>,
}

/// Decide *before calling* where the M accesses of an array request would land.
fn plan_array(ctx: &Ctx, mv: &MView, m: u8, dim: u8, at: u8, base_spec: &[u8]) -> ArrayPlan {
    let n = mv.shape.len();
    let m = (m % 4) as usize + 1;
    let (d, okd) = axis_sel(dim, n);
    let mut base = Vec::with_capacity(n);
    let mut ok = okd;
    for k in 0..n {
        let len = mv.shape[k];
        if okd && k == d {
            let b = match at {
                0 => 0i128,
                1 => len as i128 - m as i128,
                2 => len as i128 - m as i128 + 1,
                3 => len as i128 - m as i128 + 2,
                _ => {
                    if len == 0 {
                        0
                    } else {
                        sel(at, len) as i128
                    }
                }
            }
            .max(0) as usize;
            base.push(b);
            ok &= b + m <= len;
        } else {
            let (i, v) = idx_sel(base_spec.get(k).copied().unwrap_or(0), len);
            ok &= v;
            base.push(i);
        }
    }
    let pos = if okd {
        let start = exact::offset(&base, &mv.strides).unwrap_or(u128::MAX);
        let mut v = Vec::with_capacity(m);
        for i in 0..m as u128 {
            let o = start.saturating_add(i.saturating_mul(mv.strides[d] as u128));
            let p = (mv.base as u128).saturating_add(o);
            if p >= ctx.region.1 as u128 {
                v.clear();
                break;
            }
            v.push(p as usize);
        }
        (v.len() == m).then_some(v)
    } else {
        // `base[dim]` on a fixed-size array panics before anything is accessed
        Some(Vec::new())
    };
    ArrayPlan { base, dim: d, m, in_bounds: ok, pos }
}

/// Judge the outcome of a get-style request.
fn judge_get(ctx: &mut Ctx, op: &'static str, plan: &ArrayPlan, got: Result<Vec<u32>, vcore::PanicInfo>) -> R<()> {
    match got {
        Ok(vals) => {
            if !plan.in_bounds {
                return fail(
                    format!("array-accepts-out-of-range:{op}"),
                    format!("{op}::<{}>(base {:?}, dim {}) returned {vals:?} although the request leaves the shape; trace {:?}", plan.m, plan.base, plan.dim, ctx.trace),
                );
            }
            let pos = plan.pos.as_ref().unwrap();
            for (i, v) in vals.iter().enumerate() {
                if !ctx.expect[pos[i]].matches(*v) {
                    return fail(
                        format!("wrong-element:{op}"),
                        format!("{op}::<{}>(base {:?}, dim {}) element {i} is {v:#x}; buffer position {} holds {:?}; trace {:?}", plan.m, plan.base, plan.dim, pos[i], ctx.expect[pos[i]], ctx.trace),
                    );
                }
            }
            ctx.label("array-access");
            Ok(())
        }
        Err(p) => {
            if !plan.in_bounds {
                ctx.label("array-out-of-range-refused");
            }
            refused(ctx, op, plan.in_bounds, p)
        }
    }
}

fn judge_set(ctx: &mut Ctx, op: &'static str, plan: &ArrayPlan, vals: &[u32], res: Result<(), vcore::PanicInfo>) -> R<()> {
    match res {
        Ok(()) => {
            if !plan.in_bounds {
                return fail(
                    format!("array-accepts-out-of-range:{op}"),
                    format!("{op}::<{}>(base {:?}, dim {}) wrote although the request leaves the shape; trace {:?}", plan.m, plan.base, plan.dim, ctx.trace),
                );
            }
            let pos = plan.pos.as_ref().unwrap();
            for (i, &p) in pos.iter().enumerate() {
                ctx.expect[p] = Exp::Val(vals[i]);
            }
            ctx.mutated(op);
            ctx.label("array-access");
            Ok(())
        }
        Err(p) => refused(ctx, op, plan.in_bounds, p),
    }
}

macro_rules! with_m {
    ($m:expr, $M:ident, $body:expr) => {
        match $m {
            1 => { const $M: usize = 1; $body }
            2 => { const $M: usize = 2; $body }
            3 => { const $M: usize = 3; $body }
            _ => { const $M: usize = 4; $body }
        }
    };
}

fn array_nd<const N: usize>(ctx: &mut Ctx, view: &mut TensorViewMut<'_, u32>, mv: &MView, write: bool, m: u8, dim: u8, at: u8, base: &[u8]) -> R<()> {
    let plan = plan_array(ctx, mv, m, dim, at, base);
    if plan.pos.is_none() {
        // a broken bounds check would make rten touch memory outside the root storage: do not call
        ctx.label("array-probe-skipped(would leave the storage)");
        return Ok(());
    }
    let arr: [usize; N] = plan.base.as_slice().try_into().unwrap();
    let d = plan.dim;
    if write {
        let vals: Vec<u32> = (0..plan.m).map(|_| ctx.fresh()).collect();
        let res = with_m!(plan.m, M, {
            let a: [u32; M] = vals.as_slice().try_into().unwrap();
            vcore::catch(|| view.nd_view_mut::<N>().set_array::<M>(arr, d, a))
        });
        judge_set(ctx, "set_array", &plan, &vals, res)
    } else {
        let got = with_m!(plan.m, M, vcore::catch(|| view.nd_view_mut::<N>().get_array::<M>(arr, d).to_vec()));
        judge_get(ctx, "get_array", &plan, got)
    }
}

/// rank 1: to_array / assign_array (== get_array([0], 0) / set_array([0], 0, ..)).
fn array_whole(ctx: &mut Ctx, view: &mut TensorViewMut<'_, u32>, mv: &MView, write: bool, m: u8) -> R<()> {
    let plan = plan_array(ctx, mv, m, 0, 0, &[]);
    if plan.pos.is_none() {
        ctx.label("array-probe-skipped(would leave the storage)");
        return Ok(());
    }
    if plan.in_bounds && mv.shape[0] != plan.m {
        ctx.label("to_array-accepts-longer-vector(doc says panic; memory safe)");
    }
    if write {
        let vals: Vec<u32> = (0..plan.m).map(|_| ctx.fresh()).collect();
        let res = with_m!(plan.m, M, {
            let a: [u32; M] = vals.as_slice().try_into().unwrap();
            vcore::catch(|| view.nd_view_mut::<1>().assign_array::<M>(a))
        });
        judge_set(ctx, "assign_array", &plan, &vals, res)
    } else {
        let got = with_m!(plan.m, M, vcore::catch(|| view.nd_view_mut::<1>().to_array::<M>().to_vec()));
        judge_get(ctx, "to_array", &plan, got)
    }
}

fn read_array<const N: usize>(ctx: &mut Ctx, v: &TensorView<'_, u32>, mv: &MView, whole: bool, m: u8, dim: u8, at: u8, base: &[u8]) -> R<()> {
    let plan = if whole && N == 1 { plan_array(ctx, mv, m, 0, 0, &[]) } else { plan_array(ctx, mv, m, dim, at, base) };
    if plan.pos.is_none() {
        ctx.label("array-probe-skipped(would leave the storage)");
        return Ok(());
    }
    let arr: [usize; N] = plan.base.as_slice().try_into().unwrap();
    let d = plan.dim;
    let got = with_m!(plan.m, M, vcore::catch(|| v.nd_view::<N>().get_array::<M>(arr, d).to_vec()));
    judge_get(ctx, "get_array", &plan, got)
}

// ---------------------------------------------------------------------------
// static-rank operations
// ---------------------------------------------------------------------------

fn nd_op<const N: usize>(ctx: &mut Ctx, view: &mut TensorViewMut<'_, u32>, mv: &MView, op: &NdOp) -> R<()>
where
    NdLayout<N>: RemoveDim + MutLayout,
{
    let shape = &mv.shape;
    let inset = ctx.bitset(mv);
    macro_rules! g {
        ($name:expr, $valid:expr, $body:expr) => {
            match vcore::catch(|| $body) {
                Ok(r) => r,
                Err(p) => return refused(ctx, $name, $valid, p),
            }
        };
    }
    ctx.label("static-rank-path");
    match op {
        NdOp::InnerIterMut { k, ops } => {
            let k = (*k % 4) as usize;
            let valid = k <= N;
            let outer = N.saturating_sub(k);
            let path = if valid { contiguous_path(&mv.shape[..outer], &mv.strides[..outer]) } else { "indexing" };
            if both_ends(ops) {
                ctx.saw_mut_both_ends = true;
            }
            let mut sink = MutSink::new(ctx, mv, "inner_iter_mut", path);
            let mut h = Hist::default();
            let r = vcore::catch(|| {
                let mut ndv = view.nd_view_mut::<N>();
                match k {
                    0 => drive_sp(ndv.inner_iter_mut::<0>(), ops, &mut h, |mut it, h| sink.view(&mut it, h)),
                    1 => drive_sp(ndv.inner_iter_mut::<1>(), ops, &mut h, |mut it, h| sink.view(&mut it, h)),
                    2 => drive_sp(ndv.inner_iter_mut::<2>(), ops, &mut h, |mut it, h| sink.view(&mut it, h)),
                    _ => drive_sp(ndv.inner_iter_mut::<3>(), ops, &mut h, |mut it, h| sink.view(&mut it, h)),
                }
            });
            match r {
                Ok(r) => r,
                Err(p) => refused(ctx, "inner_iter_mut", valid, p),
            }
        }
        NdOp::AxisIterMut { dim, ops } => {
            let (d, ok) = axis_sel(*dim, N);
            let mut sink = MutSink::new(ctx, mv, "axis_iter_mut", "index");
            let mut h = Hist::default();
            let r = vcore::catch(|| {
                let mut ndv = view.nd_view_mut::<N>();
                drive_sp(ndv.axis_iter_mut(d), ops, &mut h, |mut it, h| sink.view(&mut it, h))
            });
            match r {
                Ok(r) => r,
                Err(p) => refused(ctx, "axis_iter_mut", ok && !mv.strides.contains(&0), p),
            }
        }
        NdOp::LanesMut { dim, ops, lane_ops } => {
            let (d, ok) = axis_sel(*dim, N);
            let path = if ok { contiguous_path(&without(&mv.shape, d), &without(&mv.strides, d)) } else { "indexing" };
            if both_ends(ops) {
                ctx.saw_mut_both_ends = true;
            }
            let mut sink = MutSink::new(ctx, mv, "lanes_mut", path);
            let mut h = Hist::default();
            let r = vcore::catch(|| {
                let mut ndv = view.nd_view_mut::<N>();
                drive_sp(ndv.lanes_mut(d), ops, &mut h, |lane, h| {
                    let mut lh = Hist::default();
                    let hh = *h;
                    drive(lane, lane_ops, &mut lh, |r, _| sink.elem(r, &hh))
                })
            });
            match r {
                Ok(r) => r,
                Err(p) => refused(ctx, "lanes_mut", ok && !mv.strides.contains(&0), p),
            }
        }
        NdOp::AxisChunksMut { dim, chunk, ops } => {
            let (d, ok) = axis_sel(*dim, N);
            let c = (*chunk % 5) as usize;
            let mut sink = MutSink::new(ctx, mv, "axis_chunks_mut", "split");
            let mut h = Hist::default();
            let r = vcore::catch(|| {
                let mut ndv = view.nd_view_mut::<N>();
                drive_sp(ndv.axis_chunks_mut(d, c), ops, &mut h, |mut it, h| sink.view(&mut it, h))
            });
            match r {
                Ok(r) => r,
                Err(p) => refused(ctx, "axis_chunks_mut", ok && c > 0 && !mv.strides.contains(&0), p),
            }
        }
        NdOp::SplitAtMut { axis, mid } => {
            let (ax, ok) = axis_sel(*axis, N);
            let n = shape.get(ax).copied().unwrap_or(0);
            let m = if *mid >= 250 { n + 1 } else { sel(*mid, n + 1) };
            let (mut l, mut r) = g!("split_at_mut", ok && m <= n, view.nd_view_mut::<N>().split_at_mut(ax, m));
            let lmv = observe(ctx, &l, "split_at_mut", Some(&inset))?;
            let rmv = observe(ctx, &r, "split_at_mut", Some(&inset))?;
            let lset = ctx.bitset(&lmv);
            if let Some(&p) = rmv.pos.iter().find(|&&p| lset[p]) {
                return fail("alias:split_at_mut".into(), format!("static-rank split_at_mut({ax}, {m}): both halves contain buffer position {p}; trace {:?}", ctx.trace));
            }
            for (half, hmv) in [(&mut l, &lmv), (&mut r, &rmv)] {
                let v = ctx.fresh();
                half.fill(v);
                for &p in &hmv.pos {
                    ctx.expect[p] = Exp::Val(v);
                }
            }
            ctx.mutated("fill-split-halves");
            Ok(())
        }
        NdOp::IndexAxisMut { axis, index } => {
            let (ax, ok1) = axis_sel(*axis, N);
            let (ix, ok2) = idx_sel(*index, shape.get(ax).copied().unwrap_or(0));
            let mut ndv = g!("nd_view_mut", true, view.nd_view_mut::<N>());
            let mut sub = g!("index_axis_mut", ok1 && ok2, ndv.index_axis_mut(ax, ix));
            let smv = observe(ctx, &sub, "index_axis_mut", Some(&inset))?;
            let v = ctx.fresh();
            sub.fill(v);
            for &p in &smv.pos {
                ctx.expect[p] = Exp::Val(v);
            }
            ctx.mutated("fill-index_axis_mut");
            Ok(())
        }
        NdOp::GetMut(spec) => {
            let (idx, valid) = index_vec(spec, shape);
            if idx.len() != N {
                return Ok(());
            }
            let arr: [usize; N] = idx.as_slice().try_into().unwrap();
            let got = g!("get_mut", true, view.nd_view_mut::<N>().get_mut(arr).map(|r| r as *mut u32 as usize));
            check_elem_addr(ctx, mv, &inset, "get_mut", &idx, valid, got)
        }
        NdOp::SliceFirst { start, len } => {
            let n = shape[0];
            let s = sel(*start, n + 1);
            let e = s + sel(*len, n - s + 1);
            let mut ndv = g!("nd_view_mut", true, view.nd_view_mut::<N>());
            let mut sub = g!("slice_mut", true, ndv.slice_mut((s..e,)));
            let smv = observe(ctx, &sub, "slice_mut", Some(&inset))?;
            let v = ctx.fresh();
            sub.fill(v);
            for &p in &smv.pos {
                ctx.expect[p] = Exp::Val(v);
            }
            ctx.mutated("fill-typed-slice");
            Ok(())
        }
        NdOp::Slice2 { form, i, j, start, len } => {
            if N != 2 {
                return Ok(());
            }
            slice2(ctx, view, mv, *form, *i, *j, *start, *len)
        }
        NdOp::Array { write, whole, m, dim, at, base } => {
            if *whole && N == 1 {
                array_whole(ctx, view, mv, *write, *m)
            } else {
                array_nd::<N>(ctx, view, mv, *write, *m, *dim, *at, base)
            }
        }
    }
}

fn slice2(ctx: &mut Ctx, view: &mut TensorViewMut<'_, u32>, mv: &MView, form: u8, i: u8, j: u8, start: u8, len: u8) -> R<()> {
    let inset = ctx.bitset(mv);
    let (n0, n1) = (mv.shape[0], mv.shape[1]);
    let (i0, ok0) = idx_sel(i, n0);
    let (j1, ok1) = idx_sel(j, n1);
    macro_rules! done {
        ($valid:expr, $ndv:ident, $e:expr) => {{
            let r = vcore::catch(|| {
                let mut $ndv = view.nd_view_mut::<2>();
                let mut sub = $e;
                let smv = observe(ctx, &sub, "slice_mut", Some(&inset))?;
                let v = ctx.fresh();
                sub.fill(v);
                for &p in &smv.pos {
                    ctx.expect[p] = Exp::Val(v);
                }
                ctx.mutated("fill-typed-slice");
                Ok(())
            });
            match r {
                Ok(r) => r,
                Err(p) => refused(ctx, "slice_mut", $valid, p),
            }
        }};
    }
    match form % 3 {
        0 => {
            let s = sel(start, n1 + 1);
            let e = s + sel(len, n1 - s + 1);
            done!(ok0, ndv, ndv.slice_mut((i0, s..e)))
        }
        1 => {
            let s = sel(start, n0 + 1);
            let e = s + sel(len, n0 - s + 1);
            done!(ok1, ndv, ndv.slice_mut((s..e, j1)))
        }
        _ => done!(ok0 && ok1, ndv, ndv.slice_mut((i0, j1))),
    }
}

// ---------------------------------------------------------------------------
// read-only programs (may broadcast)
// ---------------------------------------------------------------------------

fn read_prog<'a>(ctx: &mut Ctx, mut v: TensorView<'a, u32>, mv0: &MView, pre: &[RStep], obs: &RObs) -> R<()> {
    let mut mv = mv0.clone();
    for st in pre {
        let nd = mv.shape.len();
        let inset = ctx.bitset(&mv);
        ctx.trace.push(format!("read:{st:?} on shape {:?} strides {:?}", mv.shape, mv.strides));
        macro_rules! g {
            ($name:expr, $valid:expr, $body:expr) => {
                match vcore::catch(|| $body) {
                    Ok(r) => r,
                    Err(p) => {
                        refused(ctx, $name, $valid, p)?;
                        continue;
                    }
                }
            };
        }
        let next: TensorView<'a, u32> = match st {
            RStep::Broadcast { lead, expand } => {
                let mut target: Vec<usize> = lead.iter().take(2).map(|&b| (b % 3) as usize + 1).collect();
                let e = (*expand % 4) as usize;
                for &n in &mv.shape {
                    target.push(if n == 1 { e } else { n });
                }
                if exact::elem_count(&target) > 4096 || target.len() > 6 {
                    continue;
                }
                match g!("broadcast", true, v.try_broadcast(target.as_slice())) {
                    Ok(b) => {
                        ctx.label("broadcast");
                        b
                    }
                    Err(_) => continue,
                }
            }
            RStep::Slice(specs) => {
                let (items, valid) = slice_items(specs, &mv.shape);
                match g!("slice", valid, v.try_slice_dyn(items.as_slice())) {
                    Ok(s) => s,
                    Err(_) => continue,
                }
            }
            RStep::Permuted(k) => {
                let perm = nth_permutation(nd, pick(*k, factorial(nd)));
                g!("permuted", true, v.permuted(&perm))
            }
            RStep::Transposed => g!("transposed", true, v.transposed()),
            RStep::IndexAxis { axis, index } => {
                let (ax, ok1) = axis_sel(*axis, nd);
                let (ix, ok2) = idx_sel(*index, mv.shape.get(ax).copied().unwrap_or(0));
                g!("index_axis", ok1 && ok2, v.index_axis(ax, ix))
            }
            RStep::SliceAxis { axis, start, len } => {
                let (ax, ok) = axis_sel(*axis, nd);
                let n = mv.shape.get(ax).copied().unwrap_or(0);
                let s = sel(*start, n + 1);
                let e = s + sel(*len, n - s + 1);
                g!("slice_axis", ok, v.slice_axis(ax, s..e))
            }
            RStep::SplitAt { axis, mid, right } => {
                let (ax, ok) = axis_sel(*axis, nd);
                let n = mv.shape.get(ax).copied().unwrap_or(0);
                let m = if *mid >= 250 { n + 1 } else { sel(*mid, n + 1) };
                let (l, r) = g!("split_at", ok && m <= n, v.split_at(ax, m));
                observe(ctx, &l, "split_at", Some(&inset))?;
                observe(ctx, &r, "split_at", Some(&inset))?;
                if *right {
                    r
                } else {
                    l
                }
            }
            RStep::Squeezed => g!("squeezed", true, v.squeezed()),
        };
        mv = observe(ctx, &next, "read-view", Some(&inset))?;
        v = next;
    }
    let nd = mv.shape.len();
    ctx.trace.push(format!("read:{obs:?} on shape {:?} strides {:?}", mv.shape, mv.strides));
    let valid_all = true;
    let mut sink = ReadSink::new(ctx, &mv, "read");
    let count = mv.pos.len();
    macro_rules! fin {
        ($name:expr, $valid:expr, $body:expr) => {{
            sink.kind = $name;
            let r = vcore::catch(|| $body);
            match r {
                Ok(r) => r,
                Err(p) => {
                    drop(sink);
                    refused(ctx, $name, $valid, p).map(|_| Default::default())
                }
            }
        }};
    }
    let mut h = Hist::default();
    match obs {
        RObs::Iter(ops) => fin!("iter", valid_all, drive_sp(v.iter(), ops, &mut h, |r, _| sink.elem(r))),
        RObs::Lanes { dim, ops, lane_ops } => {
            let (d, ok) = axis_sel(*dim, nd);
            fin!("lanes", ok, drive_sp(v.lanes(d), ops, &mut h, |lane, _| {
                let mut lh = Hist::default();
                drive(lane, lane_ops, &mut lh, |r, _| sink.elem(r))
            }))
        }
        RObs::InnerIter { n, ops } => {
            let k = if *n >= 250 { nd + 1 } else { sel(*n, nd + 1) };
            fin!("inner_iter", k <= nd, drive_sp(v.inner_iter_dyn(k), ops, &mut h, |item, _| sink.view(&item)))
        }
        RObs::AxisIter { dim, ops } => {
            let (d, ok) = axis_sel(*dim, nd);
            fin!("axis_iter", ok, drive_sp(v.axis_iter(d), ops, &mut h, |item, _| sink.view(&item)))
        }
        RObs::AxisChunks { dim, chunk, ops } => {
            let (d, ok) = axis_sel(*dim, nd);
            let c = (*chunk % 5) as usize;
            fin!("axis_chunks", ok && c > 0, drive_sp(v.axis_chunks(d, c), ops, &mut h, |item, _| sink.view(&item)))
        }
        RObs::Get(spec) | RObs::Index(spec) => {
            let (idx, valid) = index_vec(spec, &mv.shape);
            let is_get = matches!(obs, RObs::Get(_));
            let name = if is_get { "get" } else { "index" };
            let got = fin!(name, is_get || valid, Ok(if is_get { v.get(idx.as_slice()).map(|r| r as *const u32 as usize) } else { Some(&v[idx.as_slice()] as *const u32 as usize) }));
            let got = got?;
            let inset = ctx.bitset(&mv);
            check_elem_addr(ctx, &mv, &inset, name, &idx, valid, got)
        }
        RObs::WeakIndex(spec) => {
            let (idx, valid) = index_vec(spec, &mv.shape);
            if idx.len() != nd {
                return Ok(());
            }
            let got = fin!("weak_index", valid, Ok(Some(&v.weakly_checked_view()[idx.as_slice()] as *const u32 as usize)));
            if let Some(addr) = got? {
                let p = ctx.pos_of(addr, "weak_index")?;
                if p < mv.base || p >= mv.base + mv.slen {
                    return fail("oob-reference:weak_index".into(), format!("weakly checked index {idx:?} returned position {p} outside the view's storage; trace {:?}", ctx.trace));
                }
            }
            Ok(())
        }
        RObs::ToVec => fin!("to_vec", true, {
            let out = v.to_vec();
            if out.len() != count {
                return fail("harness-or-count:to_vec".into(), format!("to_vec returned {} values for {} elements", out.len(), count));
            }
            out.into_iter().try_for_each(|x| sink.value(x))
        }),
        RObs::CopyIntoSlice => fin!("copy_into_slice", true, {
            let mut dest: Vec<std::mem::MaybeUninit<u32>> = vec![std::mem::MaybeUninit::new(POISON); count];
            let out = v.copy_into_slice(&mut dest);
            out.iter().try_for_each(|&x| sink.value(x))
        }),
        RObs::Map => fin!("map", true, {
            let out = v.map(|x| *x);
            out.iter().try_for_each(|&x| sink.value(x))
        }),
        RObs::Data => fin!("data", true, {
            match v.data() {
                Some(d) => {
                    if d.len() != count {
                        return fail("wrong-len:data".into(), format!("data() slice has {} elements, view has {}", d.len(), count));
                    }
                    let p0 = d.as_ptr() as usize;
                    (0..d.len()).try_for_each(|i| {
                        // address arithmetic only; then a verified read
                        let p = sink.ctx.pos_of(p0 + 4 * i, "data")?;
                        if !sink.inset[p] {
                            return fail("outside-view:data".into(), format!("data() covers buffer position {p}, not an element of the view"));
                        }
                        Ok(())
                    })
                }
                None => Ok(()),
            }
        }),
        RObs::Item => fin!("item", true, {
            match v.item() {
                Some(r) => sink.elem(r),
                None => Ok(()),
            }
        }),
        RObs::Array { whole, m, dim, at, base } => {
            drop(sink);
            match nd {
                1 => read_array::<1>(ctx, &v, &mv, *whole, *m, *dim, *at, base),
                2 => read_array::<2>(ctx, &v, &mv, *whole, *m, *dim, *at, base),
                3 => read_array::<3>(ctx, &v, &mv, *whole, *m, *dim, *at, base),
                4 => read_array::<4>(ctx, &v, &mv, *whole, *m, *dim, *at, base),
                _ => Ok(()),
            }
        }
        RObs::SliceCopy(specs) => {
            // negative steps and out-of-range endpoints are legal for slice_copy
            let (items, _) = slice_items(specs, &mv.shape);
            fin!("slice_copy", false, {
                let out = v.slice_copy(items.as_slice());
                out.iter().try_for_each(|&x| sink.value(x))
            })
        }
        RObs::InitFrom => fin!("init_from", true, {
            let out = Tensor::<u32>::uninit(mv.shape.as_slice()).init_from(&v);
            if out.len() != count {
                return fail("wrong-len:init_from".into(), format!("init_from produced {} elements for {}", out.len(), count));
            }
            out.iter().try_for_each(|&x| sink.value(x))
        }),
        RObs::Concat { dim } => {
            let (d, ok) = axis_sel(*dim, nd);
            fin!("concat", ok, {
                match Tensor::<u32>::concat(d, &[v.clone(), v.clone()]) {
                    Ok(out) => {
                        if out.len() != 2 * count {
                            return fail("wrong-len:concat".into(), format!("concat produced {} elements for 2 x {}", out.len(), count));
                        }
                        out.iter().try_for_each(|&x| sink.value(x))
                    }
                    Err(_) => Ok(()),
                }
            })
        }
        RObs::ToContiguous => fin!("to_contiguous", true, {
            let out = v.to_contiguous();
            out.iter().try_for_each(|&x| sink.value(x))
        }),
        RObs::ToShape => fin!("to_shape", true, {
            let out = v.to_shape([count].as_slice());
            out.iter().try_for_each(|&x| sink.value(x))
        }),
        RObs::ToSlice => fin!("to_slice", true, {
            let out = v.to_slice();
            if out.len() != count {
                return fail("wrong-len:to_slice".into(), format!("to_slice has {} elements, view has {}", out.len(), count));
            }
            out.iter().try_for_each(|&x| sink.value(x))
        }),
        RObs::Reshaped(k) => {
            let new_shape: Vec<usize> = match k % 3 {
                0 => vec![count],
                1 => vec![1, count, 1],
                _ => vec![count + 1],
            };
            fin!("reshaped", k % 3 != 2, {
                let out = v.reshaped(new_shape.as_slice());
                out.iter().try_for_each(|&x| sink.value(x))
            })
        }
    }
}

// ---------------------------------------------------------------------------
// whole-program driver
// ---------------------------------------------------------------------------

pub struct Outcome {
    pub labels: Vec<&'static str>,
    pub nontrivial: bool,
}

/// Build the backing buffer, the root view, run the steps, then compare the
/// whole buffer (guards included) with the shadow.
pub fn execute(prog: &Prog) -> R<Outcome> {
    let d = prog.root.derive();
    // The root storage is PAD elements longer than the layout needs (allowed by
    // from_data_with_strides): an access slightly past a lane's end stays inside
    // the storage the root view legitimately borrows, so out-of-range probes of
    // get_array/set_array can be issued without risking a real out-of-bounds access.
    let total = GUARD + d.buf_len + PAD + GUARD;
    let mut buf: Vec<u32> = (0..total as u32).collect();
    let init = buf.clone();
    let buf_addr = buf.as_ptr() as usize;
    let mut ctx = Ctx::new(buf_addr, total, (GUARD + d.offset, GUARD + d.buf_len + PAD), &init);
    for l in &d.labels {
        ctx.label(l);
    }
    {
        let storage: &mut [u32] = &mut buf[GUARD + d.offset..GUARD + d.buf_len + PAD];
        let root = match TensorViewMut::<u32>::from_data_with_strides(&d.shape, storage, &d.strides) {
            Ok(r) => r,
            Err(e) => {
                return fail(
                    "root-rejected".into(),
                    format!("from_data_with_strides refused the derived layout shape {:?} strides {:?} (storage len {}): {e:?}", d.shape, d.strides, d.buf_len + PAD - d.offset),
                )
            }
        };
        let mv = observe(&ctx, &root, "root", None)?;
        run(&mut ctx, root, mv, &prog.steps)?;
    }
    // every rten view is gone: compare the write footprint
    for (i, (&got, exp)) in buf.iter().zip(&ctx.expect).enumerate() {
        if !exp.matches(got) {
            let mut ops = ctx.mutated.clone();
            ops.sort();
            let where_ = if i < GUARD || i >= GUARD + d.buf_len + PAD { "guard" } else if i >= GUARD + d.buf_len { "padding" } else if init[i] == got { "missing-write" } else { "unexpected-write" };
            return fail(
                format!("write-footprint:{where_}:{}", ops.join("+")),
                format!("buffer position {i} holds {got:#x}, shadow model expects {exp:?} (initial {:#x}); mutating ops {:?}; trace {:?}", init[i], ctx.mutated, ctx.trace),
            );
        }
    }
    let nontrivial = ctx.saw_noncontig && ctx.saw_mut_both_ends;
    Ok(Outcome { labels: ctx.labels, nontrivial })
}

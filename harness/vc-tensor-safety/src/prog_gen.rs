//! proptest strategies for recipes and C06 programs.

use crate::prog::{ItOp, ItemSpec, NdOp, Prog, RObs, RStep, Step};
use crate::{DimSlice, Recipe};
use proptest::prelude::*;

/// Layout recipe. `unit_stride_max`: largest stride given to inserted unit axes
/// (usize::MAX allowed for the pure layout checks of C08).
pub fn recipe(max_rank: usize, max_dim: u8, wild_unit_strides: bool, zero_weight: u32) -> impl Strategy<Value = Recipe> {
    (0..=max_rank).prop_flat_map(move |r| {
        let unit_stride = if wild_unit_strides {
            prop_oneof![Just(0usize), Just(1), 0usize..40, Just(usize::MAX), Just(1 << 40)].boxed()
        } else {
            prop_oneof![Just(0usize), Just(1), 0usize..40, Just(1 << 20)].boxed()
        };
        (
            proptest::collection::vec(prop_oneof![40 => 1u8..=max_dim, zero_weight => Just(0u8)], r),
            prop_oneof![2 => Just(0u8), 1 => any::<u8>()],
            proptest::collection::vec(
                (prop_oneof![2 => Just(0u8), 1 => any::<u8>()], prop_oneof![2 => Just(255u8), 1 => any::<u8>()], prop_oneof![2 => Just(0u8), 1 => 0u8..4])
                    .prop_map(|(start, len, step)| DimSlice { start, len, step }),
                0..=r + 1,
            ),
            any::<u16>(),
            proptest::collection::vec((any::<u8>(), unit_stride), 0..3),
        )
            .prop_map(|(base, reshape, slices, perm, unit_axes)| Recipe { base, reshape, slices, perm, unit_axes })
    })
}

fn plain_op() -> impl Strategy<Value = ItOp> {
    prop_oneof![
        4 => Just(ItOp::Next),
        4 => Just(ItOp::NextBack),
        1 => (0u8..4).prop_map(ItOp::Nth),
        1 => Just(ItOp::Rest),
        1 => Just(ItOp::RevRest),
    ]
}

fn plain_ops(max: usize) -> impl Strategy<Value = Vec<ItOp>> {
    proptest::collection::vec(plain_op(), 0..max)
}

/// A history: plain ops, optionally ended by a split (each half again optionally split once).
pub fn it_ops() -> impl Strategy<Value = Vec<ItOp>> {
    let half = || {
        (plain_ops(5), proptest::option::weighted(0.25, (any::<u8>(), plain_ops(4), plain_ops(4)))).prop_map(|(mut ops, sp)| {
            if let Some((at, left, right)) = sp {
                ops.push(ItOp::Split { at, left, right });
            }
            ops
        })
    };
    (plain_ops(9), proptest::option::weighted(0.3, (any::<u8>(), half(), half()))).prop_map(|(mut ops, sp)| {
        if let Some((at, left, right)) = sp {
            ops.push(ItOp::Split { at, left, right });
        }
        ops
    })
}

/// selector byte: mostly valid, sometimes (>= 250) invalid
fn selb() -> impl Strategy<Value = u8> {
    prop_oneof![12 => 0u8..250, 1 => 250u8..=255]
}

fn item_spec() -> impl Strategy<Value = ItemSpec> {
    prop_oneof![
        2 => Just(ItemSpec::Full),
        2 => (selb(), any::<bool>()).prop_map(|(i, neg)| ItemSpec::Index { i, neg }),
        5 => (any::<u8>(), prop_oneof![1 => Just(255u8), 2 => any::<u8>()], 0u8..4, any::<bool>(), any::<bool>())
            .prop_map(|(start, len, step, neg, open)| ItemSpec::Range { start, len, step, neg, open }),
        1 => Just(ItemSpec::NegStep),
    ]
}

fn items() -> impl Strategy<Value = Vec<ItemSpec>> {
    proptest::collection::vec(item_spec(), 0..5)
}

fn idx_spec() -> impl Strategy<Value = Vec<u8>> {
    proptest::collection::vec(selb(), 0..7)
}

fn nd_op() -> impl Strategy<Value = NdOp> {
    prop_oneof![
        3 => (0u8..4, it_ops()).prop_map(|(k, ops)| NdOp::InnerIterMut { k, ops }),
        2 => (selb(), it_ops()).prop_map(|(dim, ops)| NdOp::AxisIterMut { dim, ops }),
        3 => (selb(), it_ops(), it_ops()).prop_map(|(dim, ops, lane_ops)| NdOp::LanesMut { dim, ops, lane_ops }),
        2 => (selb(), 0u8..5, it_ops()).prop_map(|(dim, chunk, ops)| NdOp::AxisChunksMut { dim, chunk, ops }),
        2 => (selb(), selb()).prop_map(|(axis, mid)| NdOp::SplitAtMut { axis, mid }),
        1 => (selb(), selb()).prop_map(|(axis, index)| NdOp::IndexAxisMut { axis, index }),
        1 => idx_spec().prop_map(NdOp::GetMut),
        1 => (any::<u8>(), any::<u8>()).prop_map(|(start, len)| NdOp::SliceFirst { start, len }),
        2 => (0u8..3, selb(), selb(), any::<u8>(), any::<u8>()).prop_map(|(form, i, j, start, len)| NdOp::Slice2 { form, i, j, start, len }),
        6 => (any::<bool>(), prop_oneof![4 => Just(false), 1 => Just(true)], 0u8..4, selb(), prop_oneof![6 => 0u8..4, 2 => any::<u8>()], idx_spec())
            .prop_map(|(write, whole, m, dim, at, base)| NdOp::Array { write, whole, m, dim, at, base }),
    ]
}

fn rstep() -> impl Strategy<Value = RStep> {
    prop_oneof![
        3 => (proptest::collection::vec(0u8..3, 0..3), 0u8..4).prop_map(|(lead, expand)| RStep::Broadcast { lead, expand }),
        3 => items().prop_map(RStep::Slice),
        2 => any::<u16>().prop_map(RStep::Permuted),
        1 => Just(RStep::Transposed),
        1 => (selb(), selb()).prop_map(|(axis, index)| RStep::IndexAxis { axis, index }),
        1 => (selb(), any::<u8>(), any::<u8>()).prop_map(|(axis, start, len)| RStep::SliceAxis { axis, start, len }),
        1 => (selb(), selb(), any::<bool>()).prop_map(|(axis, mid, right)| RStep::SplitAt { axis, mid, right }),
        1 => Just(RStep::Squeezed),
    ]
}

fn robs() -> impl Strategy<Value = RObs> {
    prop_oneof![
        4 => it_ops().prop_map(RObs::Iter),
        3 => (selb(), it_ops(), it_ops()).prop_map(|(dim, ops, lane_ops)| RObs::Lanes { dim, ops, lane_ops }),
        3 => (selb(), it_ops()).prop_map(|(n, ops)| RObs::InnerIter { n, ops }),
        2 => (selb(), it_ops()).prop_map(|(dim, ops)| RObs::AxisIter { dim, ops }),
        2 => (selb(), 0u8..5, it_ops()).prop_map(|(dim, chunk, ops)| RObs::AxisChunks { dim, chunk, ops }),
        2 => idx_spec().prop_map(RObs::Get),
        1 => idx_spec().prop_map(RObs::Index),
        1 => idx_spec().prop_map(RObs::WeakIndex),
        2 => Just(RObs::ToVec),
        1 => Just(RObs::CopyIntoSlice),
        1 => Just(RObs::Map),
        1 => Just(RObs::Data),
        1 => Just(RObs::Item),
        4 => (prop_oneof![4 => Just(false), 1 => Just(true)], 0u8..4, selb(), prop_oneof![6 => 0u8..4, 2 => any::<u8>()], idx_spec())
            .prop_map(|(whole, m, dim, at, base)| RObs::Array { whole, m, dim, at, base }),
        2 => items().prop_map(RObs::SliceCopy),
        1 => Just(RObs::InitFrom),
        1 => selb().prop_map(|dim| RObs::Concat { dim }),
        1 => Just(RObs::ToContiguous),
        1 => Just(RObs::ToShape),
        1 => Just(RObs::ToSlice),
        1 => (0u8..3).prop_map(RObs::Reshaped),
    ]
}

pub fn step() -> impl Strategy<Value = Step> {
    prop_oneof![
        4 => items().prop_map(Step::SliceMut),
        1 => (selb(), any::<u8>(), any::<u8>()).prop_map(|(axis, start, len)| Step::SliceAxisMut { axis, start, len }),
        3 => any::<u16>().prop_map(Step::PermutedMut),
        1 => (selb(), selb()).prop_map(|(axis, index)| Step::IndexAxisMut { axis, index }),
        3 => (selb(), selb(), any::<bool>()).prop_map(|(axis, mid, right)| Step::SplitAtMut { axis, mid, right }),
        1 => (0u8..4).prop_map(Step::ReshapedMut),
        2 => Just(Step::Transpose),
        1 => (selb(), selb()).prop_map(|(a, b)| Step::MoveAxis(a, b)),
        1 => any::<u8>().prop_map(Step::InsertAxis),
        1 => selb().prop_map(Step::RemoveAxis),
        1 => Just(Step::MergeAxes),
        6 => it_ops().prop_map(Step::IterMut),
        4 => (selb(), it_ops(), it_ops()).prop_map(|(dim, ops, lane_ops)| Step::LanesMut { dim, ops, lane_ops }),
        4 => (selb(), it_ops()).prop_map(|(n, ops)| Step::InnerIterMut { n, ops }),
        3 => (selb(), it_ops()).prop_map(|(dim, ops)| Step::AxisIterMut { dim, ops }),
        3 => (selb(), 0u8..5, it_ops()).prop_map(|(dim, chunk, ops)| Step::AxisChunksMut { dim, chunk, ops }),
        2 => idx_spec().prop_map(Step::GetMut),
        1 => idx_spec().prop_map(Step::IndexMut),
        1 => idx_spec().prop_map(Step::WeakIndexMut),
        2 => Just(Step::Fill),
        2 => Just(Step::Apply),
        3 => (0u8..3).prop_map(|layout| Step::CopyFrom { layout }),
        5 => nd_op().prop_map(Step::Nd),
        6 => (proptest::collection::vec(rstep(), 0..4), robs()).prop_map(|(pre, obs)| Step::Read { pre, obs }),
    ]
}

pub fn prog() -> impl Strategy<Value = Prog> {
    (recipe(4, 5, false, 1), proptest::collection::vec(step(), 1..10)).prop_map(|(root, steps)| Prog { root, steps })
}

// ---------------------------------------------------------------------------
// owned-tensor programs
// ---------------------------------------------------------------------------

use crate::owned::{Init, OStep, OwnedProg};

fn small_shape() -> impl Strategy<Value = Vec<u8>> {
    proptest::collection::vec(prop_oneof![8 => 1u8..=4, 1 => Just(0u8)], 0..=4)
}

fn ostep() -> impl Strategy<Value = OStep> {
    prop_oneof![
        8 => (selb(), 0u8..4, any::<bool>()).prop_map(|(axis, n, transposed_src)| OStep::Append { axis, n, transposed_src }),
        3 => (selb(), any::<u8>(), any::<u8>()).prop_map(|(dim, start, len)| OStep::ClipDim { dim, start, len }),
        2 => (selb(), 0u8..8).prop_map(|(axis, n)| OStep::HasCapacity { axis, n }),
        2 => any::<u16>().prop_map(OStep::Permute),
        2 => Just(OStep::Transpose),
        1 => (selb(), selb()).prop_map(|(a, b)| OStep::MoveAxis(a, b)),
        1 => selb().prop_map(OStep::InsertAxis),
        1 => selb().prop_map(OStep::RemoveAxis),
        1 => (0u8..4).prop_map(OStep::Reshape),
        1 => Just(OStep::MakeContiguous),
        3 => it_ops().prop_map(OStep::IterMut),
        1 => idx_spec().prop_map(OStep::GetMut),
        1 => Just(OStep::Fill),
        1 => Just(OStep::Apply),
        2 => items().prop_map(OStep::SliceMutFill),
        1 => Just(OStep::ToVec),
    ]
}

pub fn owned_prog() -> impl Strategy<Value = OwnedProg> {
    (
        prop_oneof![
            3 => (small_shape(), any::<u8>()).prop_map(|(shape, dim)| Init::WithCapacity { shape, dim }),
            2 => (small_shape(), 0u8..40).prop_map(|(shape, extra_cap)| Init::FromData { shape, extra_cap }),
            2 => recipe(3, 4, false, 2).prop_map(Init::Strided),
        ],
        proptest::collection::vec(ostep(), 1..10),
    )
        .prop_map(|(init, steps)| OwnedProg { init, steps })
}

//! Every SIMD primitive of rten-simd, evaluated on a chosen ISA, and its
//! scalar definition (the reference), written from the trait documentation in
//! rten-simd/src/ops.rs.
//!
//! A *block* is three arrays `a`, `b`, `c` of `N` = 64 lane values (u32 bit
//! patterns of the element type). An ISA whose vectors have `L` lanes
//! processes the block as `N / L` consecutive vectors ("chunks"). For
//! lane-wise primitives all ISAs therefore produce `N` comparable outputs.

use rten_simd::ops::{
    BitOps, Concat, Extend, FloatOps, IntOps, Interleave, MaskOps, NarrowSaturate, NumOps, SignedIntOps, ToFloat,
};
use rten_simd::{f16, Elem, Isa, Mask, Simd, SimdOp};
use serde::{Deserialize, Serialize};

use crate::isa::{run_on, IsaKind};
use crate::lane::{ref_f16_to_f32, ref_f32_to_f16, Lane, Ty};

pub const N: usize = 64;

#[derive(Clone, Copy, Debug, PartialEq, Eq, Hash, Serialize, Deserialize)]
pub enum Op {
    // BitOps (all element types)
    LoadStore,
    Splat,
    Zero,
    And,
    Or,
    Xor,
    Not,
    /// select(a, b, first_n_mask(c[0] % (L+1)))
    Select,
    /// first_n_mask(a[0] % (L+1))
    FirstNMask,
    BroadcastLane(u8),
    FoldSplat,
    BitsRoundtrip,
    // NumOps
    One,
    Add,
    Sub,
    Mul,
    MulAdd,
    PolyEval,
    Eq,
    Ge,
    Gt,
    Lt,
    Le,
    Min,
    Max,
    Clamp,
    Sum,
    /// select(a, b, gt(c, 0))
    SelectCmp,
    // MaskOps (masks built as gt(a, 0), gt(b, 0))
    MaskToArray,
    MaskAnd,
    MaskAny,
    MaskAll,
    MaskAllFalse,
    // FloatOps
    Div,
    Reciprocal,
    FNeg,
    FAbs,
    RoundTiesEven,
    MulSubFrom,
    ToIntTrunc,
    ToIntRound,
    // IntOps
    Shl(u8),
    Shr(u8),
    // SignedIntOps
    INeg,
    IAbs,
    // Extend / Interleave / Concat / ToFloat / NarrowSaturate
    ExtendLow,
    ExtendHigh,
    InterleaveLow,
    InterleaveHigh,
    ConcatLow,
    ConcatHigh,
    ToFloat,
    /// narrow_saturate(low = a chunk, high = b chunk)
    NarrowSaturate,
}

impl Op {
    pub fn name(self) -> &'static str {
        match self {
            Op::LoadStore => "load_store",
            Op::Splat => "splat",
            Op::Zero => "zero",
            Op::And => "and",
            Op::Or => "or",
            Op::Xor => "xor",
            Op::Not => "not",
            Op::Select => "select",
            Op::FirstNMask => "first_n_mask",
            Op::BroadcastLane(_) => "broadcast_lane",
            Op::FoldSplat => "fold_splat",
            Op::BitsRoundtrip => "bits_roundtrip",
            Op::One => "one",
            Op::Add => "add",
            Op::Sub => "sub",
            Op::Mul => "mul",
            Op::MulAdd => "mul_add",
            Op::PolyEval => "poly_eval",
            Op::Eq => "eq",
            Op::Ge => "ge",
            Op::Gt => "gt",
            Op::Lt => "lt",
            Op::Le => "le",
            Op::Min => "min",
            Op::Max => "max",
            Op::Clamp => "clamp",
            Op::Sum => "sum",
            Op::SelectCmp => "select_cmp",
            Op::MaskToArray => "mask_to_array",
            Op::MaskAnd => "mask_and",
            Op::MaskAny => "mask_any",
            Op::MaskAll => "mask_all",
            Op::MaskAllFalse => "mask_all_false",
            Op::Div => "div",
            Op::Reciprocal => "reciprocal",
            Op::FNeg => "neg",
            Op::FAbs => "abs",
            Op::RoundTiesEven => "round_ties_even",
            Op::MulSubFrom => "mul_sub_from",
            Op::ToIntTrunc => "to_int_trunc",
            Op::ToIntRound => "to_int_round",
            Op::Shl(_) => "shift_left",
            Op::Shr(_) => "shift_right",
            Op::INeg => "neg",
            Op::IAbs => "abs",
            Op::ExtendLow => "extend_low",
            Op::ExtendHigh => "extend_high",
            Op::InterleaveLow => "interleave_low",
            Op::InterleaveHigh => "interleave_high",
            Op::ConcatLow => "concat_low",
            Op::ConcatHigh => "concat_high",
            Op::ToFloat => "to_float",
            Op::NarrowSaturate => "narrow_saturate",
        }
    }

    /// How many of a, b, c the primitive reads per lane (for enumeration).
    pub fn arity(self) -> usize {
        match self {
            Op::Zero | Op::One => 0,
            Op::LoadStore
            | Op::Splat
            | Op::Not
            | Op::FirstNMask
            | Op::BroadcastLane(_)
            | Op::BitsRoundtrip
            | Op::Sum
            | Op::MaskToArray
            | Op::MaskAny
            | Op::MaskAll
            | Op::MaskAllFalse
            | Op::Reciprocal
            | Op::FNeg
            | Op::FAbs
            | Op::RoundTiesEven
            | Op::ToIntTrunc
            | Op::ToIntRound
            | Op::Shl(_)
            | Op::Shr(_)
            | Op::INeg
            | Op::IAbs
            | Op::ExtendLow
            | Op::ExtendHigh
            | Op::ToFloat => 1,
            Op::MulAdd | Op::PolyEval | Op::Clamp | Op::SelectCmp | Op::MulSubFrom | Op::Select => 3,
            _ => 2,
        }
    }

    /// Output lane i depends only on input lane i, and there are N outputs.
    pub fn lanewise(self) -> bool {
        !matches!(
            self,
            Op::LoadStore
                | Op::Splat
                | Op::Select
                | Op::FirstNMask
                | Op::BroadcastLane(_)
                | Op::FoldSplat
                | Op::BitsRoundtrip
                | Op::Sum
                | Op::MaskAny
                | Op::MaskAll
                | Op::MaskAllFalse
                | Op::ExtendLow
                | Op::ExtendHigh
                | Op::InterleaveLow
                | Op::InterleaveHigh
                | Op::ConcatLow
                | Op::ConcatHigh
                | Op::NarrowSaturate
        )
    }
}

/// All primitives implemented for element type `ty`.
pub fn ops_for(ty: Ty) -> Vec<Op> {
    let mut v = vec![
        Op::LoadStore,
        Op::Splat,
        Op::Zero,
        Op::And,
        Op::Or,
        Op::Xor,
        Op::Not,
        Op::Select,
        Op::FirstNMask,
        Op::BroadcastLane(0),
        Op::BroadcastLane(1),
        Op::BroadcastLane(2),
        Op::BroadcastLane(3),
        Op::FoldSplat,
        Op::BitsRoundtrip,
    ];
    if ty != Ty::F16 {
        v.extend([
            Op::One,
            Op::Add,
            Op::Sub,
            Op::Mul,
            Op::MulAdd,
            Op::PolyEval,
            Op::Eq,
            Op::Ge,
            Op::Gt,
            Op::Lt,
            Op::Le,
            Op::Min,
            Op::Max,
            Op::Clamp,
            Op::Sum,
            Op::SelectCmp,
        ]);
    }
    // masks: the ISA exposes m32/m16/m8; exercise each through one element type
    if matches!(ty, Ty::I8 | Ty::I16 | Ty::I32 | Ty::F32 | Ty::U8 | Ty::U16) {
        v.extend([Op::MaskToArray, Op::MaskAnd, Op::MaskAny, Op::MaskAll, Op::MaskAllFalse]);
    }
    if ty == Ty::F32 {
        v.extend([
            Op::Div,
            Op::Reciprocal,
            Op::FNeg,
            Op::FAbs,
            Op::RoundTiesEven,
            Op::MulSubFrom,
            Op::ToIntTrunc,
            Op::ToIntRound,
            Op::NarrowSaturate,
        ]);
    }
    if ty.is_int() {
        for k in 0..ty.bits() as u8 {
            v.push(Op::Shl(k));
            v.push(Op::Shr(k));
        }
    }
    if ty.is_signed_int() {
        v.extend([Op::INeg, Op::IAbs]);
    }
    if matches!(ty, Ty::I8 | Ty::U8 | Ty::I16 | Ty::F16) {
        v.extend([Op::ExtendLow, Op::ExtendHigh]);
    }
    if matches!(ty, Ty::I8 | Ty::U8 | Ty::I16) {
        v.extend([Op::InterleaveLow, Op::InterleaveHigh]);
    }
    if ty == Ty::I32 {
        v.extend([Op::ConcatLow, Op::ConcatHigh, Op::ToFloat, Op::NarrowSaturate]);
    }
    if ty == Ty::I16 {
        v.push(Op::NarrowSaturate);
    }
    v
}

/// Type of the output lanes.
pub fn out_ty(ty: Ty, op: Op) -> Ty {
    match (ty, op) {
        (Ty::I8, Op::ExtendLow | Op::ExtendHigh) => Ty::I16,
        (Ty::U8, Op::ExtendLow | Op::ExtendHigh) => Ty::U16,
        (Ty::I16, Op::ExtendLow | Op::ExtendHigh) => Ty::I32,
        (Ty::F16, Op::ExtendLow | Op::ExtendHigh) => Ty::F32,
        (Ty::I32, Op::NarrowSaturate) => Ty::I16,
        (Ty::I16, Op::NarrowSaturate) => Ty::U8,
        (Ty::F32, Op::NarrowSaturate) => Ty::F16,
        (Ty::I32, Op::ToFloat) => Ty::F32,
        (Ty::F32, Op::ToIntTrunc | Op::ToIntRound) => Ty::I32,
        _ => ty,
    }
}

// ---------------------------------------------------------------------------
// Evaluation on an ISA
// ---------------------------------------------------------------------------

/// Order-sensitive combiner used for `fold_splat` (works on bit patterns so it
/// is defined for every element type).
fn fold_fn(mask: u32, acc: u32, x: u32) -> u32 {
    (acc.wrapping_mul(31) ^ x).wrapping_add(0x55) & mask
}

#[inline(always)]
fn push_vec<S: Simd>(out: &mut Vec<u32>, v: S)
where
    S::Elem: Lane,
{
    for x in v.to_array().as_ref() {
        out.push(x.to_u32());
    }
}

#[inline(always)]
fn push_mask<M: Mask>(out: &mut Vec<u32>, m: M) {
    for x in m.to_array().as_ref() {
        out.push(*x as u32);
    }
}

#[inline(always)]
fn bit_op<T: Lane + Elem, O: BitOps<T>>(ops: O, op: Op, a: &[T], b: &[T], c: &[T], out: &mut Vec<u32>) -> bool {
    let l = ops.len();
    match op {
        Op::LoadStore => {
            let v = ops.load(a);
            let mut buf = vec![T::default(); l];
            ops.store(v, &mut buf);
            out.extend(buf.iter().map(|x| x.to_u32()));
            push_vec(out, v);
        }
        Op::Splat => push_vec(out, ops.splat(a[0])),
        Op::Zero => push_vec(out, ops.zero()),
        Op::And => push_vec(out, ops.and(ops.load(a), ops.load(b))),
        Op::Or => push_vec(out, ops.or(ops.load(a), ops.load(b))),
        Op::Xor => push_vec(out, ops.xor(ops.load(a), ops.load(b))),
        Op::Not => push_vec(out, ops.not(ops.load(a))),
        Op::Select => {
            let n = c[0].to_u32() as usize % (l + 1);
            push_vec(out, ops.select(ops.load(a), ops.load(b), ops.first_n_mask(n)));
        }
        Op::FirstNMask => {
            let n = a[0].to_u32() as usize % (l + 1);
            push_mask(out, ops.first_n_mask(n));
        }
        Op::BroadcastLane(k) => {
            let v = ops.load(a);
            let r = match k {
                0 => ops.broadcast_lane::<0>(v),
                1 => ops.broadcast_lane::<1>(v),
                2 => ops.broadcast_lane::<2>(v),
                _ => ops.broadcast_lane::<3>(v),
            };
            push_vec(out, r);
        }
        Op::FoldSplat => {
            let mask = T::TY.mask();
            let r = ops.fold_splat(ops.load(a), b[0], |acc, x| T::from_u32(fold_fn(mask, acc.to_u32(), x.to_u32())));
            push_vec(out, r);
        }
        Op::BitsRoundtrip => {
            let v = ops.load(a);
            push_vec(out, ops.from_bits(v.to_bits()));
            push_vec(out, v.same_cast::<O::Simd>());
        }
        _ => return false,
    }
    true
}

#[inline(always)]
fn num_op<T: Lane + Elem, O: NumOps<T>, M: MaskOps<<O::Simd as Simd>::Mask>>(
    ops: O,
    mo: M,
    op: Op,
    a: &[T],
    b: &[T],
    c: &[T],
    out: &mut Vec<u32>,
) -> bool {
    let (x, y, z) = (ops.load(a), ops.load(b), ops.load(c));
    match op {
        Op::One => push_vec(out, ops.one()),
        Op::Add => push_vec(out, ops.add(x, y)),
        Op::Sub => push_vec(out, ops.sub(x, y)),
        Op::Mul => push_vec(out, ops.mul(x, y)),
        Op::MulAdd => push_vec(out, ops.mul_add(x, y, z)),
        Op::PolyEval => push_vec(out, ops.poly_eval(x, &[y, z, y])),
        Op::Eq => push_mask(out, ops.eq(x, y)),
        Op::Ge => push_mask(out, ops.ge(x, y)),
        Op::Gt => push_mask(out, ops.gt(x, y)),
        Op::Lt => push_mask(out, ops.lt(x, y)),
        Op::Le => push_mask(out, ops.le(x, y)),
        Op::Min => push_vec(out, ops.min(x, y)),
        Op::Max => push_vec(out, ops.max(x, y)),
        Op::Clamp => push_vec(out, ops.clamp(x, y, z)),
        Op::Sum => out.push(ops.sum(x).to_u32()),
        Op::SelectCmp => push_vec(out, ops.select(x, y, ops.gt(z, ops.zero()))),
        Op::MaskToArray => push_mask(out, ops.gt(x, ops.zero())),
        Op::MaskAnd => push_mask(out, mo.and(ops.gt(x, ops.zero()), ops.gt(y, ops.zero()))),
        Op::MaskAny => out.push(mo.any(ops.gt(x, ops.zero())) as u32),
        Op::MaskAll => out.push(mo.all(ops.gt(x, ops.zero())) as u32),
        Op::MaskAllFalse => out.push(mo.all_false(ops.gt(x, ops.zero())) as u32),
        _ => return false,
    }
    true
}

#[inline(always)]
fn float_op<I: Isa, O: FloatOps<f32, Simd = I::F32, Int = I::I32>>(ops: O, op: Op, a: &[f32], b: &[f32], c: &[f32], out: &mut Vec<u32>) -> bool {
    let (x, y, z) = (ops.load(a), ops.load(b), ops.load(c));
    match op {
        Op::Div => push_vec(out, ops.div(x, y)),
        Op::Reciprocal => push_vec(out, ops.reciprocal(x)),
        Op::FNeg => push_vec(out, ops.neg(x)),
        Op::FAbs => push_vec(out, ops.abs(x)),
        Op::RoundTiesEven => push_vec(out, ops.round_ties_even(x)),
        Op::MulSubFrom => push_vec(out, ops.mul_sub_from(x, y, z)),
        Op::ToIntTrunc => push_vec(out, ops.to_int_trunc(x)),
        Op::ToIntRound => push_vec(out, ops.to_int_round(x)),
        _ => return false,
    }
    true
}

macro_rules! shift_op {
    ($ops:expr, $op:expr, $a:expr, $out:expr, [$($k:literal),*]) => {{
        let ops = $ops;
        match $op {
            Op::Shl(k) => {
                let x = ops.load($a);
                let r = match k { $($k => ops.shift_left::<$k>(x),)* _ => unreachable!("shift out of range") };
                push_vec($out, r);
                true
            }
            Op::Shr(k) => {
                let x = ops.load($a);
                let r = match k { $($k => ops.shift_right::<$k>(x),)* _ => unreachable!("shift out of range") };
                push_vec($out, r);
                true
            }
            _ => false,
        }
    }};
}

#[inline(always)]
fn sint_op<T: Lane + Elem, O: SignedIntOps<T>>(ops: O, op: Op, a: &[T], out: &mut Vec<u32>) -> bool {
    match op {
        Op::INeg => push_vec(out, ops.neg(ops.load(a))),
        Op::IAbs => push_vec(out, ops.abs(ops.load(a))),
        _ => return false,
    }
    true
}

#[inline(always)]
fn extend_op<T: Lane + Elem, S: Simd, O: Extend<T, Output = S>>(ops: O, op: Op, a: &[T], out: &mut Vec<u32>) -> bool
where
    S::Elem: Lane,
{
    match op {
        Op::ExtendLow => push_vec(out, ops.extend_low(ops.load(a))),
        Op::ExtendHigh => push_vec(out, ops.extend_high(ops.load(a))),
        _ => return false,
    }
    true
}

#[inline(always)]
fn interleave_op<T: Lane + Elem, O: Interleave<T>>(ops: O, op: Op, a: &[T], b: &[T], out: &mut Vec<u32>) -> bool {
    match op {
        Op::InterleaveLow => push_vec(out, ops.interleave_low(ops.load(a), ops.load(b))),
        Op::InterleaveHigh => push_vec(out, ops.interleave_high(ops.load(a), ops.load(b))),
        _ => return false,
    }
    true
}

#[inline(always)]
fn concat_op<T: Lane + Elem, O: Concat<T>>(ops: O, op: Op, a: &[T], b: &[T], out: &mut Vec<u32>) -> bool {
    match op {
        Op::ConcatLow => push_vec(out, ops.concat_low(ops.load(a), ops.load(b))),
        Op::ConcatHigh => push_vec(out, ops.concat_high(ops.load(a), ops.load(b))),
        _ => return false,
    }
    true
}

#[inline(always)]
fn narrow_op<T: Lane + Elem, U: Lane + Elem, O: NarrowSaturate<T, U>>(ops: O, op: Op, a: &[T], b: &[T], out: &mut Vec<u32>) -> bool {
    match op {
        Op::NarrowSaturate => push_vec(out, ops.narrow_saturate(ops.load(a), ops.load(b))),
        _ => return false,
    }
    true
}

#[inline(always)]
fn to_float_op<S: Simd<Elem = f32>, O: ToFloat<i32, Output = S>>(ops: O, op: Op, a: &[i32], out: &mut Vec<u32>) -> bool {
    match op {
        Op::ToFloat => push_vec(out, ops.to_float(ops.load(a))),
        _ => return false,
    }
    true
}

fn conv<T: Lane>(v: &[u32]) -> Vec<T> {
    v.iter().map(|&b| T::from_u32(b)).collect()
}

pub struct PrimOp<'a> {
    pub ty: Ty,
    pub op: Op,
    pub a: &'a [u32],
    pub b: &'a [u32],
    pub c: &'a [u32],
}

impl SimdOp for PrimOp<'_> {
    type Output = Vec<u32>;

    #[inline(always)]
    fn eval<I: Isa>(self, isa: I) -> Vec<u32> {
        let PrimOp { ty, op, a, b, c } = self;
        assert!(a.len() == N && b.len() == N && c.len() == N);
        let mut out: Vec<u32> = Vec::with_capacity(2 * N);
        let o = &mut out;
        macro_rules! chunks {
            ($t:ty, $ops:expr, |$ca:ident, $cb:ident, $cc:ident| $body:expr) => {{
                let (av, bv, cv) = (conv::<$t>(a), conv::<$t>(b), conv::<$t>(c));
                let l = BitOps::<$t>::len($ops);
                let mut k = 0;
                while k < N {
                    let ($ca, $cb, $cc) = (&av[k..k + l], &bv[k..k + l], &cv[k..k + l]);
                    let handled: bool = $body;
                    assert!(handled, "primitive {:?} is not implemented for {:?}", op, ty);
                    k += l;
                }
            }};
        }
        match ty {
            Ty::I8 => {
                let ops = isa.i8();
                chunks!(i8, ops, |a, b, c| bit_op(ops, op, a, b, c, o)
                    || num_op(ops, isa.m8(), op, a, b, c, o)
                    || shift_op!(ops, op, a, o, [0, 1, 2, 3, 4, 5, 6, 7])
                    || sint_op(ops, op, a, o)
                    || extend_op(ops, op, a, o)
                    || interleave_op(ops, op, a, b, o));
            }
            Ty::U8 => {
                let ops = isa.u8();
                chunks!(u8, ops, |a, b, c| bit_op(ops, op, a, b, c, o)
                    || num_op(ops, isa.m8(), op, a, b, c, o)
                    || shift_op!(ops, op, a, o, [0, 1, 2, 3, 4, 5, 6, 7])
                    || extend_op(ops, op, a, o)
                    || interleave_op(ops, op, a, b, o));
            }
            Ty::I16 => {
                let ops = isa.i16();
                chunks!(i16, ops, |a, b, c| bit_op(ops, op, a, b, c, o)
                    || num_op(ops, isa.m16(), op, a, b, c, o)
                    || shift_op!(ops, op, a, o, [0, 1, 2, 3, 4, 5, 6, 7, 8, 9, 10, 11, 12, 13, 14, 15])
                    || sint_op(ops, op, a, o)
                    || extend_op(ops, op, a, o)
                    || interleave_op(ops, op, a, b, o)
                    || narrow_op::<i16, u8, _>(ops, op, a, b, o));
            }
            Ty::U16 => {
                let ops = isa.u16();
                chunks!(u16, ops, |a, b, c| bit_op(ops, op, a, b, c, o)
                    || num_op(ops, isa.m16(), op, a, b, c, o)
                    || shift_op!(ops, op, a, o, [0, 1, 2, 3, 4, 5, 6, 7, 8, 9, 10, 11, 12, 13, 14, 15]));
            }
            Ty::I32 => {
                let ops = isa.i32();
                chunks!(i32, ops, |a, b, c| bit_op(ops, op, a, b, c, o)
                    || num_op(ops, isa.m32(), op, a, b, c, o)
                    || shift_op!(
                        ops,
                        op,
                        a,
                        o,
                        [0, 1, 2, 3, 4, 5, 6, 7, 8, 9, 10, 11, 12, 13, 14, 15, 16, 17, 18, 19, 20, 21, 22, 23, 24, 25, 26, 27, 28, 29, 30, 31]
                    )
                    || sint_op(ops, op, a, o)
                    || concat_op(ops, op, a, b, o)
                    || to_float_op(ops, op, a, o)
                    || narrow_op::<i32, i16, _>(ops, op, a, b, o));
            }
            Ty::F32 => {
                let ops = isa.f32();
                chunks!(f32, ops, |a, b, c| bit_op(ops, op, a, b, c, o)
                    || num_op(ops, isa.m32(), op, a, b, c, o)
                    || float_op::<I, _>(ops, op, a, b, c, o)
                    || narrow_op::<f32, f16, _>(ops, op, a, b, o));
            }
            Ty::F16 => {
                let ops = isa.f16();
                chunks!(f16, ops, |a, b, c| bit_op(ops, op, a, b, c, o) || extend_op(ops, op, a, o));
            }
        }
        out
    }
}

pub fn eval_block(isa: IsaKind, ty: Ty, op: Op, a: &[u32], b: &[u32], c: &[u32]) -> Vec<u32> {
    run_on(isa, PrimOp { ty, op, a, b, c })
}

// ---------------------------------------------------------------------------
// Scalar reference
// ---------------------------------------------------------------------------

/// Expected value of one output lane.
#[derive(Clone, Debug, PartialEq)]
pub enum Exp {
    /// Exactly this bit pattern.
    Exact(u32),
    /// This value; if it is a NaN of the output type any NaN is accepted.
    Num(u32),
    /// Any of these (documented latitude: fused / unfused rounding, NaN operands of min/max,
    /// out-of-range float->int conversion); NaNs match any NaN.
    OneOf(Vec<u32>),
    /// f32 within `tol` of `centre`.
    Near(f64, f64),
    /// No demand (e.g. sum whose partial sums may overflow).
    Any,
}

impl Exp {
    pub fn matches(&self, oty: Ty, got: u32) -> bool {
        let num = |want: u32| want == got || (oty.is_nan(want) && oty.is_nan(got));
        match self {
            Exp::Exact(w) => *w == got,
            Exp::Num(w) => num(*w),
            Exp::OneOf(ws) => ws.iter().any(|w| num(*w)),
            Exp::Near(c, tol) => {
                let g = f32::from_bits(got) as f64;
                (g - c).abs() <= *tol
            }
            Exp::Any => true,
        }
    }

    pub fn is_loose(&self) -> bool {
        matches!(self, Exp::OneOf(_) | Exp::Near(..) | Exp::Any)
    }
}

fn f(b: u32) -> f32 {
    f32::from_bits(b)
}

fn fb(v: f32) -> u32 {
    v.to_bits()
}

fn cmp(ty: Ty, op: Op, x: u32, y: u32) -> bool {
    if ty == Ty::F32 {
        let (x, y) = (f(x), f(y));
        match op {
            Op::Eq => x == y,
            Op::Ge => x >= y,
            Op::Gt => x > y,
            Op::Lt => x < y,
            _ => x <= y,
        }
    } else {
        let (x, y) = (ty.to_i64(x), ty.to_i64(y));
        match op {
            Op::Eq => x == y,
            Op::Ge => x >= y,
            Op::Gt => x > y,
            Op::Lt => x < y,
            _ => x <= y,
        }
    }
}

/// `x > 0` as the element type sees it.
fn positive(ty: Ty, x: u32) -> bool {
    cmp(ty, Op::Gt, x, 0)
}

fn f32_min_max(op: Op, x: u32, y: u32) -> Exp {
    let (fx, fy) = (f(x), f(y));
    if fx.is_nan() || fy.is_nan() || (fx == 0.0 && fy == 0.0) {
        // "Return the minimum/maximum of x and y": with a NaN operand, or for +0 vs -0, the
        // documentation does not say which operand is returned.
        Exp::OneOf(vec![x, y])
    } else if (op == Op::Min) == (fx < fy) {
        Exp::Num(x)
    } else {
        Exp::Num(y)
    }
}

fn f32_to_int(x: f32, round: bool) -> Exp {
    let r = if round { x.round_ties_even() } else { x.trunc() };
    if r.is_nan() || r >= 2_147_483_648.0 || r < -2_147_483_648.0 {
        // Not representable: "Convert each lane to an integer" leaves this undefined. x86
        // returns the "integer indefinite" 0x8000_0000, Rust's `as` saturates (NaN -> 0).
        Exp::OneOf(vec![0x8000_0000, (x as i32) as u32])
    } else {
        Exp::Exact((r as i32) as u32)
    }
}

/// Reference for one chunk of `l` lanes. Output layout mirrors `PrimOp::eval`.
pub fn ref_chunk(ty: Ty, op: Op, l: usize, a: &[u32], b: &[u32], c: &[u32]) -> Vec<Exp> {
    let m = ty.mask();
    let int = |v: i64| Exp::Exact(ty.wrap(v));
    let lanes = |g: &dyn Fn(usize) -> Exp| -> Vec<Exp> { (0..l).map(g).collect() };
    let is_f = ty == Ty::F32;
    match op {
        Op::LoadStore => (0..2 * l).map(|i| Exp::Exact(a[i % l])).collect(),
        Op::Splat => lanes(&|_| Exp::Exact(a[0])),
        Op::Zero => lanes(&|_| Exp::Exact(0)),
        Op::And => lanes(&|i| Exp::Exact(a[i] & b[i])),
        Op::Or => lanes(&|i| Exp::Exact(a[i] | b[i])),
        Op::Xor => lanes(&|i| Exp::Exact(a[i] ^ b[i])),
        Op::Not => lanes(&|i| Exp::Exact(!a[i] & m)),
        Op::Select => {
            let n = c[0] as usize % (l + 1);
            lanes(&|i| Exp::Exact(if i < n { a[i] } else { b[i] }))
        }
        Op::FirstNMask => {
            let n = a[0] as usize % (l + 1);
            lanes(&|i| Exp::Exact((i < n) as u32))
        }
        Op::BroadcastLane(k) => lanes(&|_| Exp::Exact(a[k as usize])),
        Op::FoldSplat => {
            let r = (0..l).fold(b[0], |acc, i| fold_fn(m, acc, a[i]));
            lanes(&|_| Exp::Exact(r))
        }
        Op::BitsRoundtrip => (0..2 * l).map(|i| Exp::Exact(a[i % l])).collect(),
        Op::One => lanes(&|_| Exp::Exact(if is_f { fb(1.0) } else { 1 })),
        Op::Add => lanes(&|i| if is_f { Exp::Num(fb(f(a[i]) + f(b[i]))) } else { int(ty.to_i64(a[i]) + ty.to_i64(b[i])) }),
        Op::Sub => lanes(&|i| if is_f { Exp::Num(fb(f(a[i]) - f(b[i]))) } else { int(ty.to_i64(a[i]) - ty.to_i64(b[i])) }),
        Op::Mul => lanes(&|i| if is_f { Exp::Num(fb(f(a[i]) * f(b[i]))) } else { int(ty.to_i64(a[i]).wrapping_mul(ty.to_i64(b[i]))) }),
        Op::MulAdd => lanes(&|i| {
            if is_f {
                // "For float element types, this may use one or two roundings."
                let (x, y, z) = (f(a[i]), f(b[i]), f(c[i]));
                Exp::OneOf(vec![fb(x.mul_add(y, z)), fb(x * y + z)])
            } else {
                int(ty.to_i64(a[i]).wrapping_mul(ty.to_i64(b[i])).wrapping_add(ty.to_i64(c[i])))
            }
        }),
        Op::PolyEval => lanes(&|i| {
            // coeffs = [b, c, b]: ((b * x + c) * x + b) * x
            if is_f {
                let (x, c0, c1) = (f(a[i]), f(b[i]), f(c[i]));
                let fused = c0.mul_add(x, c1).mul_add(x, c0) * x;
                let unfused = ((c0 * x + c1) * x + c0) * x;
                Exp::OneOf(vec![fb(fused), fb(unfused)])
            } else {
                let (x, c0, c1) = (ty.to_i64(a[i]), ty.to_i64(b[i]), ty.to_i64(c[i]));
                let w = |v: i64| ty.to_i64(ty.wrap(v));
                let y = w(c0.wrapping_mul(x).wrapping_add(c1));
                let y = w(y.wrapping_mul(x).wrapping_add(c0));
                int(y.wrapping_mul(x))
            }
        }),
        Op::Eq | Op::Ge | Op::Gt | Op::Lt | Op::Le => lanes(&|i| Exp::Exact(cmp(ty, op, a[i], b[i]) as u32)),
        Op::Min | Op::Max => lanes(&|i| {
            if is_f {
                f32_min_max(op, a[i], b[i])
            } else {
                let (x, y) = (ty.to_i64(a[i]), ty.to_i64(b[i]));
                int(if op == Op::Min { x.min(y) } else { x.max(y) })
            }
        }),
        Op::Clamp => lanes(&|i| {
            // clamp(x, min, max) = min(max(x, min), max)
            if is_f {
                let (x, lo, hi) = (f(a[i]), f(b[i]), f(c[i]));
                let zero_tie = |p: f32, q: f32| p == 0.0 && q == 0.0;
                if x.is_nan() || lo.is_nan() || hi.is_nan() || zero_tie(x, lo) || zero_tie(x, hi) || zero_tie(lo, hi) {
                    Exp::OneOf(vec![a[i], b[i], c[i]])
                } else {
                    let t = if x >= lo { x } else { lo };
                    Exp::Num(fb(if t <= hi { t } else { hi }))
                }
            } else {
                let (x, lo, hi) = (ty.to_i64(a[i]), ty.to_i64(b[i]), ty.to_i64(c[i]));
                int(x.max(lo).min(hi))
            }
        }),
        Op::Sum => {
            if is_f {
                let xs: Vec<f64> = (0..l).map(|i| f(a[i]) as f64).collect();
                let abs: f64 = xs.iter().map(|v| v.abs()).sum();
                if xs.iter().any(|v| v.is_nan()) || (xs.contains(&f64::INFINITY) && xs.contains(&f64::NEG_INFINITY)) {
                    vec![Exp::Num(fb(f32::NAN))]
                } else if xs.iter().any(|v| v.is_infinite()) {
                    let fin_abs: f64 = xs.iter().filter(|v| v.is_finite()).map(|v| v.abs()).sum();
                    if fin_abs >= f32::MAX as f64 {
                        // a partial sum of the finite lanes may overflow to the opposite infinity -> NaN
                        vec![Exp::Any]
                    } else {
                        vec![Exp::Num(fb(xs.iter().sum::<f64>() as f32))]
                    }
                } else if abs >= f32::MAX as f64 {
                    vec![Exp::Any] // a partial sum may overflow depending on the order
                } else {
                    // any summation order: |error| <= (l - 1) * u * sum|x| (+ final rounding)
                    vec![Exp::Near(xs.iter().sum(), l as f64 * f32::EPSILON as f64 * abs + f32::MIN_POSITIVE as f64)]
                }
            } else {
                // "If the sum overflows, it will wrap."
                vec![int((0..l).fold(0i64, |s, i| s.wrapping_add(ty.to_i64(a[i]))))]
            }
        }
        Op::SelectCmp => lanes(&|i| Exp::Exact(if positive(ty, c[i]) { a[i] } else { b[i] })),
        Op::MaskToArray => lanes(&|i| Exp::Exact(positive(ty, a[i]) as u32)),
        Op::MaskAnd => lanes(&|i| Exp::Exact((positive(ty, a[i]) && positive(ty, b[i])) as u32)),
        Op::MaskAny => vec![Exp::Exact((0..l).any(|i| positive(ty, a[i])) as u32)],
        Op::MaskAll => vec![Exp::Exact((0..l).all(|i| positive(ty, a[i])) as u32)],
        Op::MaskAllFalse => vec![Exp::Exact(!(0..l).any(|i| positive(ty, a[i])) as u32)],
        Op::Div => lanes(&|i| Exp::Num(fb(f(a[i]) / f(b[i])))),
        Op::Reciprocal => lanes(&|i| Exp::Num(fb(1.0 / f(a[i])))),
        Op::FNeg => lanes(&|i| Exp::Exact(a[i] ^ 0x8000_0000)),
        Op::FAbs => lanes(&|i| Exp::Exact(a[i] & 0x7fff_ffff)),
        Op::RoundTiesEven => lanes(&|i| Exp::Num(fb(f(a[i]).round_ties_even()))),
        Op::MulSubFrom => lanes(&|i| {
            // "Compute c - a * b" (fused on FMA hardware, as mul_add)
            let (x, y, z) = (f(a[i]), f(b[i]), f(c[i]));
            Exp::OneOf(vec![fb((-x).mul_add(y, z)), fb(z - x * y)])
        }),
        Op::ToIntTrunc => lanes(&|i| f32_to_int(f(a[i]), false)),
        Op::ToIntRound => lanes(&|i| f32_to_int(f(a[i]), true)),
        Op::Shl(k) => lanes(&|i| Exp::Exact((a[i] << k) & m)),
        Op::Shr(k) => lanes(&|i| if ty.is_signed_int() { int(ty.to_i64(a[i]) >> k) } else { Exp::Exact((a[i] & m) >> k) }),
        Op::INeg => lanes(&|i| int(-ty.to_i64(a[i]))),
        Op::IAbs => lanes(&|i| int(ty.to_i64(a[i]).abs())),
        Op::ExtendLow | Op::ExtendHigh => {
            let oty = out_ty(ty, op);
            let off = if op == Op::ExtendLow { 0 } else { l / 2 };
            (0..l / 2)
                .map(|i| {
                    let x = a[off + i];
                    if ty == Ty::F16 {
                        Exp::Num(fb(ref_f16_to_f32(x as u16)))
                    } else {
                        Exp::Exact(oty.wrap(ty.to_i64(x)))
                    }
                })
                .collect()
        }
        Op::InterleaveLow | Op::InterleaveHigh => {
            let off = if op == Op::InterleaveLow { 0 } else { l / 2 };
            lanes(&|i| Exp::Exact(if i % 2 == 0 { a[off + i / 2] } else { b[off + i / 2] }))
        }
        Op::ConcatLow => lanes(&|i| Exp::Exact(if i < l / 2 { a[i] } else { b[i - l / 2] })),
        Op::ConcatHigh => lanes(&|i| Exp::Exact(if i < l / 2 { a[l / 2 + i] } else { b[i] })),
        Op::ToFloat => lanes(&|i| Exp::Exact(fb(a[i] as i32 as f32))),
        Op::NarrowSaturate => (0..2 * l)
            .map(|i| {
                let x = if i < l { a[i] } else { b[i - l] };
                match ty {
                    Ty::I32 => Exp::Exact(Ty::I16.wrap(ty.to_i64(x).clamp(i16::MIN as i64, i16::MAX as i64))),
                    Ty::I16 => Exp::Exact(Ty::U8.wrap(ty.to_i64(x).clamp(0, 255))),
                    _ => Exp::Num(ref_f32_to_f16(f(x)) as u32),
                }
            })
            .collect(),
    }
}

/// Reference for a whole block on an ISA with `lanes32` 32-bit lanes.
pub fn ref_block(ty: Ty, op: Op, lanes32: usize, a: &[u32], b: &[u32], c: &[u32]) -> Vec<Exp> {
    let l = ty.lanes(lanes32);
    let mut out = Vec::with_capacity(2 * N);
    let mut k = 0;
    while k < N {
        out.extend(ref_chunk(ty, op, l, &a[k..k + l], &b[k..k + l], &c[k..k + l]));
        k += l;
    }
    out
}

/// Documented latitude that makes a cross-ISA comparison meaningless.
pub fn cross_exempt(ty: Ty, op: Op) -> bool {
    ty == Ty::F32 && matches!(op, Op::MulAdd | Op::MulSubFrom | Op::PolyEval)
}

fn fmt_lane(ty: Ty, b: u32) -> String {
    match ty {
        Ty::F32 => format!("{:e} ({:#010x})", f(b), b),
        Ty::F16 => format!("{:e} (f16 {:#06x})", ref_f16_to_f32(b as u16), b),
        _ => format!("{} ({:#x})", ty.to_i64(b), b),
    }
}

/// Which comparison a case performs. Separate views keep a listed (known)
/// deviation of one ISA from hiding deviations of another.
#[derive(Clone, Copy, Debug, PartialEq, Eq, Hash, Serialize, Deserialize)]
pub enum View {
    /// One ISA against the scalar definition.
    Isa(IsaKind),
    /// All ISAs against each other, lane for lane (lane-wise primitives only).
    Cross,
}

impl View {
    pub fn name(self) -> &'static str {
        match self {
            View::Isa(k) => k.name(),
            View::Cross => "cross-isa",
        }
    }
}

/// Views applicable to a primitive.
pub fn views_for(ty: Ty, op: Op, isas: &[IsaKind]) -> Vec<View> {
    let mut v: Vec<View> = isas.iter().map(|k| View::Isa(*k)).collect();
    if op.lanewise() && !cross_exempt(ty, op) && isas.len() > 1 {
        v.push(View::Cross);
    }
    v
}

fn eval_caught(isa: IsaKind, ty: Ty, op: Op, a: &[u32], b: &[u32], c: &[u32]) -> Result<Vec<u32>, (String, String)> {
    vcore::catch(|| eval_block(isa, ty, op, a, b, c)).map_err(|p| {
        (
            format!("prim:{}:{}:{}:panic", ty.name(), op.name(), isa.name()),
            format!("{:?} on {} {} panicked: {} at {}", op, isa.name(), ty.name(), p.msg, p.loc()),
        )
    })
}

/// Evaluate the block and compare according to `view`.
pub fn check_block(ty: Ty, op: Op, a: &[u32], b: &[u32], c: &[u32], view: View, isas: &[IsaKind]) -> Result<(), (String, String)> {
    let oty = out_ty(ty, op);
    match view {
        View::Isa(isa) => {
            let l = ty.lanes(isa.lanes32());
            let got = eval_caught(isa, ty, op, a, b, c)?;
            let want = ref_block(ty, op, isa.lanes32(), a, b, c);
            if got.len() != want.len() {
                return Err((
                    format!("prim:{}:{}:{}:length", ty.name(), op.name(), isa.name()),
                    format!("{:?} on {}: {} output lanes, expected {}", op, isa.name(), got.len(), want.len()),
                ));
            }
            for (i, (g, w)) in got.iter().zip(&want).enumerate() {
                if !w.matches(oty, *g) {
                    let (chunk, lane) = if op.lanewise() { ((i / l) as isize, i % l) } else { (-1, i) };
                    let operands = if op.lanewise() {
                        format!("a={} b={} c={}", fmt_lane(ty, a[i]), fmt_lane(ty, b[i]), fmt_lane(ty, c[i]))
                    } else {
                        // the vector (chunk) this output belongs to: outputs per chunk = len / (N / l)
                        let per = (got.len() / (N / l)).max(1);
                        let k = (i / per).min(N / l - 1) * l;
                        format!("vector {} operands a={:x?} b={:x?} c[0]={:#x}", i / per, &a[k..k + l], &b[k..k + l], c[k])
                    };
                    return Err((
                        format!("prim:{}:{}:{}", ty.name(), op.name(), isa.name()),
                        format!(
                            "{:?} on {} ({} lanes of {}): output {} (vector {}, lane {}) = {}, scalar definition: {:?}; {}",
                            op,
                            isa.name(),
                            l,
                            ty.name(),
                            i,
                            chunk,
                            lane,
                            fmt_lane(oty, *g),
                            w,
                            operands
                        ),
                    ));
                }
            }
            Ok(())
        }
        View::Cross => {
            let mut outs: Vec<(IsaKind, Vec<u32>)> = Vec::with_capacity(3);
            for &isa in isas {
                // a panic is the business of the Isa view
                if let Ok(g) = eval_caught(isa, ty, op, a, b, c) {
                    outs.push((isa, g));
                }
            }
            // report the most severe class of difference found in the block, so that a listed
            // (known) NaN / out-of-range difference cannot hide a plain value difference
            let mut worst: Option<(u8, String, String)> = None;
            for w in outs.windows(2) {
                let ((ia, ga), (ib, gb)) = (&w[0], &w[1]);
                for i in 0..ga.len().min(gb.len()) {
                    let (x, y) = (ga[i], gb[i]);
                    if x != y && !(oty.is_nan(x) && oty.is_nan(y)) {
                        let (rank, class) = if ty.is_float() && (ty.is_nan(a[i]) || (op.arity() >= 2 && ty.is_nan(b[i])) || (op.arity() == 3 && ty.is_nan(c[i]))) {
                            (0, "nan-operand")
                        } else if ty == Ty::F32 && matches!(op, Op::ToIntTrunc | Op::ToIntRound) && !(f(a[i]).abs() < 2_147_483_000.0) {
                            (1, "out-of-range")
                        } else if ty == Ty::F32 && matches!(op, Op::Min | Op::Max | Op::Clamp) && ((f(a[i]) == 0.0 && f(b[i]) == 0.0) || (op == Op::Clamp && f(c[i]) == 0.0 && (f(a[i]) == 0.0 || f(b[i]) == 0.0))) {
                            (2, "signed-zero")
                        } else {
                            (3, "value")
                        };
                        if worst.as_ref().map_or(true, |w| rank > w.0) {
                            worst = Some((
                                rank,
                                format!("cross-isa:{}:{}:{}:{}!={}", ty.name(), op.name(), class, ia.name(), ib.name()),
                                format!(
                                    "{:?} on {}: {} gives {} but {} gives {} for a={} b={} c={}",
                                    op,
                                    ty.name(),
                                    ia.name(),
                                    fmt_lane(oty, x),
                                    ib.name(),
                                    fmt_lane(oty, y),
                                    fmt_lane(ty, a[i]),
                                    fmt_lane(ty, b[i]),
                                    fmt_lane(ty, c[i])
                                ),
                            ));
                        }
                    }
                }
            }
            match worst {
                Some((_, sig, detail)) => Err((sig, detail)),
                None => Ok(()),
            }
        }
    }
}

//! Shared code for the SIMD checks: C18 (ISAs agree, stay within slice
//! bounds) and C19 (vectorized math accuracy).

pub mod bounds;
pub mod guard;
pub mod isa;
pub mod lane;
pub mod math;
pub mod prim;
pub mod vm;

//! rten-vecmath operations evaluated on a chosen ISA with their input and
//! output slices flush against guard pages (C18 `vecmath` sub-check).
//!
//! Oracles (C18 is about ISA agreement / scalar definition / bounds; the
//! *accuracy* of the math functions is C19's business and is not re-judged
//! here):
//!  * every op: the guarded run equals a run of the same op, same ISA, on
//!    ordinary heap vectors (bit-exact; the op is a pure function of the slice
//!    contents, whatever the slice's position), and nothing outside the slices
//!    is written (canary) or touched (guard page);
//!  * unary functions: every output element equals the function evaluated on a
//!    full vector of that value on the same ISA (tail masking / lane position
//!    do not matter);
//!  * exact ops (LeakyRelu, MinMax, MaxNum, MinNum, Quantize, F16ToF32,
//!    F32ToF16) are compared with their documented scalar definition;
//!  * sums are compared with an f64 sum under the a-priori bound
//!    n * eps * sum|terms| valid for any summation order.

use std::mem::MaybeUninit;

use rten_simd::f16;
use rten_vecmath::{
    F16ToF32, F32ToF16, LeakyRelu, LogSoftmax, MaxNum, MinMax, MinNum, Normalize, NormalizeOptions, Quantize, Softmax, Sum, SumAbs, SumExpSub, SumSquare,
    SumSquareSub,
};
use serde::{Deserialize, Serialize};

use crate::guard::{with_regions, Place, Region};
use crate::isa::{run_on, IsaKind};
use crate::lane::{ref_f16_to_f32, ref_f32_to_f16};
use crate::math::{eval_func, eval_func_uninit, map_on, Func, ALL_FUNCS, SIN_COS_LARGE};

#[derive(Clone, Copy, Debug, PartialEq, Eq, Hash, Serialize, Deserialize)]
pub enum VmOp {
    Unary(Func),
    LeakyRelu,
    Softmax,
    SoftmaxFlush,
    LogSoftmax,
    /// 0: constant scale+bias, 1: element scale only (bias 0), 2: element scale + element bias, 3: element bias only
    Normalize(u8),
    Sum,
    SumSquare,
    SumAbs,
    SumSquareSub,
    SumExpSub,
    MinMax,
    MaxNum,
    MinNum,
    QuantizeU8,
    F16ToF32,
    F32ToF16,
}

pub fn all_vm_ops() -> Vec<VmOp> {
    let mut v: Vec<VmOp> = ALL_FUNCS.iter().map(|f| VmOp::Unary(*f)).collect();
    v.extend([
        VmOp::LeakyRelu,
        VmOp::Softmax,
        VmOp::SoftmaxFlush,
        VmOp::LogSoftmax,
        VmOp::Normalize(0),
        VmOp::Normalize(1),
        VmOp::Normalize(2),
        VmOp::Normalize(3),
        VmOp::Sum,
        VmOp::SumSquare,
        VmOp::SumAbs,
        VmOp::SumSquareSub,
        VmOp::SumExpSub,
        VmOp::MinMax,
        VmOp::MaxNum,
        VmOp::MinNum,
        VmOp::QuantizeU8,
        VmOp::F16ToF32,
        VmOp::F32ToF16,
    ]);
    v
}

impl VmOp {
    pub fn name(self) -> String {
        match self {
            VmOp::Unary(f) => f.name().to_string(),
            VmOp::Normalize(k) => format!("normalize{k}"),
            o => format!("{o:?}").to_lowercase(),
        }
    }
    /// Largest slice length worth testing: 4 * (elements consumed per loop iteration on AVX-512) + 3.
    pub fn max_len(self) -> usize {
        match self {
            VmOp::QuantizeU8 => 4 * 64 + 3,
            VmOp::F16ToF32 | VmOp::F32ToF16 => 4 * 32 + 3,
            VmOp::Softmax | VmOp::SoftmaxFlush | VmOp::LogSoftmax | VmOp::MinMax => 4 * 64 + 3, // fold_unroll<4>
            VmOp::Sum | VmOp::SumSquare | VmOp::SumAbs | VmOp::SumSquareSub => 4 * 64 + 3,
            _ => 4 * 16 + 3,
        }
    }
}

#[derive(Clone, Debug, Serialize, Deserialize)]
pub struct VmCase {
    pub op: VmOp,
    pub isa: IsaKind,
    pub place: Place,
    pub in_place: bool,
    /// f32 bit patterns (f16 bit patterns in the low half for F16ToF32); the slice length is vals.len()
    pub vals: Vec<u32>,
    /// op parameters, each v / 64 (alpha, offset, inv_scale, pre_scale_bias, scale, bias, zero point, ...)
    pub p: [i32; 3],
}

const ALPHA: f32 = 0.125;

/// Result of running one op: output elements as bit patterns (scalars for reductions).
type Out = Vec<u32>;

fn fb(v: &[f32]) -> Out {
    v.iter().map(|x| x.to_bits()).collect()
}

/// Run `c.op` on `c.isa`. `bufs` supplies the buffers: (src, dst, aux1, aux2), each
/// of the given element count; they may be heap or guarded memory.
struct Bufs<'a> {
    src: &'a mut [f32],
    dst: &'a mut [MaybeUninit<f32>],
    aux1: &'a mut [f32],
    aux2: &'a mut [f32],
    src16: &'a mut [f16],
    dst16: &'a mut [MaybeUninit<f16>],
    dst8: &'a mut [MaybeUninit<u8>],
}

fn param(c: &VmCase, i: usize) -> f32 {
    c.p[i] as f32 / 64.0
}

fn init_f32(s: &[MaybeUninit<f32>]) -> Out {
    // Safety: the op under test initialised every element (and the harness pre-filled the memory).
    s.iter().map(|v| unsafe { v.assume_init() }.to_bits()).collect()
}

fn run(c: &VmCase, b: Bufs<'_>) -> Out {
    let isa = c.isa;
    let n = c.vals.len();
    match c.op {
        VmOp::Unary(f) => {
            if c.in_place {
                // map_mut equivalent: simd_map over a single mutable slice
                crate::math::eval_func_in_place(isa, f, b.src);
                fb(b.src)
            } else {
                eval_func_uninit(isa, f, b.src, b.dst);
                init_f32(b.dst)
            }
        }
        VmOp::LeakyRelu => {
            map_on(isa, &LeakyRelu { alpha: ALPHA }, b.src, b.dst);
            init_f32(b.dst)
        }
        VmOp::Softmax | VmOp::SoftmaxFlush => {
            let flush = c.op == VmOp::SoftmaxFlush;
            if c.in_place {
                run_on(isa, Softmax::new_mut(b.src).flush_nans_to_zero(flush));
                fb(b.src)
            } else {
                run_on(isa, Softmax::new(b.src, b.dst).flush_nans_to_zero(flush));
                init_f32(b.dst)
            }
        }
        VmOp::LogSoftmax => {
            if c.in_place {
                run_on(isa, LogSoftmax::new_mut(b.src));
                fb(b.src)
            } else {
                run_on(isa, LogSoftmax::new(b.src, b.dst));
                init_f32(b.dst)
            }
        }
        VmOp::Normalize(k) => {
            let opts = NormalizeOptions {
                pre_scale_bias: param(c, 0),
                scale: param(c, 1),
                bias: if k == 1 { 0.0 } else { param(c, 2) },
                element_scale: matches!(k, 1 | 2).then_some(&*b.aux1),
                element_bias: matches!(k, 2 | 3).then_some(&*b.aux2),
            };
            if c.in_place {
                run_on(isa, Normalize::new_mut(b.src, opts));
                fb(b.src)
            } else {
                run_on(isa, Normalize::new(b.src, b.dst, opts));
                init_f32(b.dst)
            }
        }
        VmOp::Sum => vec![run_on(isa, Sum::new(b.src)).to_bits()],
        VmOp::SumSquare => vec![run_on(isa, SumSquare::new(b.src)).to_bits()],
        VmOp::SumAbs => vec![run_on(isa, SumAbs::new(b.src)).to_bits()],
        VmOp::SumSquareSub => vec![run_on(isa, SumSquareSub::new(b.src, param(c, 0))).to_bits()],
        VmOp::SumExpSub => vec![run_on(isa, SumExpSub::new(b.src, param(c, 0))).to_bits()],
        VmOp::MinMax => {
            let (lo, hi) = run_on(isa, MinMax::new(b.src));
            vec![lo.to_bits(), hi.to_bits()]
        }
        VmOp::MaxNum => vec![run_on(isa, MaxNum::new(&*b.src)).to_bits()],
        VmOp::MinNum => vec![run_on(isa, MinNum::new(&*b.src)).to_bits()],
        VmOp::QuantizeU8 => {
            let zp = (c.p[1].unsigned_abs() % 256) as u8;
            let out = run_on(isa, Quantize::new(b.src, b.dst8, param(c, 0), zp));
            assert_eq!(out.len(), n);
            out.iter().map(|v| *v as u32).collect()
        }
        VmOp::F16ToF32 => {
            let out = run_on(isa, F16ToF32::new(b.src16, b.dst));
            assert_eq!(out.len(), n);
            fb(out)
        }
        VmOp::F32ToF16 => {
            let out = run_on(isa, F32ToF16::new(b.src, b.dst16));
            assert_eq!(out.len(), n);
            out.iter().map(|v| v.to_bits() as u32).collect()
        }
    }
}

fn aux_val(i: usize, k: usize) -> f32 {
    // deterministic small values for element_scale / element_bias
    (((i * 5 + k * 3) % 17) as f32 - 8.0) / 4.0
}

fn heap_run(c: &VmCase) -> Out {
    let n = c.vals.len();
    let mut src: Vec<f32> = c.vals.iter().map(|b| f32::from_bits(*b)).collect();
    let mut dst = vec![MaybeUninit::new(f32::from_bits(0x7fc0_dead)); n];
    let mut aux1: Vec<f32> = (0..n).map(|i| aux_val(i, 1)).collect();
    let mut aux2: Vec<f32> = (0..n).map(|i| aux_val(i, 2)).collect();
    let mut src16: Vec<f16> = c.vals.iter().map(|b| f16::from_bits(*b as u16)).collect();
    let mut dst16 = vec![MaybeUninit::new(f16::from_bits(0x7e00)); n];
    let mut dst8 = vec![MaybeUninit::new(0xA5u8); n];
    run(
        c,
        Bufs { src: &mut src, dst: &mut dst, aux1: &mut aux1, aux2: &mut aux2, src16: &mut src16, dst16: &mut dst16, dst8: &mut dst8 },
    )
}

/// # Safety
/// see `bounds::guarded`.
unsafe fn gslice<'a, T>(r: &Region, len: usize, place: Place) -> &'a mut [T] {
    std::slice::from_raw_parts_mut(r.place::<T>(len, place), len)
}

fn guarded_run(c: &VmCase) -> Result<Out, String> {
    let n = c.vals.len();
    with_regions(|r| {
        // Which element types live in which region depends on the op:
        //   r0: source (f32 or f16), r1: destination (f32 / f16 / u8), r2: element_scale, r3: element_bias
        let place = c.place;
        // Safety: see `gslice`.
        unsafe {
            let f16_src = c.op == VmOp::F16ToF32;
            let src: &mut [f32] = if f16_src { &mut [] } else { gslice(&r[0], n, place) };
            let src16: &mut [f16] = if f16_src { gslice(&r[0], n, place) } else { &mut [] };
            for (i, v) in c.vals.iter().enumerate() {
                if f16_src {
                    src16[i] = f16::from_bits(*v as u16);
                } else {
                    src[i] = f32::from_bits(*v);
                }
            }
            let (dst, dst16, dst8): (&mut [MaybeUninit<f32>], &mut [MaybeUninit<f16>], &mut [MaybeUninit<u8>]) = match c.op {
                VmOp::F32ToF16 => (&mut [], gslice(&r[1], n, place), &mut []),
                VmOp::QuantizeU8 => (&mut [], &mut [], gslice(&r[1], n, place)),
                _ => (gslice(&r[1], n, place), &mut [], &mut []),
            };
            let aux1: &mut [f32] = gslice(&r[2], n, place);
            let aux2: &mut [f32] = gslice(&r[3], n, place);
            for i in 0..n {
                aux1[i] = aux_val(i, 1);
                aux2[i] = aux_val(i, 2);
            }
            let (sp, sb) = if f16_src { (src16.as_ptr() as *const u8, n * 2) } else { (src.as_ptr() as *const u8, n * 4) };
            let (dp, db) = match c.op {
                VmOp::F32ToF16 => (dst16.as_ptr() as *const u8, n * 2),
                VmOp::QuantizeU8 => (dst8.as_ptr() as *const u8, n),
                _ => (dst.as_ptr() as *const u8, n * 4),
            };
            let (a1, a2) = (aux1.as_ptr() as *const u8, aux2.as_ptr() as *const u8);
            let out = run(c, Bufs { src, dst, aux1, aux2, src16, dst16, dst8 });
            for (k, (reg, p, bytes)) in [(&r[0], sp, sb), (&r[1], dp, db), (&r[2], a1, n * 4), (&r[3], a2, n * 4)].into_iter().enumerate() {
                if !reg.canary_intact(p, bytes) {
                    return Err(format!("memory outside slice {k} (0 = source, 1 = destination, 2/3 = element scale/bias) was modified"));
                }
            }
            // read-only inputs must be unchanged
            for i in 0..n {
                let a1v = *(a1 as *const f32).add(i);
                let a2v = *(a2 as *const f32).add(i);
                if a1v.to_bits() != aux_val(i, 1).to_bits() || a2v.to_bits() != aux_val(i, 2).to_bits() {
                    return Err("element_scale / element_bias input was modified".into());
                }
            }
            Ok(out)
        }
    })
}

fn same(a: u32, b: u32, float: bool) -> bool {
    a == b || (float && f32::from_bits(a).is_nan() && f32::from_bits(b).is_nan())
}

/// Decide one case. Ok(labels) or Err((signature, detail)).
pub fn check(c: &VmCase) -> Result<Vec<&'static str>, (String, String)> {
    let n = c.vals.len();
    let name = c.op.name();
    let isa = c.isa.name();
    let sig = |what: &str| format!("vecmath:{name}:{what}:{isa}");
    let xs: Vec<f32> = c.vals.iter().map(|b| f32::from_bits(*b)).collect();

    let got = guarded_run(c).map_err(|e| (sig("out-of-slice-write"), format!("{name} on {isa}, len {n}, {:?}: {e}", c.place)))?;
    let heap = heap_run(c);
    let float_out = !matches!(c.op, VmOp::QuantizeU8 | VmOp::F32ToF16);
    if got.len() != heap.len() {
        return Err((sig("placement"), format!("output length differs between guarded ({}) and heap ({}) buffers", got.len(), heap.len())));
    }
    for i in 0..got.len() {
        if !same(got[i], heap[i], float_out) {
            return Err((
                sig("placement"),
                format!("{name} on {isa}, len {n}: output[{i}] = {:#x} with guard-page buffers ({:?}) but {:#x} with heap buffers", got[i], c.place, heap[i]),
            ));
        }
    }
    let mut labels: Vec<&'static str> = Vec::new();
    let g = |i: usize| f32::from_bits(got[i]);
    match c.op {
        VmOp::Unary(f) => {
            // tail / lane-position independence: compare with the value evaluated alone in full vectors
            for i in 0..n {
                let full = [xs[i]; 16];
                let mut o = [0f32; 16];
                eval_func(c.isa, f, &full, &mut o);
                let mut ok = same(got[i], o[0].to_bits(), true);
                if !ok && matches!(f, Func::Sin | Func::Cos) && xs.iter().any(|x| x.abs() >= SIN_COS_LARGE) {
                    // documented: if any lane of a vector is large the whole vector is evaluated by std
                    let std = if f == Func::Sin { xs[i].sin() } else { xs[i].cos() };
                    ok = same(got[i], std.to_bits(), true);
                    labels.push("sin/cos large-lane fallback");
                }
                if !ok {
                    return Err((
                        sig("lane-dependent"),
                        format!("{name}({:e}) on {isa} = {:e} at index {i} of a slice of {n}, but {:e} when evaluated in a full vector", xs[i], g(i), o[0]),
                    ));
                }
            }
        }
        VmOp::LeakyRelu => {
            for i in 0..n {
                let want = if xs[i] < 0. { ALPHA * xs[i] } else { xs[i] };
                if !same(got[i], want.to_bits(), true) {
                    return Err((sig("value"), format!("leaky_relu({:e}) on {isa} = {:e}, scalar definition {:e}", xs[i], g(i), want)));
                }
            }
        }
        VmOp::Sum | VmOp::SumSquare | VmOp::SumAbs | VmOp::SumSquareSub => {
            let off = param(c, 0) as f64;
            let terms: Vec<f64> = xs
                .iter()
                .map(|x| {
                    let x = *x as f64;
                    match c.op {
                        VmOp::Sum => x,
                        VmOp::SumSquare => x * x,
                        VmOp::SumAbs => x.abs(),
                        _ => (x - off) * (x - off),
                    }
                })
                .collect();
            let abs: f64 = terms.iter().map(|t| t.abs()).sum();
            if xs.iter().all(|x| x.is_finite()) && abs < 1e37 {
                let want: f64 = terms.iter().sum();
                // any order of n additions (+ one rounding per term for the square / subtraction)
                let tol = (n as f64 + 4.0) * f32::EPSILON as f64 * abs + f32::MIN_POSITIVE as f64;
                if !((g(0) as f64 - want).abs() <= tol) {
                    return Err((sig("value"), format!("{name} on {isa}, len {n}: {:e}, f64 reference {want:e} (tolerance {tol:e}); input {xs:?}", g(0))));
                }
                labels.push("sum judged");
            } else {
                labels.push("sum not judged (non-finite / huge)");
            }
        }
        VmOp::MinMax | VmOp::MaxNum | VmOp::MinNum => {
            let any_nan = xs.iter().any(|x| x.is_nan());
            let mx = xs.iter().copied().fold(f32::NEG_INFINITY, f32::max);
            let mn = xs.iter().copied().fold(f32::INFINITY, f32::min);
            let eq = |a: f32, b: f32| a == b || (a.is_nan() && b.is_nan());
            match c.op {
                VmOp::MinMax => {
                    // documented: (min, max); empty -> (+inf, -inf). NaN handling is not documented.
                    if !any_nan && !(eq(g(0), mn) && eq(g(1), mx)) {
                        return Err((sig("value"), format!("min_max on {isa}, len {n}: ({:e}, {:e}), scalar definition ({mn:e}, {mx:e}); input {xs:?}", g(0), g(1))));
                    }
                }
                VmOp::MaxNum => {
                    // documented: maximum, propagating NaNs; empty -> -inf
                    let want = if any_nan { f32::NAN } else { mx };
                    if !eq(g(0), want) {
                        let class = if any_nan { "nan-not-propagated" } else { "value" };
                        return Err((sig(class), format!("max_num on {isa}, len {n}: {:e}, scalar definition {want:e}; input {xs:?}", g(0))));
                    }
                }
                _ => {
                    let want = if any_nan { f32::NAN } else { mn };
                    if !eq(g(0), want) {
                        let class = if any_nan { "nan-not-propagated" } else { "value" };
                        return Err((sig(class), format!("min_num on {isa}, len {n}: {:e}, scalar definition {want:e}; input {xs:?}", g(0))));
                    }
                }
            }
            if any_nan {
                labels.push("has NaN");
            }
        }
        VmOp::QuantizeU8 => {
            // documented: y = saturate(round(x * inv_scale) + zero_point), round = nearest-even to i32,
            // saturate = i32 -> u8 with saturation
            let inv_scale = param(c, 0);
            let zp = (c.p[1].unsigned_abs() % 256) as i64;
            for i in 0..n {
                let r = (xs[i] * inv_scale).round_ties_even();
                if r.is_nan() {
                    labels.push("quantize NaN (not judged)");
                    continue;
                }
                // "in range" = neither the float -> i32 conversion nor the i32 addition of the zero
                // point leaves the i32 range (same root cause: no saturation before/at the addition)
                let in_range = r >= -2_147_483_648.0 && (r as f64) + 255.0 < 2_147_483_648.0;
                let want = if r >= -2_147_483_648.0 && r < 2_147_483_648.0 { ((r as i64) + zp).clamp(0, 255) } else if r > 0.0 { 255 } else { 0 } as u32;
                if got[i] != want {
                    let class = if in_range { "value" } else { "out-of-range" };
                    return Err((
                        sig(class),
                        format!(
                            "quantize on {isa}: x = {:e}, inv_scale = {inv_scale}, zero_point = {zp}: output[{i}] of {n} = {}, documented formula saturate(round(x*inv_scale)+zp) = {want}",
                            xs[i], got[i]
                        ),
                    ));
                }
                if !in_range {
                    labels.push("quantize out-of-i32-range input");
                }
            }
        }
        VmOp::F16ToF32 => {
            for i in 0..n {
                let want = ref_f16_to_f32(c.vals[i] as u16);
                if !same(got[i], want.to_bits(), true) {
                    return Err((sig("value"), format!("f16_to_f32({:#06x}) on {isa} at index {i} of {n} = {:e}, expected {want:e}", c.vals[i] as u16, g(i))));
                }
            }
        }
        VmOp::F32ToF16 => {
            for i in 0..n {
                let want = ref_f32_to_f16(xs[i]);
                let nan16 = |h: u32| (h & 0x7c00) == 0x7c00 && (h & 0x3ff) != 0;
                if got[i] != want as u32 && !(nan16(got[i]) && nan16(want as u32)) {
                    return Err((sig("value"), format!("f32_to_f16({:e}) on {isa} at index {i} of {n} = {:#06x}, expected {want:#06x}", xs[i], got[i])));
                }
            }
        }
        VmOp::Softmax | VmOp::SoftmaxFlush | VmOp::LogSoftmax | VmOp::Normalize(_) | VmOp::SumExpSub => {
            // in-place and src->dst must agree bit for bit
            let mut alt = c.clone();
            alt.in_place = !c.in_place;
            if c.op != VmOp::SumExpSub {
                let other = heap_run(&alt);
                for i in 0..n {
                    if !same(heap[i], other[i], true) {
                        return Err((sig("in-place-differs"), format!("{name} on {isa}, len {n}: output[{i}] = {:#x} in place but {:#x} with separate buffers", heap[i], other[i])));
                    }
                }
            }
        }
    }
    if n % 16 != 0 {
        labels.push("len%16!=0");
    }
    Ok(labels)
}

//! Evaluate a `SimdOp` on a *chosen* instruction set.
//!
//! `rten_simd::dispatch` always picks the widest ISA of the host (AVX-512
//! here). The ISA types themselves are public (`rten_simd::isa`), so the
//! harness constructs them directly and calls `SimdOp::eval(isa)` inside
//! `#[target_feature]` trampolines that enable exactly the features
//! `rten_simd::dispatch` enables for that ISA.

use rten_simd::isa::{Avx2Isa, Avx512Isa, GenericIsa};
use rten_simd::{Isa, SimdOp};
use serde::{Deserialize, Serialize};

#[derive(Clone, Copy, Debug, PartialEq, Eq, Hash, PartialOrd, Ord, Serialize, Deserialize)]
pub enum IsaKind {
    Generic,
    Avx2,
    Avx512,
}

pub const ALL_ISAS: [IsaKind; 3] = [IsaKind::Generic, IsaKind::Avx2, IsaKind::Avx512];

impl IsaKind {
    pub fn name(self) -> &'static str {
        match self {
            IsaKind::Generic => "generic",
            IsaKind::Avx2 => "avx2",
            IsaKind::Avx512 => "avx512",
        }
    }

    /// Number of 32-bit lanes of this ISA's vectors.
    pub fn lanes32(self) -> usize {
        match self {
            IsaKind::Generic => 4,
            IsaKind::Avx2 => 8,
            IsaKind::Avx512 => 16,
        }
    }

    pub fn available(self) -> bool {
        match self {
            IsaKind::Generic => true,
            IsaKind::Avx2 => Avx2Isa::new().is_some(),
            IsaKind::Avx512 => Avx512Isa::new().is_some(),
        }
    }

    pub fn from_index(i: usize) -> IsaKind {
        ALL_ISAS[i % 3]
    }
}

// Same feature sets as rten-simd/src/dispatch.rs.
#[target_feature(enable = "avx512f")]
#[target_feature(enable = "avx512vl")]
#[target_feature(enable = "avx512bw")]
#[target_feature(enable = "avx512dq")]
#[target_feature(enable = "f16c")]
unsafe fn tramp_avx512<I: Isa, Op: SimdOp>(isa: I, op: Op) -> Op::Output {
    op.eval(isa)
}

#[target_feature(enable = "avx2")]
#[target_feature(enable = "avx")]
#[target_feature(enable = "fma")]
#[target_feature(enable = "f16c")]
unsafe fn tramp_avx2<I: Isa, Op: SimdOp>(isa: I, op: Op) -> Op::Output {
    op.eval(isa)
}

/// Evaluate `op` with the given ISA. Panics if the ISA is not available on
/// this host (callers check `available()` first).
pub fn run_on<Op: SimdOp>(kind: IsaKind, op: Op) -> Op::Output {
    match kind {
        IsaKind::Generic => op.eval(GenericIsa::new()),
        IsaKind::Avx2 => {
            let isa = Avx2Isa::new().expect("AVX2 not available on this host");
            // Safety: Avx2Isa::new checked avx2+fma+f16c.
            unsafe { tramp_avx2(isa, op) }
        }
        IsaKind::Avx512 => {
            let isa = Avx512Isa::new().expect("AVX-512 not available on this host");
            // Safety: Avx512Isa::new checked avx512{f,vl,bw,dq}+f16c.
            unsafe { tramp_avx512(isa, op) }
        }
    }
}

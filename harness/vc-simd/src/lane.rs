//! Element types of SIMD vectors as the harness sees them: every lane value
//! is carried around as a zero-extended `u32` bit pattern.

use rten_simd::f16;
use serde::{Deserialize, Serialize};

#[derive(Clone, Copy, Debug, PartialEq, Eq, Hash, Serialize, Deserialize)]
pub enum Ty {
    I8,
    U8,
    I16,
    U16,
    I32,
    F32,
    F16,
}

pub const ALL_TYS: [Ty; 7] = [Ty::I8, Ty::U8, Ty::I16, Ty::U16, Ty::I32, Ty::F32, Ty::F16];

impl Ty {
    pub fn name(self) -> &'static str {
        match self {
            Ty::I8 => "i8",
            Ty::U8 => "u8",
            Ty::I16 => "i16",
            Ty::U16 => "u16",
            Ty::I32 => "i32",
            Ty::F32 => "f32",
            Ty::F16 => "f16",
        }
    }
    pub fn bits(self) -> u32 {
        match self {
            Ty::I8 | Ty::U8 => 8,
            Ty::I16 | Ty::U16 | Ty::F16 => 16,
            Ty::I32 | Ty::F32 => 32,
        }
    }
    pub fn mask(self) -> u32 {
        if self.bits() == 32 {
            u32::MAX
        } else {
            (1u32 << self.bits()) - 1
        }
    }
    pub fn is_float(self) -> bool {
        matches!(self, Ty::F32 | Ty::F16)
    }
    pub fn is_signed_int(self) -> bool {
        matches!(self, Ty::I8 | Ty::I16 | Ty::I32)
    }
    pub fn is_int(self) -> bool {
        !self.is_float()
    }
    /// Sign-extend (signed ints) or zero-extend the bit pattern to i64.
    pub fn to_i64(self, b: u32) -> i64 {
        match self {
            Ty::I8 => b as u8 as i8 as i64,
            Ty::I16 => b as u16 as i16 as i64,
            Ty::I32 => b as i32 as i64,
            _ => (b & self.mask()) as i64,
        }
    }
    /// Truncate an integer to this type's bit pattern (wrapping).
    pub fn wrap(self, v: i64) -> u32 {
        (v as u32) & self.mask()
    }
    pub fn is_nan(self, b: u32) -> bool {
        match self {
            Ty::F32 => f32::from_bits(b).is_nan(),
            Ty::F16 => (b & 0x7c00) == 0x7c00 && (b & 0x03ff) != 0,
            _ => false,
        }
    }
    /// Number of lanes of a vector of this type on an ISA with `lanes32` 32-bit lanes.
    pub fn lanes(self, lanes32: usize) -> usize {
        lanes32 * 32 / self.bits() as usize
    }

    /// Edge values of this type (bit patterns).
    pub fn edges(self) -> Vec<u32> {
        let m = self.mask();
        match self {
            Ty::I8 | Ty::U8 => (0..=255u32).collect(),
            Ty::I16 | Ty::U16 | Ty::I32 => {
                let b = self.bits();
                let top = 1u32 << (b - 1);
                let mut v = vec![
                    0, 1, 2, 3, 7, 8, 15, 16, 127, 128, 129, 255, 256, 257, m, m - 1, m - 2, top, top - 1, top + 1, top - 2, top >> 1, (top >> 1) - 1,
                    (top >> 1) | top, 0x5555_5555 & m, 0xaaaa_aaaa & m, 0x00ff_00ff & m, 0xff00_ff00 & m, m - 127, m - 128, m - 255, m - 256,
                ];
                if b == 32 {
                    v.extend([0x7fff, 0x8000, 0xffff, 0x1_0000, 0xffff_8000, 0xffff_7fff, 46341, 46340, 65535, 65536, 0x0100_0000, 0x00ff_ffff, 0x0100_0001]);
                } else {
                    v.extend([181, 182, 0x00b5, 0x7f00, 0x80ff]);
                }
                v.sort_unstable();
                v.dedup();
                v
            }
            Ty::F32 => {
                let mut v: Vec<u32> = vec![
                    0x0000_0000, 0x8000_0000, 0x0000_0001, 0x8000_0001, 0x007f_ffff, 0x807f_ffff, 0x0080_0000, 0x8080_0000, 0x7f7f_ffff, 0xff7f_ffff, 0x7f80_0000,
                    0xff80_0000, 0x7fc0_0000, 0xffc0_0000, 0x7f80_0001, 0xff80_0001, 0x7fff_ffff, 0xffff_ffff,
                ];
                for f in [
                    1.0f32, 0.5, 1.5, 2.5, 3.5, 0.499_999_97, 0.500_000_06, 2.0, 3.0, 1e-20, 1e20, 1e38, 3e38, 65504.0, 65520.0, 65519.996, 65536.0, 6.1e-5, 5.96e-8, 2.98e-8, 2.980_232_4e-8,
                    8_388_608.0, 8_388_607.5, 4_194_304.5, 16_777_216.0, 16_777_217.0, 2_147_483_648.0, 2_147_483_520.0, 2_147_483_904.0, 4_294_967_296.0, 1.000_000_1, 0.999_999_94,
                    1.401_298_4e-45, 3.0e-45, std::f32::consts::PI, 0.1, 255.5, 256.5, 32767.5, 32768.5, 127.5, 128.5,
                ] {
                    v.push(f.to_bits());
                    v.push((-f).to_bits());
                }
                v.sort_unstable();
                v.dedup();
                v
            }
            Ty::F16 => {
                let mut v = vec![
                    0x0000u32, 0x8000, 0x0001, 0x8001, 0x03ff, 0x83ff, 0x0400, 0x8400, 0x7bff, 0xfbff, 0x7c00, 0xfc00, 0x7e00, 0xfe00, 0x7c01, 0xfc01, 0x7fff, 0xffff, 0x3c00, 0xbc00,
                    0x3800, 0x3555, 0x4248,
                ];
                v.sort_unstable();
                v.dedup();
                v
            }
        }
    }
}

/// Element types usable as lanes; conversions to/from the u32 carrier.
pub trait Lane: Copy + Default + PartialEq + std::fmt::Debug + 'static {
    const TY: Ty;
    fn from_u32(b: u32) -> Self;
    fn to_u32(self) -> u32;
}

macro_rules! impl_lane_int {
    ($t:ty, $ty:expr) => {
        impl Lane for $t {
            const TY: Ty = $ty;
            #[inline]
            fn from_u32(b: u32) -> Self {
                b as $t
            }
            #[inline]
            fn to_u32(self) -> u32 {
                (self as u32) & $ty.mask()
            }
        }
    };
}
impl_lane_int!(i8, Ty::I8);
impl_lane_int!(u8, Ty::U8);
impl_lane_int!(i16, Ty::I16);
impl_lane_int!(u16, Ty::U16);
impl_lane_int!(i32, Ty::I32);

impl Lane for f32 {
    const TY: Ty = Ty::F32;
    #[inline]
    fn from_u32(b: u32) -> Self {
        f32::from_bits(b)
    }
    #[inline]
    fn to_u32(self) -> u32 {
        self.to_bits()
    }
}

impl Lane for f16 {
    const TY: Ty = Ty::F16;
    #[inline]
    fn from_u32(b: u32) -> Self {
        f16::from_bits(b as u16)
    }
    #[inline]
    fn to_u32(self) -> u32 {
        self.to_bits() as u32
    }
}

/// Reference IEEE 754 binary16 -> binary32 conversion (exact), written
/// independently of rten-simd's float16.rs: value = (-1)^s * m * 2^e computed
/// with f64 arithmetic.
pub fn ref_f16_to_f32(h: u16) -> f32 {
    let s = if h & 0x8000 != 0 { -1.0f64 } else { 1.0 };
    let e = ((h >> 10) & 0x1f) as i32;
    let m = (h & 0x3ff) as f64;
    if e == 0x1f {
        return if m == 0.0 {
            (s * f64::INFINITY) as f32
        } else {
            f32::NAN
        };
    }
    let v = if e == 0 {
        m * (2.0f64).powi(-24)
    } else {
        (1024.0 + m) * (2.0f64).powi(e - 25)
    };
    let r = (s * v) as f32; // exact: every f16 is representable in f32
    r
}

/// Reference binary32 -> binary16 conversion, round to nearest even, overflow
/// to infinity, by searching the (monotone) f16 value table. NaN -> 0x7e00 |
/// sign (callers compare NaNs by class only).
pub fn ref_f32_to_f16(x: f32) -> u16 {
    let sign = if x.is_sign_negative() { 0x8000u16 } else { 0 };
    if x.is_nan() {
        return sign | 0x7e00;
    }
    let a = x.abs() as f64;
    // Largest finite f16 is 65504; the rounding boundary to infinity is 65520.
    if a >= 65520.0 {
        return sign | 0x7c00;
    }
    // positive f16 bit patterns 0..=0x7bff are ordered like their values
    let val = |h: u16| ref_f16_to_f32(h) as f64;
    let (mut lo, mut hi) = (0u16, 0x7bffu16);
    // invariant: val(lo) <= a; find the largest lo with val(lo) <= a
    while lo < hi {
        let mid = lo + (hi - lo + 1) / 2;
        if val(mid) <= a {
            lo = mid;
        } else {
            hi = mid - 1;
        }
    }
    let below = val(lo);
    if below == a || lo == 0x7bff {
        // exact, or between 65504 and 65520 (rounds down: handled above otherwise)
        if lo == 0x7bff && a > below {
            // halfway point 65520 rounds to even = infinity (handled above); below it rounds down
            return sign | lo;
        }
        return sign | lo;
    }
    let above = val(lo + 1);
    let (dl, dh) = (a - below, above - a);
    let r = if dl < dh {
        lo
    } else if dh < dl {
        lo + 1
    } else if lo & 1 == 0 {
        lo
    } else {
        lo + 1
    };
    sign | r
}

#[cfg(test)]
mod tests {
    use super::*;

    #[test]
    fn f16_roundtrip() {
        for h in 0..=0xffffu16 {
            let f = ref_f16_to_f32(h);
            if f.is_nan() {
                continue;
            }
            assert_eq!(ref_f32_to_f16(f), h, "h={h:#x} f={f}");
        }
        assert_eq!(ref_f32_to_f16(65519.996), 0x7bff);
        assert_eq!(ref_f32_to_f16(65520.0), 0x7c00);
        assert_eq!(ref_f32_to_f16(1.0), 0x3c00);
        assert_eq!(ref_f32_to_f16(2.98e-8), 0x0000);
        assert_eq!(ref_f32_to_f16(2.9802325e-8), 0x0001);
    }
}

//! C18 — SIMD instruction sets agree and stay within slice bounds.
//!
//! Sub-checks
//!  * `prims-8bit`   i8/u8: every primitive, every ISA, ALL 2^16 operand pairs in every lane position
//!                   (thorough: all 2^24 triples for the ternary primitives).
//!  * `prims-16bit`  i16/u16/f16: all 2^16 values of the first operand in every lane position for
//!                   every primitive (second/third operand from a fixed mixing pattern; quick tier
//!                   strides the sweep for non-unary primitives).
//!  * `prims-edges`  i16/u16/i32/f32/f16: all pairs of edge values (NaNs, +-inf, +-0, subnormals,
//!                   integer extremes, rounding boundaries), rotated through the lane positions.
//!  * `prims-random` proptest: blocks mixing edge values and uniform bit patterns, shrinking.
//!  * `bounds`       simd_map / simd_apply<1,2,4> / simd_iter(+tail) / simd_iter_pad / fold variants /
//!                   SliceWriter / load_pad / masked loads+stores (prefix masks and windows) /
//!                   load+store[_many][_uninit] for every slice length 0..=4*lanes+3, every element
//!                   type, every ISA, slices flush against PROT_NONE guard pages on either side.
//!  * `vecmath`      every public rten-vecmath operation on every ISA for random lengths and values,
//!                   buffers flush against guard pages; see src/vm.rs for the oracles.
//!
//! The scalar definition of every primitive is in src/prim.rs (`ref_chunk`).

use proptest::prelude::*;
use serde::{Deserialize, Serialize};
use vc_simd::bounds::{self, BCase, BoundsOp};
use vc_simd::guard::{self, Place};
use vc_simd::isa::{run_on, IsaKind, ALL_ISAS};
use vc_simd::lane::{Ty, ALL_TYS};
use vc_simd::prim::{check_block, ops_for, views_for, Op, View, N};
use vc_simd::vm::{self, all_vm_ops, VmCase, VmOp};
use vcore::{Check, Tier, Verdict};

fn isas() -> Vec<IsaKind> {
    ALL_ISAS.iter().copied().filter(|i| i.available()).collect()
}

fn verdict(ty: Ty, op: Op, view: View, r: Result<(), (String, String)>, extra: &'static str) -> Verdict {
    match r {
        Ok(()) => Verdict::pass_l(true, vec![ty.name(), op.name(), view.name(), extra]),
        Err((sig, detail)) => Verdict::fail(sig, detail),
    }
}

// ---------------------------------------------------------------------------
// 8-bit exhaustive
// ---------------------------------------------------------------------------

#[derive(Clone, Debug, Serialize, Deserialize)]
struct Ex8 {
    ty: Ty,
    op: Op,
    /// first operand (lane-wise primitives: the same in every lane; others: lane l holds a + 3l)
    a: u8,
    /// thorough tier, ternary primitives: sweep all 256 values of the third operand as well
    all_c: bool,
    view: View,
}

fn ex8_block(c: &Ex8, b0: u32, c0: u32, bufs: &mut [Vec<u32>; 3]) {
    let a = c.a as u32;
    for l in 0..N as u32 {
        bufs[0][l as usize] = if c.op.lanewise() { a } else { (a + 3 * l) & 0xff };
        bufs[1][l as usize] = (b0 + if c.op.lanewise() { l } else { 5 * l + 1 }) & 0xff;
        bufs[2][l as usize] = if c.all_c { c0 } else { ((a ^ b0).wrapping_mul(3) + 7 * l + c0) & 0xff };
    }
}

fn ex8_oracle(c: &Ex8, isas: &[IsaKind]) -> Verdict {
    let mut bufs = [vec![0u32; N], vec![0u32; N], vec![0u32; N]];
    let nb = if c.op.arity() >= 2 || !c.op.lanewise() { 256 } else { 1 };
    let nc = if c.all_c { 256 } else { 1 };
    for b0 in 0..nb {
        for c0 in 0..nc {
            ex8_block(c, b0, c0, &mut bufs);
            if c.op.arity() <= 1 && c.op.lanewise() {
                // unary lane-wise: lane l holds a + l so that the 256 cases put every value in every lane
                for l in 0..N as u32 {
                    bufs[0][l as usize] = (c.a as u32 + l) & 0xff;
                }
            }
            if let Err((sig, detail)) = check_block(c.ty, c.op, &bufs[0], &bufs[1], &bufs[2], c.view, isas) {
                return Verdict::fail(sig, detail);
            }
        }
    }
    Verdict::pass_l(true, vec![c.ty.name(), c.op.name(), c.view.name()])
}

fn ex8_cases(thorough: bool, isas: &[IsaKind]) -> Vec<Ex8> {
    let mut v = Vec::new();
    for ty in [Ty::I8, Ty::U8] {
        for op in ops_for(ty) {
            let n_a = if op.arity() == 0 { 1 } else { 256 };
            for view in views_for(ty, op, isas) {
                for a in 0..n_a {
                    v.push(Ex8 { ty, op, a: a as u8, all_c: thorough && op.arity() == 3 && op.lanewise(), view });
                }
            }
        }
    }
    v
}

// ---------------------------------------------------------------------------
// 16-bit: all singles
// ---------------------------------------------------------------------------

#[derive(Clone, Debug, Serialize, Deserialize)]
struct Ex16 {
    ty: Ty,
    op: Op,
    /// high byte of the first operand's sweep
    hi: u8,
    /// step of the low-byte sweep (1 = every value)
    step: u16,
    view: View,
}

fn ex16_oracle(c: &Ex16, isas: &[IsaKind]) -> Verdict {
    let mut bufs = [vec![0u32; N], vec![0u32; N], vec![0u32; N]];
    let mut lo = 0u32;
    while lo < 256 {
        let v0 = ((c.hi as u32) << 8) | lo;
        for l in 0..N as u32 {
            // lane l holds v0 + l: over the sweep of v0 every value visits every lane
            bufs[0][l as usize] = (v0 + l) & 0xffff;
            bufs[1][l as usize] = ((v0.wrapping_mul(0x9e37) >> 3) ^ l.wrapping_mul(0x2545) ^ 0x8001) & 0xffff;
            bufs[2][l as usize] = (v0.wrapping_mul(0x6b43) ^ l.wrapping_mul(0x0f1d)).wrapping_add(v0 >> 7) & 0xffff;
        }
        if let Err((sig, detail)) = check_block(c.ty, c.op, &bufs[0], &bufs[1], &bufs[2], c.view, isas) {
            return Verdict::fail(sig, detail);
        }
        lo += c.step as u32;
    }
    Verdict::pass_l(true, vec![c.ty.name(), c.op.name(), c.view.name()])
}

fn ex16_cases(thorough: bool, isas: &[IsaKind]) -> Vec<Ex16> {
    let mut v = Vec::new();
    for ty in [Ty::I16, Ty::U16, Ty::F16] {
        for op in ops_for(ty) {
            if op.arity() == 0 {
                continue; // covered by prims-edges
            }
            let unary = op.arity() == 1;
            let step = if unary || thorough { 1 } else { 16 };
            for view in views_for(ty, op, isas) {
                for hi in 0..256u32 {
                    v.push(Ex16 { ty, op, hi: hi as u8, step, view });
                }
            }
        }
    }
    v
}

// ---------------------------------------------------------------------------
// edge pairs
// ---------------------------------------------------------------------------

#[derive(Clone, Debug, Serialize, Deserialize)]
struct EdgeCase {
    ty: Ty,
    op: Op,
    rot: u8,
    view: View,
}

fn edge_oracle(c: &EdgeCase, isas: &[IsaKind]) -> Verdict {
    let e = c.ty.edges();
    let n = e.len();
    let pairs = if c.op.arity() >= 2 || !c.op.lanewise() { n * n } else { n };
    let mut bufs = [vec![0u32; N], vec![0u32; N], vec![0u32; N]];
    let mut p = 0;
    let rot = c.rot as usize;
    while p < pairs {
        for l in 0..N {
            // pair index for this lane; rotation moves every pair through the lane positions
            let q = (p + (l + N - rot % N) % N) % pairs;
            let (i, j) = (q / n % n, q % n);
            let (i, j) = if pairs == n { (j, (j * 7 + 3) % n) } else { (i, j) };
            bufs[0][l] = e[i];
            bufs[1][l] = e[j];
            bufs[2][l] = e[(i + j * 7 + rot) % n];
        }
        if let Err((sig, detail)) = check_block(c.ty, c.op, &bufs[0], &bufs[1], &bufs[2], c.view, isas) {
            return Verdict::fail(sig, detail);
        }
        p += N;
    }
    Verdict::pass_l(true, vec![c.ty.name(), c.op.name(), c.view.name(), "edge pairs"])
}

fn edge_cases(thorough: bool, isas: &[IsaKind]) -> Vec<EdgeCase> {
    let rots: Vec<u8> = if thorough { (0..64).collect() } else { vec![0, 1, 2, 3, 5, 17, 33, 63] };
    let mut v = Vec::new();
    for ty in [Ty::I16, Ty::U16, Ty::I32, Ty::F32, Ty::F16] {
        for op in ops_for(ty) {
            for view in views_for(ty, op, isas) {
                for &rot in &rots {
                    v.push(EdgeCase { ty, op, rot, view });
                }
            }
        }
    }
    v
}

// ---------------------------------------------------------------------------
// random blocks
// ---------------------------------------------------------------------------

#[derive(Clone, Debug, Serialize, Deserialize)]
struct PCase {
    ty: Ty,
    op: Op,
    view: View,
    a: Vec<u32>,
    b: Vec<u32>,
    c: Vec<u32>,
}

fn lane_val(ty: Ty) -> BoxedStrategy<u32> {
    let edges = ty.edges();
    let m = ty.mask();
    let ne = edges.len();
    let base = prop_oneof![
        3 => (0..ne).prop_map(move |i| edges[i]),
        3 => any::<u32>().prop_map(move |v| v & m),
        1 => (0u32..=16).prop_map(move |v| v & m),
    ];
    if ty == Ty::F32 {
        prop_oneof![
            4 => base,
            2 => (-4_000_000i32..=4_000_000).prop_map(|v| (v as f32 / 1000.0).to_bits()),
            1 => (-70_000i32..=70_000).prop_map(|v| (v as f32).to_bits()),
            1 => (0u32..64, any::<bool>(), 0u32..4).prop_map(|(e, s, k)| {
                // around 2^e +- a few halves: rounding and float->int boundaries
                let v = (2f64.powi(e as i32 - 20) + k as f64 * 0.5) as f32;
                if s { (-v).to_bits() } else { v.to_bits() }
            }),
        ]
        .boxed()
    } else {
        base.boxed()
    }
}

fn pcase(isas: Vec<IsaKind>) -> impl Strategy<Value = PCase> {
    (0usize..ALL_TYS.len(), any::<u16>(), any::<u16>()).prop_flat_map(move |(t, o, w)| {
        let ty = ALL_TYS[t];
        let ops = ops_for(ty);
        let op = ops[vcore::pick_idx(o, ops.len())];
        let views = views_for(ty, op, &isas);
        let view = views[vcore::pick_idx(w, views.len())];
        let v = || proptest::collection::vec(lane_val(ty), N);
        (v(), v(), v()).prop_map(move |(a, b, c)| PCase { ty, op, view, a, b, c })
    })
}

fn p_oracle(c: &PCase, isas: &[IsaKind]) -> Verdict {
    if c.a.len() != N || c.b.len() != N || c.c.len() != N || !ops_for(c.ty).contains(&c.op) {
        return Verdict::Discard;
    }
    verdict(c.ty, c.op, c.view, check_block(c.ty, c.op, &c.a, &c.b, &c.c, c.view, isas), "random block")
}

// ---------------------------------------------------------------------------
// bounds
// ---------------------------------------------------------------------------

fn bounds_oracle(c: &BCase) -> Verdict {
    if !c.isa.available() {
        return Verdict::Discard;
    }
    let l = c.ty.lanes(c.isa.lanes32());
    let mut nt = false;
    for len in c.len..c.len + c.count.max(1) {
        let one = BCase { len, count: 1, ..c.clone() };
        let r = guard::with_regions(|regs| vcore::catch(|| run_on(one.isa, BoundsOp { case: &one, regs })));
        let sig = |what: &str| format!("bounds:{}:{}:{}:{}", c.kind.name(), c.ty.name(), c.isa.name(), what);
        let ctx = format!("{} on {} {} (lanes {l}), len {len}, {:?}, aux {}", c.kind.name(), c.isa.name(), c.ty.name(), c.place, c.aux);
        match r {
            Ok(Ok(())) => nt |= len % l != 0,
            Ok(Err(e)) => {
                let s = if e.contains("size_hint-stale") {
                    // type- and ISA-independent code in iter.rs
                    "iter:size_hint-stale".to_string()
                } else if e.contains("was modified") {
                    sig("out-of-slice-write")
                } else if e.contains("panic") {
                    sig("panic-contract")
                } else {
                    sig("value")
                };
                return Verdict::fail(s, format!("{ctx}: {e}"));
            }
            Err(p) => return Verdict::fail(sig("panic"), format!("{ctx}: unexpected panic: {} at {}", p.msg, p.loc())),
        }
    }
    Verdict::pass_l(nt, vec![c.kind.name(), c.ty.name(), c.isa.name()])
}

// ---------------------------------------------------------------------------
// vecmath
// ---------------------------------------------------------------------------

fn vm_val(op: VmOp) -> BoxedStrategy<u32> {
    let f = |v: f32| v.to_bits();
    match op {
        VmOp::F16ToF32 => prop_oneof![3 => 0u32..=0xffff, 1 => (0usize..23).prop_map(|i| Ty::F16.edges()[i])].boxed(),
        VmOp::QuantizeU8 => prop_oneof![
            6 => (-40_000i32..=40_000).prop_map(move |v| f(v as f32 / 64.0)),
            2 => (-3000i32..=3000).prop_map(move |v| f(v as f32 / 4.0 + 0.5)),
            1 => (0usize..12).prop_map(move |i| f([1e9f32, -1e9, 3e9, -3e9, 2.2e9, 1e20, -1e20, f32::INFINITY, f32::NEG_INFINITY, f32::MAX, 2147483520.0, -2147483648.0][i])),
            1 => Just(f(f32::NAN)),
        ]
        .boxed(),
        VmOp::Softmax | VmOp::SoftmaxFlush | VmOp::LogSoftmax => prop_oneof![
            6 => (-10_000i32..=10_000).prop_map(move |v| f(v as f32 / 1000.0)),
            2 => (0i32..=12_000).prop_map(move |v| f(-(v as f32) / 100.0)),
            1 => Just(f(f32::NEG_INFINITY)),
            1 => any::<u32>(),
        ]
        .boxed(),
        _ => {
            let e = Ty::F32.edges();
            let n = e.len();
            prop_oneof![
                5 => (-12_000_000i32..=12_000_000).prop_map(move |v| f(v as f32 / 1_000_000.0)),
                2 => (-110_000i32..=110_000).prop_map(move |v| f(v as f32 / 1000.0)),
                1 => (-60_000_000i32..=60_000_000).prop_map(move |v| f(v as f32 / 1000.0)),
                1 => (0..n).prop_map(move |i| e[i]),
                1 => any::<u32>(),
            ]
            .boxed()
        }
    }
}

fn vm_case(isas: Vec<IsaKind>) -> impl Strategy<Value = VmCase> {
    let ops = all_vm_ops();
    (0..ops.len(), 0..isas.len(), any::<bool>(), any::<bool>(), any::<u16>(), [-2048i32..=2048, -2048i32..=2048, -2048i32..=2048]).prop_flat_map(
        move |(o, i, end, in_place, lsel, p)| {
            let op = ops[o];
            let isa = isas[i];
            let len = vcore::pick_idx(lsel, op.max_len() + 1);
            proptest::collection::vec(vm_val(op), len).prop_map(move |vals| VmCase {
                op,
                isa,
                place: if end { Place::End } else { Place::Start },
                in_place,
                vals,
                p,
            })
        },
    )
}

fn vm_oracle(c: &VmCase) -> Verdict {
    if !c.isa.available() || c.vals.len() > 1000 {
        return Verdict::Discard;
    }
    match vcore::catch(|| vm::check(c)) {
        Ok(Ok(mut labels)) => {
            labels.push(c.isa.name());
            let nt = c.vals.len() % c.isa.lanes32() != 0;
            Verdict::pass_l(nt, labels)
        }
        Ok(Err((sig, detail))) => Verdict::fail(sig, detail),
        Err(p) => Verdict::fail(format!("vecmath:{}:panic:{}", c.op.name(), c.isa.name()), format!("{:?} on {}: panic {} at {}", c.op, c.isa.name(), p.msg, p.loc())),
    }
}

// ---------------------------------------------------------------------------

fn main() {
    let mut ck = Check::new("C18");
    ck.rule(
        "Primitives: a case is a (element type, primitive[, operand sweep]) evaluated on EVERY ISA (generic, AVX2, AVX-512; explicit \
         SimdOp::eval(isa) in the target_feature context dispatch uses) over blocks of 64 lanes; every output lane is compared with the \
         scalar definition (src/prim.rs, from the trait docs: wrapping integer arithmetic, saturating narrow, IEEE float arithmetic with NaN \
         payloads ignored, documented latitude for fused/unfused mul_add only) and lane-wise primitives additionally across ISAs. \
         prims-8bit: i8/u8, all 2^16 operand pairs in every lane position (exhaustive). prims-16bit: all 2^16 first operands in every lane \
         position (quick: stride 16 for non-unary primitives). prims-edges: all pairs of per-type edge values (NaN/sNaN/+-inf/+-0/ \
         subnormals/rounding and conversion boundaries/integer extremes), rotated through lane positions. prims-random: proptest blocks \
         (edge + uniform values). Non-trivial (primitives) = the sweep/block contains an extreme value of the type (always true for the \
         exhaustive sweeps). bounds: every (ISA, element type, slice operation, length 0..=4*lanes+3, placement flush against the leading or \
         trailing PROT_NONE guard page); non-trivial = length not a multiple of the lane count. vecmath: proptest (operation, ISA, placement, \
         in-place, length 0..=4*(elements per loop iteration)+3, values); non-trivial = length not a multiple of the f32 lane count. \
         Distinct = distinct Debug rendering of the case.",
    );
    ck.assume("scalar definitions in src/prim.rs are the harness's reading of rten-simd/src/ops.rs doc comments; f32 references use Rust's IEEE arithmetic and f32::mul_add (correctly rounded fused multiply-add)");
    ck.assume("a read past a slice end that stays inside the same 4 KiB data page is detected only if it changes a result; writes are detected by the canary fill; accesses past the guarded end fault");
    ck.set_threads(16);

    let isas = isas();
    if isas.len() != ALL_ISAS.len() {
        ck.inconclusive(format!("only {:?} of the three ISAs are available on this host", isas));
    }
    if !guard::guards_effective() {
        ck.inconclusive("guard pages are not PROT_NONE on this host (mprotect ineffective?)");
    }
    let thorough = ck.tier() == Tier::Thorough;

    {
        let cases = ex8_cases(thorough, &isas);
        ck.enumerate_par("prims-8bit", true, cases.len() as u64, |i| cases[i as usize].clone(), |c| ex8_oracle(c, &isas));
    }
    {
        let cases = ex16_cases(thorough, &isas);
        ck.enumerate_par("prims-16bit", thorough, cases.len() as u64, |i| cases[i as usize].clone(), |c| ex16_oracle(c, &isas));
    }
    {
        let cases = edge_cases(thorough, &isas);
        ck.enumerate_par("prims-edges", true, cases.len() as u64, |i| cases[i as usize].clone(), |c| edge_oracle(c, &isas));
    }
    let n = ck.pick(100_000, 4_000_000);
    let isas3 = isas.clone();
    ck.prop("prims-random", n, move || pcase(isas3.clone()), |c| p_oracle(c, &isas));

    {
        let mut cases: Vec<BCase> = Vec::new();
        for &isa in &isas {
            for ty in ALL_TYS {
                cases.extend(bounds::cases_for(isa, ty));
            }
        }
        ck.enumerate_par("bounds", true, cases.len() as u64, |i| cases[i as usize].clone(), bounds_oracle);
    }

    let n = ck.pick(60_000, 4_000_000);
    let isas2 = isas.clone();
    ck.prop("vecmath", n, move || vm_case(isas2.clone()), vm_oracle);

    ck.finish();
}

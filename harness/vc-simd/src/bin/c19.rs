//! C19 — vectorized math functions meet their documented accuracy.
//!
//! Sub-checks
//!  * `points`      curated special values (NaNs, infinities, signed zeros, cut-offs); also the
//!                  replay entry point for failures found by the bulk loops.
//!  * `grid`        (quick) every sign x exponent x 16384 evenly spaced mantissas (+ first/last
//!                  mantissa) and dense neighbourhoods of every cut-off, all functions, all ISAs.
//!  * `all-f32`     (thorough) all 2^32 bit patterns, all functions, all ISAs.
//!  * `random-vectors` proptest: random bit patterns / ranges in slices of length 1..=67
//!                  (exercises the masked tail of `simd_map`), seed dependent.
//!  * `softmax`     Softmax / Softmax+flush_nans_to_zero / LogSoftmax invariants.
//!  * `normalize`   Normalize against the documented formula (f64) with an a-priori rounding bound.
//!
//! Every ISA (generic, AVX2, AVX-512) is evaluated explicitly through
//! `SimdOp::eval(isa)` inside the same `#[target_feature]` context that
//! `rten_simd::dispatch` uses.

use std::collections::BTreeMap;
use std::mem::MaybeUninit;
use std::sync::atomic::{AtomicU64, Ordering};
use std::sync::Mutex;

use proptest::prelude::*;
use rten_vecmath::{LogSoftmax, Normalize, NormalizeOptions, Softmax};
use serde::{Deserialize, Serialize};
use vc_simd::isa::{run_on, IsaKind, ALL_ISAS};
use vc_simd::math::{self, check_point, demands, eval_func, judge, Demand, Func, ALL_FUNCS};
use vcore::{Check, Tier, Verdict};

// ---------------------------------------------------------------------------
// points
// ---------------------------------------------------------------------------

/// One evaluation of `func` on `isa` over the input vector `xs` (f32 bit
/// patterns); every lane is judged.
#[derive(Clone, Debug, Serialize, Deserialize)]
struct Pt {
    func: Func,
    isa: IsaKind,
    xs: Vec<u32>,
}

fn pt_oracle(p: &Pt) -> Verdict {
    if !p.isa.available() {
        return Verdict::Discard;
    }
    let xs: Vec<f32> = p.xs.iter().map(|&b| f32::from_bits(b)).collect();
    let mut out = vec![0f32; xs.len()];
    eval_func(p.isa, p.func, &xs, &mut out);
    let mut nt = false;
    for (x, y) in xs.iter().zip(&out) {
        match check_point(p.func, p.isa, *x, *y) {
            Ok(n) => nt |= n,
            Err((sig, detail)) => return Verdict::fail(sig, detail),
        }
    }
    Verdict::pass_l(nt, vec![p.func.name(), p.isa.name()])
}

fn centres() -> Vec<f32> {
    let ln2 = std::f32::consts::LN_2;
    let mut c = vec![
        0.0,
        104.0,
        103.972_08, // ln(2^-150): below this f32::exp rounds to zero
        -126.5 * ln2 + 0.01, // exp.rs EXP_LOWER_CUTOFF (ReducedRangeExp: erf, softmax)
        88.722_84,  // ln(f32::MAX)
        87.336_55,  // -ln(f32::MIN_POSITIVE)
        9.02,       // tanh.rs saturation cut-off
        0.0004,     // tanh.rs tiny cut-off
        0.55,       // tanh.rs polynomial / exp switch
        9.363_4,    // sqrt(87.67): erf's exp(-x^2) underflow
        3.832,      // erf saturates to 1.0 in f32 around here
        math::SIN_COS_LARGE,
        math::DERIVED_RANGE,
        1.0,
        0.5 * ln2,
        ln2,
        104.0 / math::SWISH_ALPHA,
        88.722_84 / math::SWISH_ALPHA,
        9.02 / 0.797_884_6, // approx_gelu: tanh argument reaches the cut-off (x^3 term ignored)
        std::f32::consts::SQRT_2 * 9.363_4,
        std::f32::consts::SQRT_2 * 3.832,
        4.0,
        8.0,
        16.0,
    ];
    let neg: Vec<f32> = c.iter().map(|v| -*v).collect();
    c.extend(neg);
    c
}

fn special_values() -> Vec<u32> {
    let mut v: Vec<u32> = vec![
        0x0000_0000, // +0
        0x8000_0000, // -0
        0x0000_0001, // min subnormal
        0x8000_0001,
        0x007f_ffff, // max subnormal
        0x807f_ffff,
        0x0080_0000, // min normal
        0x8080_0000,
        0x7f7f_ffff, // MAX
        0xff7f_ffff, // MIN
        0x7f80_0000, // +inf
        0xff80_0000, // -inf
        0x7fc0_0000, // qNaN
        0xffc0_0000, // -qNaN
        0x7f80_0001, // sNaN
        0x7fff_ffff, // NaN all ones
        0x3f80_0000, // 1
        0xbf80_0000, // -1
    ];
    for c in centres() {
        for d in -2i32..=2 {
            v.push((c.to_bits() as i32 + d) as u32);
        }
    }
    // multiples of pi / 2 (worst case for sin/cos range reduction)
    for k in -12i32..=12 {
        v.push((k as f32 * std::f32::consts::FRAC_PI_2).to_bits());
    }
    v.sort_unstable();
    v.dedup();
    v
}

// ---------------------------------------------------------------------------
// bulk loops
// ---------------------------------------------------------------------------

#[derive(Default)]
struct Acc {
    evals: u64,
    nontrivial: u64,
    /// signature -> (minimal example, detail)
    fails: BTreeMap<String, (Pt, String)>,
    /// (func, isa, metric) -> (max error, x bits)
    max_err: BTreeMap<(String, String, &'static str), (f64, u32)>,
}

impl Acc {
    fn merge(&mut self, o: Acc) {
        self.evals += o.evals;
        self.nontrivial += o.nontrivial;
        for (k, v) in o.fails {
            match self.fails.get(&k) {
                Some(cur) if cur.0.xs <= v.0.xs => {}
                _ => {
                    self.fails.insert(k, v);
                }
            }
        }
        for (k, v) in o.max_err {
            let e = self.max_err.entry(k).or_insert((0.0, 0));
            if v.0 > e.0 {
                *e = v;
            }
        }
    }
}

/// Evaluate every function on every ISA for `inputs` (length a multiple of 16).
fn process(inputs: &[f32], isas: &[IsaKind], acc: &mut Acc, out: &mut Vec<f32>) {
    out.resize(inputs.len(), 0.);
    let mut dem: Vec<([Option<Demand>; 2], bool)> = Vec::with_capacity(inputs.len());
    for f in ALL_FUNCS {
        dem.clear();
        dem.extend(inputs.iter().map(|&x| demands(f, x)));
        for &isa in isas {
            eval_func(isa, f, inputs, out);
            let mut worst: [(f64, u32); 2] = [(0.0, 0); 2];
            for i in 0..inputs.len() {
                let (ds, nt) = &dem[i];
                let y = out[i];
                acc.evals += 1;
                acc.nontrivial += *nt as u64;
                for d in ds.iter().flatten() {
                    // fast path + error statistics
                    match *d {
                        Demand::Ulps { expected, .. } => {
                            if y.to_bits() == expected.to_bits() {
                                continue;
                            }
                            if expected.is_finite() && y.is_finite() {
                                let du = math::diff_ulps(y, expected);
                                if du > worst[0].0 {
                                    worst[0] = (du, inputs[i].to_bits());
                                }
                            }
                        }
                        Demand::Abs { expected, .. } => {
                            if y.to_bits() == expected.to_bits() {
                                continue;
                            }
                            if expected.is_finite() && y.is_finite() {
                                let da = (y as f64 - expected as f64).abs();
                                if da > worst[1].0 {
                                    worst[1] = (da, inputs[i].to_bits());
                                }
                            }
                        }
                        _ => {}
                    }
                    if let Some((kind, detail)) = judge(d, y) {
                        let sig = format!("{}:{}@{}", f.name(), kind, isa.name());
                        let lo = i & !15;
                        let pt = Pt { func: f, isa, xs: inputs[lo..lo + 16].iter().map(|v| v.to_bits()).collect() };
                        let detail = format!("{}({:e} = {:#010x}) on {}: {detail}", f.name(), inputs[i], inputs[i].to_bits(), isa.name());
                        match acc.fails.get(&sig) {
                            Some(cur) if cur.0.xs <= pt.xs => {}
                            _ => {
                                acc.fails.insert(sig, (pt, detail));
                            }
                        }
                        break;
                    }
                }
            }
            for (m, name) in [(0usize, "ulps"), (1, "abs")] {
                if worst[m].0 > 0.0 {
                    let e = acc.max_err.entry((f.name().to_string(), isa.name().to_string(), name)).or_insert((0.0, 0));
                    if worst[m].0 > e.0 {
                        *e = worst[m];
                    }
                }
            }
        }
    }
}

const THREADS: usize = 16;

/// Run `process` over `n_blocks` blocks produced by `fill(block_index, &mut Vec<f32>)`.
fn bulk_run(n_blocks: u64, isas: &[IsaKind], fill: impl Fn(u64, &mut Vec<f32>) + Sync) -> Acc {
    let next = AtomicU64::new(0);
    let total = Mutex::new(Acc::default());
    std::thread::scope(|sc| {
        for _ in 0..THREADS {
            sc.spawn(|| {
                let mut acc = Acc::default();
                let mut inp = Vec::new();
                let mut out = Vec::new();
                loop {
                    let b = next.fetch_add(1, Ordering::Relaxed);
                    if b >= n_blocks {
                        break;
                    }
                    inp.clear();
                    fill(b, &mut inp);
                    if inp.is_empty() {
                        continue;
                    }
                    process(&inp, isas, &mut acc, &mut out);
                }
                total.lock().unwrap().merge(acc);
            });
        }
    });
    total.into_inner().unwrap()
}

fn quick_points() -> Vec<u32> {
    let mut v: Vec<u32> = Vec::with_capacity(5_000_000);
    for sign in 0..2u32 {
        for exp in 0..256u32 {
            let base = (sign << 31) | (exp << 23);
            for k in 0..16384u32 {
                v.push(base | (k << 9));
            }
            v.push(base | 1);
            v.push(base | 0x7f_ffff);
            v.push(base | 0x7f_fffe);
        }
    }
    for c in centres() {
        let b = c.to_bits() as i64;
        for d in -8192i64..=8192 {
            let x = b + d;
            if (0..=u32::MAX as i64).contains(&x) {
                v.push(x as u32);
            }
        }
    }
    // multiples of pi/2 inside the documented sin/cos domain
    let kmax = (math::SIN_COS_LARGE / std::f32::consts::FRAC_PI_2) as i32;
    for k in 1..=kmax {
        let c = (k as f64 * std::f64::consts::FRAC_PI_2) as f32;
        for s in [c, -c] {
            let b = s.to_bits();
            for d in -16i32..=16 {
                v.push((b as i32 + d) as u32);
            }
        }
    }
    v.sort_unstable();
    v.dedup();
    // pad to a multiple of 16 with 1.0 (already in the set: counted once more, harmless)
    while v.len() % 16 != 0 {
        v.push(0x3f80_0000);
    }
    v
}

fn report_bulk(ck: &mut Check, name: &str, acc: Acc, exhaustive: bool, n_points: u64) {
    let mut clean = true;
    for (sig, (pt, detail)) in &acc.fails {
        if ck.manual_fail("points", pt, sig, detail) {
            clean = false;
        }
    }
    let mut errs = serde_json::Map::new();
    for ((f, isa, metric), (e, bits)) in &acc.max_err {
        errs.insert(
            format!("{f}/{isa}/{metric}"),
            serde_json::json!({"max": e, "at": format!("{:e} ({:#010x})", f32::from_bits(*bits), bits)}),
        );
    }
    ck.extra(&format!("max_observed_error:{name}"), serde_json::Value::Object(errs));
    let samples = vec![serde_json::json!({"sub-check": name, "points": n_points, "functions": ALL_FUNCS.len(), "note": "each point is evaluated by every function on every ISA"})];
    ck.bulk(name, acc.evals, acc.nontrivial, exhaustive && clean, samples);
    println!("  {name}: {n_points} points x {} functions x ISAs = {} evaluations, {} non-trivial", ALL_FUNCS.len(), acc.evals, acc.nontrivial);
}

// ---------------------------------------------------------------------------
// random vectors
// ---------------------------------------------------------------------------

#[derive(Clone, Debug, Serialize, Deserialize)]
struct RvCase {
    func: Func,
    xs: Vec<u32>,
}

fn f32_bits() -> impl Strategy<Value = u32> {
    prop_oneof![
        3 => any::<u32>(),
        3 => (-12_000_000i32..=12_000_000).prop_map(|v| (v as f32 / 1_000_000.0).to_bits()),
        2 => (-110_000i32..=110_000).prop_map(|v| (v as f32 / 1000.0).to_bits()),
        1 => (-50_000_000i32..=50_000_000).prop_map(|v| (v as f32 / 1000.0).to_bits()),
        1 => (0usize..1000, -64i32..=64).prop_map(|(i, d)| {
            let c = centres();
            (c[i % c.len()].to_bits() as i32 + d) as u32
        }),
    ]
}

fn rv_case() -> impl Strategy<Value = RvCase> {
    (0usize..ALL_FUNCS.len(), proptest::collection::vec(f32_bits(), 1..=67))
        .prop_map(|(f, xs)| RvCase { func: ALL_FUNCS[f], xs })
}

fn rv_oracle(c: &RvCase, isas: &[IsaKind]) -> Verdict {
    let xs: Vec<f32> = c.xs.iter().map(|&b| f32::from_bits(b)).collect();
    let mut nt = false;
    let mut out = vec![0f32; xs.len()];
    for &isa in isas {
        out.iter_mut().for_each(|v| *v = f32::NAN);
        eval_func(isa, c.func, &xs, &mut out);
        for (x, y) in xs.iter().zip(&out) {
            match check_point(c.func, isa, *x, *y) {
                Ok(n) => nt |= n,
                Err((sig, detail)) => return Verdict::fail(sig, detail),
            }
        }
    }
    let tail = if xs.len() % 16 != 0 { "len%16!=0" } else { "len%16==0" };
    Verdict::pass_l(nt, vec![c.func.name(), tail])
}

// ---------------------------------------------------------------------------
// softmax
// ---------------------------------------------------------------------------

#[derive(Clone, Copy, Debug, PartialEq, Serialize, Deserialize)]
enum SmKind {
    Softmax,
    SoftmaxFlush,
    LogSoftmax,
}

#[derive(Clone, Debug, Serialize, Deserialize)]
struct SmCase {
    kind: SmKind,
    in_place: bool,
    /// f32 bit patterns (finite or -inf)
    vals: Vec<u32>,
}

const NEG_INF_BITS: u32 = 0xff80_0000;

fn sm_elem() -> impl Strategy<Value = u32> {
    const PICKS: [f32; 18] = [
        0.0, -0.0, 1e30, -1e30, 3e38, -3e38, f32::MAX, f32::MIN, 1e-30, 88.0, -88.0, 100.0, -100.0, -87.67, -87.7, -104.0, 1.0, -1.0,
    ];
    prop_oneof![
        4 => (-10_000i32..=10_000).prop_map(|v| (v as f32 / 1000.0).to_bits()),
        2 => (0i32..=12_000).prop_map(|v| (-(v as f32) / 100.0).to_bits()),
        1 => Just(NEG_INF_BITS),
        1 => (0usize..PICKS.len()).prop_map(|i| PICKS[i].to_bits()),
        1 => any::<u32>().prop_map(|b| if (b >> 23) & 0xff == 0xff { b & !(1 << 23) } else { b }),
    ]
}

fn sm_case() -> impl Strategy<Value = SmCase> {
    let vals = prop_oneof![
        6 => proptest::collection::vec(sm_elem(), 0..=67),
        1 => (sm_elem(), 0usize..=67).prop_map(|(c, n)| vec![c; n]),
        1 => (0usize..=67).prop_map(|n| vec![NEG_INF_BITS; n]),
        1 => (sm_elem(), proptest::collection::vec(any::<bool>(), 0..=67))
            .prop_map(|(c, m)| m.into_iter().map(|b| if b { c } else { NEG_INF_BITS }).collect()),
    ];
    (0usize..3, any::<bool>(), vals).prop_map(|(k, in_place, vals)| SmCase {
        kind: [SmKind::Softmax, SmKind::SoftmaxFlush, SmKind::LogSoftmax][k],
        in_place,
        vals,
    })
}

fn run_softmax(isa: IsaKind, c: &SmCase, xs: &[f32]) -> Vec<f32> {
    if c.in_place {
        let mut buf = xs.to_vec();
        match c.kind {
            SmKind::Softmax => {
                run_on(isa, Softmax::new_mut(&mut buf));
            }
            SmKind::SoftmaxFlush => {
                run_on(isa, Softmax::new_mut(&mut buf).flush_nans_to_zero(true));
            }
            SmKind::LogSoftmax => {
                run_on(isa, LogSoftmax::new_mut(&mut buf));
            }
        }
        buf
    } else {
        let mut out: Vec<MaybeUninit<f32>> = vec![MaybeUninit::new(f32::NAN); xs.len()];
        let n = match c.kind {
            SmKind::Softmax => run_on(isa, Softmax::new(xs, &mut out)).len(),
            SmKind::SoftmaxFlush => run_on(isa, Softmax::new(xs, &mut out).flush_nans_to_zero(true)).len(),
            SmKind::LogSoftmax => run_on(isa, LogSoftmax::new(xs, &mut out)).len(),
        };
        assert_eq!(n, xs.len());
        // Safety: initialised above with NaN, then overwritten by the op.
        out.into_iter().map(|v| unsafe { v.assume_init() }).collect()
    }
}

fn sm_oracle(c: &SmCase, isas: &[IsaKind]) -> Verdict {
    let xs: Vec<f32> = c.vals.iter().map(|&b| f32::from_bits(b)).collect();
    if xs.iter().any(|x| x.is_nan() || *x == f32::INFINITY) {
        return Verdict::Discard;
    }
    let n = xs.len();
    let any_finite = xs.iter().any(|x| x.is_finite());
    let kname = match c.kind {
        SmKind::Softmax => "softmax",
        SmKind::SoftmaxFlush => "softmax-flush",
        SmKind::LogSoftmax => "log_softmax",
    };
    let mut labels = vec![kname];
    if n == 0 {
        labels.push("empty");
    } else if !any_finite {
        labels.push("all -inf");
    } else {
        if xs.iter().any(|x| *x == f32::NEG_INFINITY) {
            labels.push("has -inf");
        }
        if xs.iter().all(|x| *x == xs[0]) {
            labels.push("all equal");
        }
        if xs.iter().any(|x| x.abs() >= 1e30) {
            labels.push("has |x|>=1e30");
        }
    }
    if n % 16 != 0 {
        labels.push("len%16!=0");
    }
    for &isa in isas {
        let ys = run_softmax(isa, c, &xs);
        let fail = |what: &str, detail: String| {
            Verdict::fail(format!("{kname}:{what}"), format!("{} on {}: {detail}; input {xs:?} -> {ys:?}", kname, isa.name()))
        };
        if ys.len() != n {
            return fail("length", format!("output length {} != {n}", ys.len()));
        }
        if n == 0 {
            continue;
        }
        if !any_finite {
            match c.kind {
                // Documented: all inputs -inf -> NaN; with flush_nans_to_zero -> zeros.
                SmKind::Softmax => {
                    if !ys.iter().all(|y| y.is_nan()) {
                        return fail("all-neg-inf", "expected all NaN (documented)".into());
                    }
                }
                SmKind::SoftmaxFlush => {
                    if !ys.iter().all(|y| *y == 0.0) {
                        return fail("all-neg-inf", "expected all zeros (flush_nans_to_zero)".into());
                    }
                }
                SmKind::LogSoftmax => {} // not specified
            }
            continue;
        }
        let imax = (0..n).fold(0, |m, i| if xs[i] > xs[m] { i } else { m });
        // equal inputs -> equal outputs (the scalar definition is a function of x_i, max, sum only)
        let mut seen: Vec<(u32, u32)> = Vec::new();
        for i in 0..n {
            let xb = if xs[i] == 0.0 { 0 } else { xs[i].to_bits() };
            match seen.iter().find(|(k, _)| *k == xb) {
                Some((_, yb)) if *yb != ys[i].to_bits() && !(ys[i].is_nan() && f32::from_bits(*yb).is_nan()) => {
                    return fail("lane-dependent", format!("equal inputs {:e} give different outputs {:e} vs {:e} (index {i})", xs[i], f32::from_bits(*yb), ys[i]));
                }
                Some(_) => {}
                None => seen.push((xb, ys[i].to_bits())),
            }
        }
        match c.kind {
            SmKind::Softmax | SmKind::SoftmaxFlush => {
                let mut sum = 0f64;
                for i in 0..n {
                    let y = ys[i];
                    if !(y >= 0.0) || !y.is_finite() {
                        return fail("negative-or-nonfinite", format!("output[{i}] = {y:e}"));
                    }
                    if xs[i] == f32::NEG_INFINITY && y != 0.0 {
                        return fail("neg-inf-not-zero", format!("output[{i}] = {y:e} for input -inf"));
                    }
                    if y > ys[imax] {
                        return fail("argmax", format!("output[{i}] = {y:e} exceeds output at the arg-max input [{imax}] = {:e}", ys[imax]));
                    }
                    sum += y as f64;
                }
                let tol = n as f64 * f32::EPSILON as f64 * 4.0;
                if (sum - 1.0).abs() > tol {
                    return fail("sum", format!("sum of outputs = {sum} differs from 1 by more than n*eps*4 = {tol:e}"));
                }
            }
            SmKind::LogSoftmax => {
                let mut sum = 0f64;
                for i in 0..n {
                    let y = ys[i];
                    if y.is_nan() || !(y <= 0.0) {
                        return fail("positive-or-nan", format!("output[{i}] = {y:e}"));
                    }
                    if xs[i] == f32::NEG_INFINITY && y != f32::NEG_INFINITY {
                        return fail("neg-inf", format!("output[{i}] = {y:e} for input -inf"));
                    }
                    if y > ys[imax] {
                        return fail("argmax", format!("output[{i}] = {y:e} exceeds output at the arg-max input [{imax}] = {:e}", ys[imax]));
                    }
                    sum += (y as f64).exp();
                }
                // rten-vecmath test_log_softmax_sums_to_one asserts 1e-4 (n = 64)
                if (sum - 1.0).abs() >= 1e-4 {
                    return fail("sum", format!("sum of exp(outputs) = {sum} differs from 1 by >= 1e-4"));
                }
            }
        }
    }
    Verdict::pass_l(n > 0 && any_finite, labels)
}

// ---------------------------------------------------------------------------
// normalize
// ---------------------------------------------------------------------------

#[derive(Clone, Debug, Serialize, Deserialize)]
struct NmCase {
    /// values are v / 256
    x: Vec<i32>,
    pre_scale_bias: i32,
    scale: i32,
    bias: i32,
    element_scale: Option<Vec<i32>>,
    element_bias: Option<Vec<i32>>,
    in_place: bool,
    /// element_scale / element_bias are this much longer (+) or shorter (-) than x: must panic if != 0
    len_delta: i8,
}

fn q() -> impl Strategy<Value = i32> {
    prop_oneof![3 => -2560i32..=2560, 1 => -25_600i32..=25_600, 1 => Just(0), 1 => Just(256)]
}

fn nm_case() -> impl Strategy<Value = NmCase> {
    (0usize..=67, any::<bool>(), prop_oneof![199 => Just(0i8), 1 => -2i8..=2]).prop_flat_map(|(n, in_place, len_delta)| {
        let m = (n as i64 + len_delta as i64).max(0) as usize;
        (
            proptest::collection::vec(q(), n),
            q(),
            q(),
            prop_oneof![1 => Just(0i32), 2 => q()],
            proptest::option::of(proptest::collection::vec(q(), m)),
            proptest::option::of(proptest::collection::vec(q(), m)),
        )
            .prop_map(move |(x, pre_scale_bias, scale, bias, element_scale, element_bias)| NmCase {
                x,
                pre_scale_bias,
                scale,
                bias,
                element_scale,
                element_bias,
                in_place,
                len_delta,
            })
    })
}

fn nm_oracle(c: &NmCase, isas: &[IsaKind]) -> Verdict {
    let f = |v: i32| v as f32 / 256.0;
    let x: Vec<f32> = c.x.iter().map(|&v| f(v)).collect();
    let es: Option<Vec<f32>> = c.element_scale.as_ref().map(|v| v.iter().map(|&v| f(v)).collect());
    let eb: Option<Vec<f32>> = c.element_bias.as_ref().map(|v| v.iter().map(|&v| f(v)).collect());
    let n = x.len();
    let mismatch = es.as_ref().is_some_and(|v| v.len() != n) || eb.as_ref().is_some_and(|v| v.len() != n);
    let (psb, scale, bias) = (f(c.pre_scale_bias), f(c.scale), f(c.bias));
    let mut labels = vec![match (&es, &eb) {
        (None, None) => "const scale+bias",
        (Some(_), None) if bias == 0.0 => "element scale only",
        (Some(_), None) => "element scale, const bias",
        (None, Some(_)) => "element bias only",
        (Some(_), Some(_)) => "element scale+bias",
    }];
    if mismatch {
        labels.push("length mismatch (must panic)");
    }
    if n % 16 != 0 {
        labels.push("len%16!=0");
    }
    for &isa in isas {
        let opts = || NormalizeOptions {
            pre_scale_bias: psb,
            scale,
            element_scale: es.as_deref(),
            bias,
            element_bias: eb.as_deref(),
        };
        let res = vcore::catch(|| {
            if c.in_place {
                let mut buf = x.clone();
                run_on(isa, Normalize::new_mut(&mut buf, opts()));
                buf
            } else {
                let mut out: Vec<MaybeUninit<f32>> = vec![MaybeUninit::new(f32::NAN); n];
                run_on(isa, Normalize::new(&x, &mut out, opts()));
                // Safety: initialised with NaN above.
                out.into_iter().map(|v| unsafe { v.assume_init() }).collect()
            }
        });
        let ys = match (res, mismatch) {
            (Err(_), true) => continue, // documented panic
            (Ok(_), true) => {
                return Verdict::fail("normalize:no-panic-on-length-mismatch", format!("on {}: slices of different lengths were accepted: {c:?}", isa.name()))
            }
            (Err(p), false) => return Verdict::fail(p.signature(), format!("on {}: panic {} at {}", isa.name(), p.msg, p.loc())),
            (Ok(ys), false) => ys,
        };
        for i in 0..n {
            // documented formula, in f64
            let s = es.as_ref().map_or(1.0, |v| v[i]) as f64;
            let b = eb.as_ref().map_or(0.0, |v| v[i]) as f64;
            let p = (x[i] as f64 - psb as f64) * scale as f64 * s;
            let want = p + bias as f64 + b;
            // a-priori rounding bound for any association / fused or unfused evaluation (see NOTES.md)
            let tol = 4.0 * f32::EPSILON as f64 * (p.abs() + (bias as f64).abs() + b.abs()) + f32::MIN_POSITIVE as f64;
            let got = ys[i] as f64;
            if !((got - want).abs() <= tol) {
                return Verdict::fail(
                    "normalize:value",
                    format!("on {} output[{i}] = {got:e}, documented formula gives {want:e} (tolerance {tol:e}); case {c:?}", isa.name()),
                );
            }
        }
    }
    Verdict::pass_l(n > 0 && !mismatch, labels)
}

// ---------------------------------------------------------------------------

fn main() {
    let mut ck = Check::new("C19");
    ck.rule(
        "Unary functions (Exp, Sigmoid, Tanh, Erf, Sin, Cos, Silu, Swish(1.7), Gelu, ApproxGelu, Elu(0.5)) are evaluated on \
         EVERY ISA (generic, AVX2, AVX-512; explicit SimdOp::eval(isa)) at: quick = every sign x exponent x 16384 evenly spaced \
         mantissas (+ first/last mantissas) + +-8192-ULP neighbourhoods of every cut-off constant in the source + +-16 ULPs around every \
         multiple of pi/2 below 48000 (sub-check grid, deduplicated point set), thorough = all 2^32 bit patterns (all-f32); plus \
         proptest vectors of length 1..=67 (random-vectors) and curated special values (points). One evaluation = one (function, ISA, \
         input) triple. Non-trivial = the reference result is finite and non-zero. Softmax/LogSoftmax/Normalize: proptest vectors of \
         length 0..=67 (values: [-10,10], [-120,0], -inf, +-1e30..f32::MAX, arbitrary finite bit patterns, all-equal, all -inf, masks), \
         in-place and src->dst, on every ISA; non-trivial = non-empty with at least one finite input. Distinct = distinct Debug rendering \
         (proptest sub-checks) / distinct (function, ISA, bit pattern) (bulk sub-checks).",
    );
    ck.assume("references: f32::exp/tanh/sin/cos of the Rust standard library (glibc libm), libm::erff (the references the docs name)");
    ck.assume("ULP measured as documented: |actual-expected| / ulp(expected), ulp(e) = next_up(|e|)-|e|, ulp(0) = smallest subnormal");
    ck.assume("bounds for Silu/Swish/Gelu/ApproxGelu apply on |x| <= 6 (the range rten's tests assert them on); elsewhere only NaN/inf class (Gelu, ApproxGelu) or the documented formula with the documented error of Exp/Sigmoid (Silu, Swish, Elu)");
    ck.set_threads(16);
    // Crash attribution off: this check decides *accuracy*; its inputs live in ordinary heap
    // vectors where a stray access would not fault anyway. The memory-safety side of the very
    // same operations (every length 0..=4*lanes+3, buffers flush against PROT_NONE guard pages,
    // slots ON) is decided by C18's `bounds` and `vecmath` sub-checks.
    ck.set_slots(false);

    let isas: Vec<IsaKind> = ALL_ISAS.iter().copied().filter(|i| i.available()).collect();
    if isas.len() != ALL_ISAS.len() {
        ck.inconclusive(format!("only {:?} of the three ISAs are available on this host", isas));
    }

    // curated special values; also the replay entry point of the bulk loops
    {
        let sv = special_values();
        let isas2 = isas.clone();
        let total = (sv.len() * ALL_FUNCS.len() * isas.len()) as u64;
        let nf = ALL_FUNCS.len() as u64;
        let ni = isas.len() as u64;
        ck.enumerate_par(
            "points",
            true,
            total,
            |i| {
                let v = sv[(i / (nf * ni)) as usize];
                Pt { func: ALL_FUNCS[((i / ni) % nf) as usize], isa: isas2[(i % ni) as usize], xs: vec![v; 19] }
            },
            pt_oracle,
        );
    }

    match ck.tier() {
        Tier::Quick => {
            if ck.selected("grid") {
                let pts = quick_points();
                let n = pts.len() as u64;
                const B: usize = 4096;
                let blocks = (pts.len() + B - 1) / B;
                let acc = bulk_run(blocks as u64, &isas, |b, v| {
                    let lo = b as usize * B;
                    let hi = (lo + B).min(pts.len());
                    v.extend(pts[lo..hi].iter().map(|&x| f32::from_bits(x)));
                });
                report_bulk(&mut ck, "grid", acc, false, n);
            }
        }
        Tier::Thorough => {
            if ck.selected("all-f32") {
                let acc = bulk_run(1 << 16, &isas, |b, v| {
                    let base = (b as u32) << 16;
                    v.extend((0..65536u32).map(|i| f32::from_bits(base | i)));
                });
                report_bulk(&mut ck, "all-f32", acc, true, 1u64 << 32);
            }
        }
    }

    let n = ck.pick(400_000, 6_000_000);
    ck.prop("random-vectors", n, rv_case, |c| rv_oracle(c, &isas));
    let n = ck.pick(800_000, 12_000_000);
    ck.prop("softmax", n, sm_case, |c| sm_oracle(c, &isas));
    let n = ck.pick(500_000, 6_000_000);
    ck.prop("normalize", n, nm_case, |c| nm_oracle(c, &isas));
    ck.finish();
}

//! Slice-level operations of rten-simd (simd_map, simd_apply, SimdIterable,
//! SliceWriter, load_pad, masked loads/stores, load/store[_many]) run on
//! buffers placed flush against `PROT_NONE` guard pages.
//!
//! Every case checks (1) the result against a scalar model, (2) that no byte
//! of the data page outside the slice changed (canary), and relies on (3) the
//! guard page to turn any access past the guarded end into a SIGSEGV that the
//! engine attributes to the case.

use std::mem::MaybeUninit;

use rten_simd::functional::{simd_apply, simd_map};
use rten_simd::ops::{BitOps, MaskOps, NumOps};
use rten_simd::{f16, Elem, Isa, Mask, Simd, SimdIterable, SimdOp, SliceWriter};
use serde::{Deserialize, Serialize};

use crate::guard::{Place, Region};
use crate::isa::IsaKind;
use crate::lane::{ref_f32_to_f16, Lane, Ty};

#[derive(Clone, Copy, Debug, PartialEq, Eq, Hash, Serialize, Deserialize)]
pub enum BKind {
    MapInPlace,
    MapSrcDst,
    Apply1,
    Apply2,
    Apply4,
    IterTail,
    IterPad,
    Fold,
    FoldUnroll4,
    FoldN2,
    FoldNUnroll,
    Writer,
    WriterOverflow,
    LoadPad,
    /// load_ptr_mask / store_ptr_mask with first_n_mask(len), len <= lanes
    MaskedLoadStore,
    /// load_ptr_mask / store_ptr_mask with mask lanes [aux, aux+len): the
    /// masked-off lanes on the guarded side lie inside the guard page
    MaskWindow,
    /// load / load_many / store / store_uninit / store_many_uninit on exact-size slices
    LoadStoreExact,
    /// documented panics of load/store on too-short slices
    ShortSlicePanics,
}

pub const NUM_KINDS: [BKind; 18] = [
    BKind::MapInPlace,
    BKind::MapSrcDst,
    BKind::Apply1,
    BKind::Apply2,
    BKind::Apply4,
    BKind::IterTail,
    BKind::IterPad,
    BKind::Fold,
    BKind::FoldUnroll4,
    BKind::FoldN2,
    BKind::FoldNUnroll,
    BKind::Writer,
    BKind::WriterOverflow,
    BKind::LoadPad,
    BKind::MaskedLoadStore,
    BKind::MaskWindow,
    BKind::LoadStoreExact,
    BKind::ShortSlicePanics,
];

/// Kinds available with `BitOps` only (f16).
pub const BIT_KINDS: [BKind; 6] = [
    BKind::Writer,
    BKind::WriterOverflow,
    BKind::LoadPad,
    BKind::MaskedLoadStore,
    BKind::LoadStoreExact,
    BKind::ShortSlicePanics,
];

impl BKind {
    pub fn name(self) -> &'static str {
        match self {
            BKind::MapInPlace => "simd_map(in-place)",
            BKind::MapSrcDst => "simd_map(src,dst)",
            BKind::Apply1 => "simd_apply<1>",
            BKind::Apply2 => "simd_apply<2>",
            BKind::Apply4 => "simd_apply<4>",
            BKind::IterTail => "simd_iter+tail",
            BKind::IterPad => "simd_iter_pad",
            BKind::Fold => "Iter::fold",
            BKind::FoldUnroll4 => "Iter::fold_unroll<4>",
            BKind::FoldN2 => "Iter::fold_n<2>",
            BKind::FoldNUnroll => "Iter::fold_n_unroll<2,4>",
            BKind::Writer => "SliceWriter",
            BKind::WriterOverflow => "SliceWriter overflow",
            BKind::LoadPad => "load_pad",
            BKind::MaskedLoadStore => "load/store_ptr_mask(first_n)",
            BKind::MaskWindow => "load/store_ptr_mask(window)",
            BKind::LoadStoreExact => "load/store[_many][_uninit]",
            BKind::ShortSlicePanics => "load/store short-slice panics",
        }
    }
}

#[derive(Clone, Debug, Serialize, Deserialize)]
pub struct BCase {
    pub isa: IsaKind,
    pub ty: Ty,
    pub kind: BKind,
    pub len: usize,
    pub place: Place,
    /// MaskWindow: first lane of the window
    pub aux: usize,
    /// number of consecutive lengths (len, len+1, ...) this case covers
    pub count: usize,
}

/// Value stored at index `i` (small positive integers, exact in every type).
pub fn val_bits(ty: Ty, i: usize) -> u32 {
    let v = ((i * 7 + 3) % 61 + 1) as u32;
    match ty {
        Ty::F32 => (v as f32).to_bits(),
        Ty::F16 => ref_f32_to_f16(v as f32) as u32,
        _ => v,
    }
}

fn num_of(ty: Ty, b: u32) -> i64 {
    match ty {
        Ty::F32 => f32::from_bits(b) as i64,
        _ => ty.to_i64(b),
    }
}

fn bits_of(ty: Ty, v: i64) -> u32 {
    match ty {
        Ty::F32 => (v as f32).to_bits(),
        _ => ty.wrap(v),
    }
}

/// Scalar model of `x + 1` in the element type (wrapping for integers).
pub fn add1(ty: Ty, b: u32) -> u32 {
    bits_of(ty, num_of(ty, b) + 1)
}

/// # Safety
/// The region's data page is mapped and initialised (canary bytes); any bit
/// pattern is a valid `T` for the element types used here.
unsafe fn guarded<'a, T>(r: &Region, len: usize, place: Place) -> &'a mut [T] {
    std::slice::from_raw_parts_mut(r.place::<T>(len, place), len)
}

fn fill<T: Lane>(buf: &mut [T]) {
    for (i, x) in buf.iter_mut().enumerate() {
        *x = T::from_u32(val_bits(T::TY, i));
    }
}

fn as_uninit<T>(s: &mut [T]) -> &mut [MaybeUninit<T>] {
    // Safety: same layout; callers only write through it.
    unsafe { std::slice::from_raw_parts_mut(s.as_mut_ptr() as *mut MaybeUninit<T>, s.len()) }
}

fn canaries<T>(regs: &[(&Region, &[T])]) -> Result<(), String> {
    for (k, (r, s)) in regs.iter().enumerate() {
        if !r.canary_intact(s.as_ptr() as *const u8, std::mem::size_of_val(*s)) {
            return Err(format!("memory outside the slice (buffer {k}) was modified"));
        }
    }
    Ok(())
}

fn expect_eq<T: Lane>(what: &str, got: &[T], want: impl Fn(usize) -> u32, len: usize) -> Result<(), String> {
    if got.len() != len {
        return Err(format!("{what}: length {} != {len}", got.len()));
    }
    for (i, g) in got.iter().enumerate() {
        if g.to_u32() != want(i) {
            return Err(format!("{what}: element {i} = {:#x}, scalar model {:#x}", g.to_u32(), want(i)));
        }
    }
    Ok(())
}

fn expect_panic<R>(what: &str, f: impl FnOnce() -> R) -> Result<(), String> {
    match vcore::catch(f) {
        Err(_) => Ok(()),
        Ok(_) => Err(format!("{what}: documented panic did not happen")),
    }
}

/// Kinds that only need `BitOps`.
#[inline(always)]
fn run_bits<T: Lane + Elem, O: BitOps<T>>(ops: O, c: &BCase, r: &[Region; 4]) -> Result<(), String> {
    let ty = T::TY;
    let l = ops.len();
    let (len, place) = (c.len, c.place);
    match c.kind {
        BKind::Writer => {
            // Safety: see `guarded`.
            let (src, dst) = unsafe { (guarded::<T>(&r[0], len, place), guarded::<T>(&r[1], len, place)) };
            fill(src);
            let out_len;
            {
                let mut w = SliceWriter::new(as_uninit(dst));
                let mut i = 0;
                while len - i >= 2 * l {
                    let xs = ops.load_many::<2>(&src[i..]);
                    w.write_vecs(ops, xs);
                    i += 2 * l;
                }
                while len - i >= l {
                    w.write_vec(ops, ops.load(&src[i..]));
                    i += l;
                }
                while i < len {
                    w.write_scalar(src[i]);
                    i += 1;
                }
                out_len = w.into_mut_slice().len();
            }
            if out_len != len {
                return Err(format!("into_mut_slice length {out_len} != {len}"));
            }
            expect_eq("SliceWriter output", dst, |i| val_bits(ty, i), len)?;
            expect_eq("source", src, |i| val_bits(ty, i), len)?;
            canaries(&[(&r[0], &*src), (&r[1], &*dst)])
        }
        BKind::WriterOverflow => {
            // Fill as many whole vectors as fit, then one more vector / scalar must panic.
            // Safety: see `guarded`.
            let dst = unsafe { guarded::<T>(&r[1], len, place) };
            let v = ops.splat(T::from_u32(val_bits(ty, 5)));
            let full = len / l;
            let res = vcore::catch(|| {
                let mut w = SliceWriter::new(as_uninit(dst));
                for _ in 0..full {
                    w.write_vec(ops, v);
                }
                let a = vcore::catch(|| w.write_vec(ops, v)).is_err();
                let b = vcore::catch(|| w.write_vecs(ops, [v, v])).is_err();
                for _ in 0..len % l {
                    w.write_scalar(T::from_u32(val_bits(ty, 6)));
                }
                let c = vcore::catch(|| w.write_scalar(T::from_u32(val_bits(ty, 7)))).is_err();
                (a, b, c, w.into_mut_slice().len())
            });
            let (a, b, cc, n) = res.map_err(|p| format!("unexpected panic: {} at {}", p.msg, p.loc()))?;
            // write_vec must panic unless a whole vector still fits (it never does here when len % l != 0;
            // when len % l == 0 the buffer is full, so it must panic as well)
            if !a {
                return Err("write_vec past the end of the buffer did not panic".into());
            }
            if !b {
                return Err("write_vecs past the end of the buffer did not panic".into());
            }
            if !cc {
                return Err("write_scalar past the end of the buffer did not panic".into());
            }
            if n != len {
                return Err(format!("into_mut_slice length {n} != {len}"));
            }
            canaries(&[(&r[1], &*dst)])
        }
        BKind::LoadPad => {
            // Safety: see `guarded`.
            let src = unsafe { guarded::<T>(&r[0], len, place) };
            fill(src);
            let (v, mask) = ops.load_pad(src);
            let n = len.min(l);
            let arr = v.to_array();
            let m = mask.to_array();
            for i in 0..l {
                let want = if i < n { val_bits(ty, i) } else { 0 };
                if arr.as_ref()[i].to_u32() != want {
                    return Err(format!("load_pad lane {i} = {:#x}, expected {:#x}", arr.as_ref()[i].to_u32(), want));
                }
                if m.as_ref()[i] != (i < n) {
                    return Err(format!("load_pad mask lane {i} = {}, expected {}", m.as_ref()[i], i < n));
                }
            }
            canaries(&[(&r[0], &*src)])
        }
        BKind::MaskedLoadStore => {
            assert!(len <= l);
            // Safety: see `guarded`.
            let (src, dst) = unsafe { (guarded::<T>(&r[0], len, place), guarded::<T>(&r[1], len, place)) };
            fill(src);
            let mask = ops.first_n_mask(len);
            // Safety (of the code under test's contract): lanes 0..len are valid in both buffers.
            let v = unsafe { ops.load_ptr_mask(src.as_ptr(), mask) };
            let arr = v.to_array();
            for i in 0..l {
                let want = if i < len { val_bits(ty, i) } else { 0 };
                if arr.as_ref()[i].to_u32() != want {
                    return Err(format!("load_ptr_mask lane {i} = {:#x}, expected {:#x}", arr.as_ref()[i].to_u32(), want));
                }
            }
            let w = ops.not(v);
            unsafe { ops.store_ptr_mask(w, dst.as_mut_ptr(), mask) };
            expect_eq("store_ptr_mask", dst, |i| !val_bits(ty, i) & ty.mask(), len)?;
            canaries(&[(&r[0], &*src), (&r[1], &*dst)])
        }
        BKind::LoadStoreExact => {
            let n = 2 * l;
            // Safety: see `guarded`.
            let (src, dst, dst2) = unsafe { (guarded::<T>(&r[0], n, place), guarded::<T>(&r[1], n, place), guarded::<T>(&r[2], l, place)) };
            fill(src);
            let xs = ops.load_many::<2>(src);
            let init = ops.store_many_uninit(xs, as_uninit(dst)).len();
            if init != n {
                return Err(format!("store_many_uninit returned {init} elements, expected {n}"));
            }
            expect_eq("load_many/store_many_uninit", dst, |i| val_bits(ty, i), n)?;
            let v = ops.load(&src[l..]);
            ops.store(v, dst2);
            expect_eq("load/store", dst2, |i| val_bits(ty, l + i), l)?;
            let v0 = ops.load(&src[..l]);
            let init = ops.store_uninit(v0, as_uninit(dst2)).len();
            if init != l {
                return Err(format!("store_uninit returned {init} elements, expected {l}"));
            }
            expect_eq("store_uninit", dst2, |i| val_bits(ty, i), l)?;
            canaries(&[(&r[0], &*src), (&r[1], &*dst), (&r[2], &*dst2)])
        }
        BKind::ShortSlicePanics => {
            // len < 2 * lanes here; len < lanes for the single-vector variants
            // Safety: see `guarded`.
            let (src, dst) = unsafe { (guarded::<T>(&r[0], len, place), guarded::<T>(&r[1], len, place)) };
            fill(src);
            let v = ops.splat(T::from_u32(val_bits(ty, 9)));
            if len < l {
                expect_panic("load on a short slice", || ops.load(&*src))?;
                expect_panic("store on a short slice", || ops.store(v, &mut *dst))?;
                expect_panic("store_uninit on a short slice", || ops.store_uninit(v, as_uninit(&mut *dst)).len())?;
            }
            expect_panic("load_many::<2> on a short slice", || ops.load_many::<2>(&*src))?;
            expect_panic("store_many_uninit::<2> on a short slice", || ops.store_many_uninit([v, v], as_uninit(&mut *dst)).len())?;
            canaries(&[(&r[0], &*src), (&r[1], &*dst)])
        }
        _ => Err(format!("kind {:?} needs NumOps", c.kind)),
    }
}

#[inline(always)]
fn run_num<T: Lane + Elem, O: NumOps<T>, M: MaskOps<<O::Simd as Simd>::Mask>>(ops: O, mo: M, c: &BCase, r: &[Region; 4]) -> Result<(), String> {
    let ty = T::TY;
    let l = ops.len();
    let (len, place) = (c.len, c.place);
    let one = ops.one();
    // expected lane sums of (x + 1) / lane maxima over indices i == j (mod l)
    let lane_sum = |j: usize| bits_of(ty, (j..len).step_by(l).map(|i| num_of(ty, val_bits(ty, i)) + 1).sum::<i64>());
    let lane_max = |j: usize| bits_of(ty, (j..len).step_by(l).map(|i| num_of(ty, val_bits(ty, i))).max().unwrap_or(0));
    let check_lanes = |what: &str, v: O::Simd, want: &dyn Fn(usize) -> u32| -> Result<(), String> {
        let arr = v.to_array();
        for j in 0..l {
            if arr.as_ref()[j].to_u32() != want(j) {
                return Err(format!("{what}: lane {j} = {:#x}, scalar model {:#x}", arr.as_ref()[j].to_u32(), want(j)));
            }
        }
        Ok(())
    };
    match c.kind {
        BKind::MapInPlace | BKind::Apply1 | BKind::Apply2 | BKind::Apply4 => {
            // Safety: see `guarded`.
            let buf = unsafe { guarded::<T>(&r[0], len, place) };
            fill(buf);
            let f = |x: O::Simd| ops.add(x, one);
            let n = match c.kind {
                BKind::MapInPlace => simd_map(ops, &mut buf[..], f).len(),
                BKind::Apply1 => simd_apply::<_, _, _, 1>(ops, buf, f).len(),
                BKind::Apply2 => simd_apply::<_, _, _, 2>(ops, buf, f).len(),
                _ => simd_apply::<_, _, _, 4>(ops, buf, f).len(),
            };
            if n != len {
                return Err(format!("returned slice length {n} != {len}"));
            }
            expect_eq("mapped", buf, |i| add1(ty, val_bits(ty, i)), len)?;
            canaries(&[(&r[0], &*buf)])
        }
        BKind::MapSrcDst => {
            // Safety: see `guarded`.
            let (src, dst) = unsafe { (guarded::<T>(&r[0], len, place), guarded::<T>(&r[1], len, place)) };
            fill(src);
            let n = simd_map(
                ops,
                (&src[..], as_uninit(dst)),
                #[inline(always)]
                |x| ops.add(x, one),
            )
            .len();
            if n != len {
                return Err(format!("returned slice length {n} != {len}"));
            }
            expect_eq("mapped", dst, |i| add1(ty, val_bits(ty, i)), len)?;
            expect_eq("source", src, |i| val_bits(ty, i), len)?;
            canaries(&[(&r[0], &*src), (&r[1], &*dst)])
        }
        BKind::IterTail => {
            // Safety: see `guarded`.
            let buf = unsafe { guarded::<T>(&r[0], len, place) };
            fill(buf);
            let mut it = buf.simd_iter(ops);
            let full = len / l;
            if it.len() != full {
                return Err(format!("Iter::len() = {} before iteration, expected {full}", it.len()));
            }
            let mut got: Vec<u32> = Vec::with_capacity(len + l);
            let mut taken = 0;
            while let Some(v) = it.next() {
                taken += 1;
                got.extend(v.to_array().as_ref().iter().map(|x| x.to_u32()));
                if it.len() != full - taken {
                    return Err(format!("size_hint-stale: Iter::len() = {} after {taken} of {full} chunks were consumed, expected {}", it.len(), full - taken));
                }
            }
            if taken != full {
                return Err(format!("simd_iter yielded {taken} chunks, expected {full}"));
            }
            let rem = len % l;
            match it.tail() {
                None if rem == 0 => {}
                None => return Err(format!("tail() = None with {rem} left-over elements")),
                Some(_) if rem == 0 => return Err("tail() = Some with no left-over elements".into()),
                Some((v, mask)) => {
                    let arr = v.to_array();
                    let m = mask.to_array();
                    for j in 0..l {
                        let want = if j < rem { val_bits(ty, full * l + j) } else { 0 };
                        if arr.as_ref()[j].to_u32() != want {
                            return Err(format!("tail lane {j} = {:#x}, expected {:#x}", arr.as_ref()[j].to_u32(), want));
                        }
                        if m.as_ref()[j] != (j < rem) {
                            return Err(format!("tail mask lane {j} = {}, expected {}", m.as_ref()[j], j < rem));
                        }
                    }
                }
            }
            for (i, g) in got.iter().enumerate() {
                if *g != val_bits(ty, i) {
                    return Err(format!("chunk element {i} = {g:#x}, expected {:#x}", val_bits(ty, i)));
                }
            }
            canaries(&[(&r[0], &*buf)])
        }
        BKind::IterPad => {
            // Safety: see `guarded`.
            let buf = unsafe { guarded::<T>(&r[0], len, place) };
            fill(buf);
            let mut it = buf.simd_iter_pad(ops);
            let n_chunks = len.div_ceil(l);
            if it.len() != n_chunks {
                return Err(format!("simd_iter_pad len() = {}, expected {n_chunks}", it.len()));
            }
            let mut got: Vec<u32> = Vec::new();
            let mut taken = 0;
            while let Some(v) = it.next() {
                taken += 1;
                got.extend(v.to_array().as_ref().iter().map(|x| x.to_u32()));
                if it.len() != n_chunks - taken {
                    return Err(format!("size_hint-stale: simd_iter_pad len() = {} after {taken} of {n_chunks} chunks were consumed, expected {}", it.len(), n_chunks - taken));
                }
            }
            if got.len() != n_chunks * l {
                return Err(format!("simd_iter_pad yielded {} lanes, expected {}", got.len(), n_chunks * l));
            }
            for (i, g) in got.iter().enumerate() {
                let want = if i < len { val_bits(ty, i) } else { 0 };
                if *g != want {
                    return Err(format!("padded element {i} = {g:#x}, expected {want:#x}"));
                }
            }
            canaries(&[(&r[0], &*buf)])
        }
        BKind::Fold | BKind::FoldUnroll4 => {
            // Safety: see `guarded`.
            let buf = unsafe { guarded::<T>(&r[0], len, place) };
            fill(buf);
            let f = |acc: O::Simd, x: O::Simd| ops.add(ops.add(acc, x), one);
            let v = if c.kind == BKind::Fold {
                buf.simd_iter(ops).fold(ops.zero(), f)
            } else {
                buf.simd_iter(ops).fold_unroll::<4>(
                    ops.zero(),
                    f,
                    #[inline(always)]
                    |a, b| ops.add(a, b),
                )
            };
            check_lanes("fold accumulator", v, &lane_sum)?;
            canaries(&[(&r[0], &*buf)])
        }
        BKind::FoldN2 | BKind::FoldNUnroll => {
            // Safety: see `guarded`.
            let buf = unsafe { guarded::<T>(&r[0], len, place) };
            fill(buf);
            let f = |[s, m]: [O::Simd; 2], x: O::Simd| [ops.add(ops.add(s, x), one), ops.max(m, x)];
            let [s, m] = if c.kind == BKind::FoldN2 {
                buf.simd_iter(ops).fold_n::<2>([ops.zero(), ops.zero()], f)
            } else {
                buf.simd_iter(ops).fold_n_unroll::<2, 4>(
                    [ops.zero(), ops.zero()],
                    f,
                    #[inline(always)]
                    |[s1, m1]: [O::Simd; 2], [s2, m2]: [O::Simd; 2]| [ops.add(s1, s2), ops.max(m1, m2)],
                )
            };
            check_lanes("fold_n sum accumulator", s, &lane_sum)?;
            check_lanes("fold_n max accumulator", m, &lane_max)?;
            canaries(&[(&r[0], &*buf)])
        }
        BKind::MaskWindow => {
            let lo = c.aux;
            let hi = lo + len;
            assert!(hi <= l);
            // Safety: see `guarded`.
            let (src, dst) = unsafe { (guarded::<T>(&r[0], len, place), guarded::<T>(&r[1], len, place)) };
            fill(src);
            let iota: Vec<T> = (0..l).map(|i| T::from_u32(bits_of(ty, i as i64))).collect();
            let iv = ops.load(&iota);
            let mask = mo.and(ops.ge(iv, ops.splat(T::from_u32(bits_of(ty, lo as i64)))), ops.lt(iv, ops.splat(T::from_u32(bits_of(ty, hi as i64)))));
            let m = mask.to_array();
            for j in 0..l {
                if m.as_ref()[j] != (lo <= j && j < hi) {
                    return Err(format!("window mask lane {j} wrong (harness precondition; ge/lt/MaskOps::and)"));
                }
            }
            // Lane `lo` is src[0]: the base pointer lies `lo` elements before the slice, i.e.
            // (for Place::Start) inside the leading guard page; lanes >= hi lie (for Place::End)
            // inside the trailing guard page. All those lanes are masked off.
            let sp = src.as_ptr().wrapping_sub(lo);
            let dp = dst.as_mut_ptr().wrapping_sub(lo);
            // Safety (contract of the code under test): for each set mask lane i, ptr.add(i) is valid.
            let v = unsafe { ops.load_ptr_mask(sp, mask) };
            let arr = v.to_array();
            for j in 0..l {
                let want = if lo <= j && j < hi { val_bits(ty, j - lo) } else { 0 };
                if arr.as_ref()[j].to_u32() != want {
                    return Err(format!("load_ptr_mask lane {j} = {:#x}, expected {:#x}", arr.as_ref()[j].to_u32(), want));
                }
            }
            unsafe { ops.store_ptr_mask(ops.add(v, one), dp, mask) };
            expect_eq("store_ptr_mask", dst, |i| add1(ty, val_bits(ty, i)), len)?;
            canaries(&[(&r[0], &*src), (&r[1], &*dst)])
        }
        _ => run_bits(ops, c, r),
    }
}

pub struct BoundsOp<'a> {
    pub case: &'a BCase,
    pub regs: &'a [Region; 4],
}

impl SimdOp for BoundsOp<'_> {
    type Output = Result<(), String>;

    #[inline(always)]
    fn eval<I: Isa>(self, isa: I) -> Self::Output {
        let (c, r) = (self.case, self.regs);
        match c.ty {
            Ty::I8 => run_num::<i8, _, _>(isa.i8(), isa.m8(), c, r),
            Ty::U8 => run_num::<u8, _, _>(isa.u8(), isa.m8(), c, r),
            Ty::I16 => run_num::<i16, _, _>(isa.i16(), isa.m16(), c, r),
            Ty::U16 => run_num::<u16, _, _>(isa.u16(), isa.m16(), c, r),
            Ty::I32 => run_num::<i32, _, _>(isa.i32(), isa.m32(), c, r),
            Ty::F32 => run_num::<f32, _, _>(isa.f32(), isa.m32(), c, r),
            Ty::F16 => run_bits::<f16, _>(isa.f16(), c, r),
        }
    }
}

/// All bounds cases for one (isa, type).
pub fn cases_for(isa: IsaKind, ty: Ty) -> Vec<BCase> {
    let l = ty.lanes(isa.lanes32());
    let kinds: &[BKind] = if ty == Ty::F16 { &BIT_KINDS } else { &NUM_KINDS };
    let mut v = Vec::new();
    for &kind in kinds {
        for place in [Place::End, Place::Start] {
            let mk = |len: usize, aux: usize| BCase { isa, ty, kind, len, place, aux, count: 1 };
            // consecutive lengths are batched four to a case (the engine records every case on
            // disk before running it, for crash attribution)
            let batched = |lo: usize, hi: usize| -> Vec<BCase> {
                (lo..=hi).step_by(4).map(|n| BCase { isa, ty, kind, len: n, place, aux: 0, count: (hi + 1 - n).min(4) }).collect()
            };
            match kind {
                BKind::MaskedLoadStore => v.extend(batched(0, l)),
                BKind::MaskWindow => {
                    for lo in 0..l {
                        // every window start, a spread of window lengths
                        let mut lens: Vec<usize> = vec![1, 2, 3, l / 2, l - lo];
                        lens.retain(|n| *n >= 1 && lo + *n <= l);
                        lens.sort_unstable();
                        lens.dedup();
                        v.extend(lens.into_iter().map(|n| mk(n, lo)));
                    }
                }
                BKind::LoadStoreExact => v.push(mk(2 * l, 0)),
                BKind::ShortSlicePanics => v.extend(batched(0, 2 * l - 1)),
                _ => v.extend(batched(0, 4 * l + 3)),
            }
        }
    }
    v
}

//! Oracles for the vectorized math functions of rten-vecmath (C19; also used
//! by C18's vecmath sub-check).
//!
//! Every bound below is taken from a doc comment or from a constant asserted
//! by rten-vecmath's own tests (see NOTES.md, "C19 bounds"). Nothing tighter
//! is invented here.

use std::mem::MaybeUninit;

use rten_simd::functional::simd_map;
use rten_simd::{Isa, SimdOp, SimdUnaryOp};
use rten_vecmath::{ApproxGelu, Cos, Elu, Erf, Exp, Gelu, Sigmoid, Silu, Sin, Swish, Tanh};
use serde::{Deserialize, Serialize};

use crate::isa::{run_on, IsaKind};

#[derive(Clone, Copy, Debug, PartialEq, Eq, Hash, Serialize, Deserialize)]
pub enum Func {
    Exp,
    Sigmoid,
    Tanh,
    Erf,
    Sin,
    Cos,
    Silu,
    Swish,
    Gelu,
    ApproxGelu,
    Elu,
}

pub const ALL_FUNCS: [Func; 11] = [
    Func::Exp,
    Func::Sigmoid,
    Func::Tanh,
    Func::Erf,
    Func::Sin,
    Func::Cos,
    Func::Silu,
    Func::Swish,
    Func::Gelu,
    Func::ApproxGelu,
    Func::Elu,
];

/// `alpha` used for Swish: the value rten-vecmath's `test_swish` uses.
pub const SWISH_ALPHA: f32 = 1.7;
/// `alpha` used for Elu: the value rten-vecmath's `test_elu` uses.
pub const ELU_ALPHA: f32 = 0.5;

// --- bounds, with their sources -------------------------------------------
/// exp.rs doc of `Exp` ("maximum error of 1 ULP compared to f32::exp") and test const MAX_EXP_ERROR_ULPS.
pub const EXP_ULPS: f64 = 1.0;
/// exp.rs doc of `Sigmoid` ("maximum error of 4 ULPs compared to 1/(1+(-x).exp())") and MAX_SIGMOID_ERROR_ULPS.
pub const SIGMOID_ULPS: f64 = 4.0;
/// tanh.rs test const MAX_TANH_ERROR_ULPS (vs f32::tanh); property text: 3 ULPs.
pub const TANH_ULPS: f64 = 3.0;
/// erf.rs doc of `Erf` and test const MAX_EXPECTED_DIFF (vs libm::erff).
pub const ERF_ABS: f64 = 6.631017e-7;
/// sin_cos.rs test_sin_exhaustive tolerance on [-LARGE_THRESHOLD, LARGE_THRESHOLD] (doc: 2.98e-7).
pub const SIN_ABS: f64 = 3e-7;
/// sin_cos.rs test_cos_exhaustive tolerance (doc: 4.17e-7).
pub const COS_ABS: f64 = 5e-7;
/// sin_cos.rs LARGE_THRESHOLD: beyond it rten falls back to std sin/cos.
pub const SIN_COS_LARGE: f32 = 48_000.0;
/// exp.rs test_silu / test_swish: Tolerance::Ulp(MAX_SIGMOID_ERROR_ULPS) on arange(-6, 6, 0.001).
pub const SILU_ULPS: f64 = 4.0;
/// erf.rs test_gelu: Tolerance::Absolute(MAX_EXPECTED_DIFF) on arange(-6, 6, 0.001).
pub const GELU_ABS: f64 = 6.631017e-7;
/// erf.rs test_approx_gelu: Tolerance::Absolute(5e-7) on arange(-6, 6, 0.001).
pub const APPROX_GELU_ABS: f64 = 5e-7;
/// Range on which rten's tests assert the Silu/Swish/Gelu/ApproxGelu constants.
pub const DERIVED_RANGE: f32 = 6.0;

impl Func {
    pub fn name(self) -> &'static str {
        match self {
            Func::Exp => "exp",
            Func::Sigmoid => "sigmoid",
            Func::Tanh => "tanh",
            Func::Erf => "erf",
            Func::Sin => "sin",
            Func::Cos => "cos",
            Func::Silu => "silu",
            Func::Swish => "swish",
            Func::Gelu => "gelu",
            Func::ApproxGelu => "approx_gelu",
            Func::Elu => "elu",
        }
    }
}

struct MapOn<'a, U: SimdUnaryOp<f32>> {
    op: &'a U,
    src: &'a [f32],
    dst: &'a mut [MaybeUninit<f32>],
}

impl<U: SimdUnaryOp<f32>> SimdOp for MapOn<'_, U> {
    type Output = ();

    #[inline(always)]
    fn eval<I: Isa>(self, isa: I) {
        // Same construction as rten_simd's private `SimdMapOp`, but for a
        // caller-chosen ISA.
        simd_map(
            isa.f32(),
            (self.src, self.dst),
            #[inline(always)]
            |x| self.op.eval(isa, x),
        );
    }
}

pub fn map_on<U: SimdUnaryOp<f32>>(kind: IsaKind, op: &U, src: &[f32], dst: &mut [MaybeUninit<f32>]) {
    run_on(kind, MapOn { op, src, dst })
}

struct MapMutOn<'a, U: SimdUnaryOp<f32>> {
    op: &'a U,
    buf: &'a mut [f32],
}

impl<U: SimdUnaryOp<f32>> SimdOp for MapMutOn<'_, U> {
    type Output = ();

    #[inline(always)]
    fn eval<I: Isa>(self, isa: I) {
        // `SimdUnaryOp::map_mut` for a caller-chosen ISA.
        simd_map(
            isa.f32(),
            self.buf,
            #[inline(always)]
            |x| self.op.eval(isa, x),
        );
    }
}

pub fn map_mut_on<U: SimdUnaryOp<f32>>(kind: IsaKind, op: &U, buf: &mut [f32]) {
    run_on(kind, MapMutOn { op, buf })
}

macro_rules! with_func {
    ($f:expr, |$op:ident| $body:expr) => {
        match $f {
            Func::Exp => {
                let $op = &Exp {};
                $body
            }
            Func::Sigmoid => {
                let $op = &Sigmoid {};
                $body
            }
            Func::Tanh => {
                let $op = &Tanh {};
                $body
            }
            Func::Erf => {
                let $op = &Erf {};
                $body
            }
            Func::Sin => {
                let $op = &Sin::new();
                $body
            }
            Func::Cos => {
                let $op = &Cos::new();
                $body
            }
            Func::Silu => {
                let $op = &Silu {};
                $body
            }
            Func::Swish => {
                let $op = &Swish { alpha: SWISH_ALPHA };
                $body
            }
            Func::Gelu => {
                let $op = &Gelu {};
                $body
            }
            Func::ApproxGelu => {
                let $op = &ApproxGelu {};
                $body
            }
            Func::Elu => {
                let $op = &Elu { alpha: ELU_ALPHA };
                $body
            }
        }
    };
}

/// Apply `f` to `src` on ISA `kind`, writing `dst` (same length).
pub fn eval_func_uninit(kind: IsaKind, f: Func, src: &[f32], dst: &mut [MaybeUninit<f32>]) {
    with_func!(f, |op| map_on(kind, op, src, dst))
}

/// Apply `f` in place on ISA `kind`.
pub fn eval_func_in_place(kind: IsaKind, f: Func, buf: &mut [f32]) {
    with_func!(f, |op| map_mut_on(kind, op, buf))
}

pub fn eval_func(kind: IsaKind, f: Func, src: &[f32], dst: &mut [f32]) {
    assert_eq!(src.len(), dst.len());
    // Safety: [f32] and [MaybeUninit<f32>] have the same layout; every element is written.
    let d = unsafe { std::slice::from_raw_parts_mut(dst.as_mut_ptr() as *mut MaybeUninit<f32>, dst.len()) };
    eval_func_uninit(kind, f, src, d)
}

/// Size of the unit in the last place as rten-vecmath's docs/tests measure it
/// (`|next_up(e) - e|`; Java `Math.ulp` special cases). NOTE: ulp.rs in the
/// source returns `f32::MIN` (-3.4e38) for zero, which makes its own
/// `diff_ulps` negative for an expected value of zero; the intended value (the
/// comment cites Java's `Math.ulp`, i.e. `Float.MIN_VALUE`) is the smallest
/// subnormal, used here.
pub fn ulp(e: f32) -> f32 {
    if e.is_nan() {
        e
    } else if e.is_infinite() {
        f32::INFINITY
    } else if e == 0.0 {
        f32::from_bits(1)
    } else if e.abs() == f32::MAX {
        f32::from_bits((127 + 104) << 23)
    } else {
        (f32::from_bits(e.to_bits() + 1) - e).abs()
    }
}

pub fn diff_ulps(actual: f32, expected: f32) -> f64 {
    (actual as f64 - expected as f64).abs() / ulp(expected) as f64
}

fn sigmoid_ref(x: f32) -> f32 {
    1. / (1. + (-x).exp())
}

/// What the oracle demands of `f(x)`.
#[derive(Clone, Copy, Debug)]
pub enum Demand {
    /// Within `max` ULPs of `expected` (the documented reference) -- or, so that an inaccuracy of
    /// the platform's libm reference is not blamed on rten, within `max` ULPs of `alt`, the
    /// function evaluated in f64 and rounded to f32.
    Ulps { expected: f32, alt: f32, max: f64 },
    /// Within `max` absolute difference of `expected` (or of `alt`, as above).
    Abs { expected: f32, alt: f32, max: f64 },
    /// Inside the closed interval (bounds are f32 values; NaN bound = NaN expected).
    Interval { lo: f32, hi: f32 },
    /// Only the class (NaN / +inf / -inf / finite) of `expected` is demanded.
    Class { expected: f32 },
}

/// The demands on `f(x)`: all of them must hold.
pub fn demands(f: Func, x: f32) -> ([Option<Demand>; 2], bool) {
    let in_derived = x.abs() <= DERIVED_RANGE;
    let d = match f {
        Func::Exp => [Some(Demand::Ulps { expected: x.exp(), alt: (x as f64).exp() as f32, max: EXP_ULPS }), None],
        Func::Sigmoid => [Some(Demand::Ulps { expected: sigmoid_ref(x), alt: (1. / (1. + (-(x as f64)).exp())) as f32, max: SIGMOID_ULPS }), None],
        Func::Tanh => [Some(Demand::Ulps { expected: x.tanh(), alt: (x as f64).tanh() as f32, max: TANH_ULPS }), None],
        Func::Erf => [Some(Demand::Abs { expected: libm::erff(x), alt: libm::erf(x as f64) as f32, max: ERF_ABS }), None],
        Func::Sin => [Some(Demand::Abs { expected: x.sin(), alt: (x as f64).sin() as f32, max: SIN_ABS }), None],
        Func::Cos => [Some(Demand::Abs { expected: x.cos(), alt: (x as f64).cos() as f32, max: COS_ABS }), None],
        Func::Silu => {
            // Documented formula x * sigmoid(x), implemented as x / (1 + Exp(-x));
            // Exp(-x) is within EXP_ULPS of (-x).exp().
            let (e_lo, e_hi) = ulp_band((-x).exp(), EXP_ULPS);
            let (a, b, c) = (x / (1. + e_lo), x / (1. + e_hi), x / (1. + (-x).exp()));
            let band = Demand::Interval { lo: fmin(fmin(a, b), c), hi: fmax(fmax(a, b), c) };
            let r = x * sigmoid_ref(x);
            let grid = in_derived.then(|| Demand::Ulps { expected: r, alt: r, max: SILU_ULPS });
            [Some(band), grid]
        }
        Func::Swish => {
            // x * Sigmoid(alpha * x); Sigmoid within SIGMOID_ULPS of its reference.
            let t = x * SWISH_ALPHA;
            let (s_lo, s_hi) = ulp_band(sigmoid_ref(t), SIGMOID_ULPS);
            // the centre is included so that an undefined reference (-inf * 0) demands NaN
            let (a, b, c) = (x * s_lo, x * s_hi, x * sigmoid_ref(t));
            let band = Demand::Interval { lo: fmin(fmin(a, b), c), hi: fmax(fmax(a, b), c) };
            let r = x * sigmoid_ref(SWISH_ALPHA * x);
            let grid = in_derived.then(|| Demand::Ulps { expected: r, alt: r, max: SILU_ULPS });
            [Some(band), grid]
        }
        Func::Gelu => {
            let r = 0.5 * x * (1. + libm::erff(x / (2.0f32).sqrt()));
            if in_derived {
                [Some(Demand::Abs { expected: r, alt: r, max: GELU_ABS }), None]
            } else {
                [Some(Demand::Class { expected: r }), None]
            }
        }
        Func::ApproxGelu => {
            let x_cubed = x * x * x;
            let approx_erf = ((2.0f32 / std::f32::consts::PI).sqrt() * (x + 0.044715 * x_cubed)).tanh();
            let r = 0.5 * x * (1. + approx_erf);
            if in_derived {
                [Some(Demand::Abs { expected: r, alt: r, max: APPROX_GELU_ABS }), None]
            } else {
                [Some(Demand::Class { expected: r }), None]
            }
        }
        Func::Elu => {
            // Documented: if x >= 0 { x } else { alpha * (exp(x) - 1) }.
            if x >= 0. {
                [Some(Demand::Interval { lo: x, hi: x }), None]
            } else {
                let (e_lo, e_hi) = ulp_band(x.exp(), EXP_ULPS);
                let (a, b, c) = (ELU_ALPHA * (e_lo - 1.), ELU_ALPHA * (e_hi - 1.), ELU_ALPHA * (x.exp() - 1.));
                [Some(Demand::Interval { lo: fmin(fmin(a, b), c), hi: fmax(fmax(a, b), c) }), None]
            }
        }
    };
    // Non-trivial: the reference result is finite and non-zero.
    let nt = match d[0] {
        Some(Demand::Ulps { expected, .. }) | Some(Demand::Abs { expected, .. }) | Some(Demand::Class { expected }) => {
            expected.is_finite() && expected != 0.
        }
        Some(Demand::Interval { lo, hi }) => lo.is_finite() && hi.is_finite() && (lo != 0. || hi != 0.),
        None => false,
    };
    (d, nt)
}

fn fmin(a: f32, b: f32) -> f32 {
    if a.is_nan() || b.is_nan() {
        f32::NAN
    } else if a < b || (a == b && a.is_sign_negative()) {
        a
    } else {
        b
    }
}

fn fmax(a: f32, b: f32) -> f32 {
    if a.is_nan() || b.is_nan() {
        f32::NAN
    } else if a > b || (a == b && a.is_sign_positive()) {
        a
    } else {
        b
    }
}

/// The f32 values within `n` ULPs (documented measure: |a-e| / ulp(e) <= n) of `e`.
fn ulp_band(e: f32, n: f64) -> (f32, f32) {
    if e.is_nan() || e.is_infinite() {
        return (e, e);
    }
    let u = ulp(e) as f64 * n;
    let lo = (e as f64 - u) as f32;
    let hi = (e as f64 + u) as f32; // may become +inf at the top of the range
    (lo, hi)
}

/// Judge one demand. Returns `Some((kind, detail))` on violation.
pub fn judge(d: &Demand, actual: f32) -> Option<(&'static str, String)> {
    match *d {
        Demand::Ulps { expected, alt, max } => {
            if let Some(v) = special(actual, expected, true) {
                return v;
            }
            let du = diff_ulps(actual, expected);
            if du <= max || (alt.is_finite() && diff_ulps(actual, alt) <= max) {
                None
            } else {
                Some(("ulp", format!("expected {expected:e} ({:#010x}), got {actual:e} ({:#010x}): {du:.3} ULPs > {max}", expected.to_bits(), actual.to_bits())))
            }
        }
        Demand::Abs { expected, alt, max } => {
            if let Some(v) = special(actual, expected, true) {
                return v;
            }
            let diff = (actual as f64 - expected as f64).abs();
            if diff <= max || (alt.is_finite() && (actual as f64 - alt as f64).abs() <= max) {
                None
            } else {
                Some(("abs", format!("expected {expected:e}, got {actual:e}: |diff| {diff:e} > {max:e}")))
            }
        }
        Demand::Class { expected } => special(actual, expected, false).flatten(),
        Demand::Interval { lo, hi } => {
            if lo.is_nan() || hi.is_nan() {
                return if actual.is_nan() {
                    None
                } else {
                    Some(("nan-mismatch", format!("expected NaN, got {actual:e}")))
                };
            }
            if actual.is_nan() {
                return Some(("nan-mismatch", format!("expected [{lo:e}, {hi:e}], got NaN")));
            }
            if actual < lo || actual > hi {
                return Some(("band", format!("expected within [{lo:e}, {hi:e}] (documented formula with the documented error of its component), got {actual:e}")));
            }
            if actual == 0. && lo == 0. && hi == 0. && lo.is_sign_negative() == hi.is_sign_negative() && actual.is_sign_negative() != lo.is_sign_negative() {
                return Some(("signed-zero", format!("expected {lo:?}, got {actual:?}")));
            }
            None
        }
    }
}

/// Special-value mapping ("NaN, infinities, signed zeros map as the reference
/// does"). `Some(None)` = decided OK, `Some(Some(..))` = violation, `None` =
/// not decided (compare numerically).
#[allow(clippy::option_option)]
fn special(actual: f32, expected: f32, zeros: bool) -> Option<Option<(&'static str, String)>> {
    if actual.to_bits() == expected.to_bits() {
        return Some(None);
    }
    if expected.is_nan() || actual.is_nan() {
        return Some(if expected.is_nan() && actual.is_nan() {
            None
        } else {
            Some(("nan-mismatch", format!("expected {expected:e}, got {actual:e}")))
        });
    }
    if expected.is_infinite() || actual.is_infinite() {
        return Some(if expected == actual {
            None
        } else {
            Some(("inf-mismatch", format!("expected {expected:e}, got {actual:e}")))
        });
    }
    if zeros && expected == 0. && actual == 0. {
        // both zero, bit patterns differ: signs differ
        return Some(Some(("signed-zero", format!("expected {expected:?}, got {actual:?}"))));
    }
    if !zeros {
        return Some(None);
    }
    None
}

/// Check `actual = f(x)` computed on `isa`. Ok(nontrivial) or Err((signature, detail)).
pub fn check_point(f: Func, isa: IsaKind, x: f32, actual: f32) -> Result<bool, (String, String)> {
    let (ds, nt) = demands(f, x);
    for d in ds.iter().flatten() {
        if let Some((kind, detail)) = judge(d, actual) {
            return Err((
                format!("{}:{}@{}", f.name(), kind, isa.name()),
                format!("{}({x:e} = {:#010x}) on {}: {detail}", f.name(), x.to_bits(), isa.name()),
            ));
        }
    }
    Ok(nt)
}

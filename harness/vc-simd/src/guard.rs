//! Guard-page backed buffers: a run of read/write pages with a `PROT_NONE`
//! page directly before and directly after it. A slice placed flush against
//! one of the guard pages turns any access one element past that end of the
//! slice into a SIGSEGV, which the engine's crash attribution reports as a
//! violation with the running case as the replay.

use std::cell::RefCell;

pub const CANARY: u8 = 0xA5;

#[derive(Clone, Copy, Debug, PartialEq, Eq, serde::Serialize, serde::Deserialize)]
pub enum Place {
    /// Last element of the slice is the last element before the trailing guard page.
    End,
    /// First element of the slice is the first element after the leading guard page.
    Start,
}

pub struct Region {
    base: *mut u8,
    total: usize,
    data: *mut u8,
    data_len: usize,
}

fn page_size() -> usize {
    // Safety: sysconf is always safe to call.
    let n = unsafe { libc::sysconf(libc::_SC_PAGESIZE) };
    if n <= 0 {
        4096
    } else {
        n as usize
    }
}

impl Region {
    pub fn new(data_pages: usize) -> Region {
        let ps = page_size();
        let total = ps * (data_pages + 2);
        // Safety: anonymous private mapping; result checked.
        unsafe {
            let base = libc::mmap(
                std::ptr::null_mut(),
                total,
                libc::PROT_READ | libc::PROT_WRITE,
                libc::MAP_PRIVATE | libc::MAP_ANONYMOUS,
                -1,
                0,
            );
            assert!(base != libc::MAP_FAILED, "mmap failed");
            let base = base as *mut u8;
            assert_eq!(libc::mprotect(base as *mut _, ps, libc::PROT_NONE), 0);
            assert_eq!(
                libc::mprotect(base.add(total - ps) as *mut _, ps, libc::PROT_NONE),
                0
            );
            Region {
                base,
                total,
                data: base.add(ps),
                data_len: total - 2 * ps,
            }
        }
    }

    pub fn data_len(&self) -> usize {
        self.data_len
    }

    /// Fill the whole data area with the canary byte.
    pub fn reset(&self) {
        // Safety: data area is mapped read/write.
        unsafe { std::ptr::write_bytes(self.data, CANARY, self.data_len) }
    }

    /// Pointer to room for `len` elements of `T`, flush against a guard page.
    pub fn place<T>(&self, len: usize, place: Place) -> *mut T {
        let bytes = len * std::mem::size_of::<T>();
        assert!(bytes <= self.data_len, "guard region too small");
        match place {
            // Safety: in-bounds pointer arithmetic within the mapping.
            Place::End => unsafe { self.data.add(self.data_len - bytes) as *mut T },
            Place::Start => self.data as *mut T,
        }
    }

    /// First address of the data area.
    pub fn data_start(&self) -> *mut u8 {
        self.data
    }

    /// One past the last address of the data area (= start of trailing guard).
    pub fn data_end(&self) -> *mut u8 {
        // Safety: one-past-the-end of the data area, inside the mapping.
        unsafe { self.data.add(self.data_len) }
    }

    /// True if every byte of the data area outside `[ptr, ptr+bytes)` still
    /// holds the canary.
    pub fn canary_intact(&self, ptr: *const u8, bytes: usize) -> bool {
        let lo = ptr as usize - self.data as usize;
        let hi = lo + bytes;
        // Safety: data area is mapped read/write.
        let all = unsafe { std::slice::from_raw_parts(self.data, self.data_len) };
        all[..lo].iter().all(|&b| b == CANARY) && all[hi..].iter().all(|&b| b == CANARY)
    }
}

impl Drop for Region {
    fn drop(&mut self) {
        // Safety: unmapping the mapping created in `new`.
        unsafe {
            libc::munmap(self.base as *mut _, self.total);
        }
    }
}

thread_local! {
    static POOL: RefCell<Option<[Region; 4]>> = const { RefCell::new(None) };
}

/// Run `f` with this thread's four guard regions (each one data page), all
/// reset to the canary pattern.
pub fn with_regions<R>(f: impl FnOnce(&[Region; 4]) -> R) -> R {
    POOL.with(|p| {
        let mut p = p.borrow_mut();
        let regs = p.get_or_insert_with(|| {
            [Region::new(1), Region::new(1), Region::new(1), Region::new(1)]
        });
        for r in regs.iter() {
            r.reset();
        }
        f(regs)
    })
}

/// Self-test used by the checks at start-up: the guard pages must really be
/// inaccessible. Checked through the protection flags in /proc/self/maps
/// (touching them would kill the process).
pub fn guards_effective() -> bool {
    let r = Region::new(1);
    let Ok(maps) = std::fs::read_to_string("/proc/self/maps") else {
        return false;
    };
    let lead = r.base as usize;
    let trail = r.data_end() as usize;
    let mut lead_ok = false;
    let mut trail_ok = false;
    for line in maps.lines() {
        let mut it = line.split_whitespace();
        let (Some(range), Some(perms)) = (it.next(), it.next()) else { continue };
        let Some((a, b)) = range.split_once('-') else { continue };
        let (Ok(a), Ok(b)) = (usize::from_str_radix(a, 16), usize::from_str_radix(b, 16)) else {
            continue;
        };
        if a <= lead && lead < b && perms.starts_with("---") {
            lead_ok = true;
        }
        if a <= trail && trail < b && perms.starts_with("---") {
            trail_ok = true;
        }
    }
    lead_ok && trail_ok
}

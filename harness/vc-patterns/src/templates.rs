//! Template dispatch. One template per fusion in /repo/src/optimize/fusions.rs.

use crate::{Vid, G};

mod act;
mod attn;
mod matmul;
mod norm;
mod simple;

pub const NAMES: &[&str] = &[
    "Identity",
    "CastElimination",
    "ShapeSliceToConstant",
    "ComputeShape",
    "Reciprocal",
    "ReduceMeanAxes",
    "Silu",
    "Swish",
    "Gelu",
    "ApproxGelu",
    "LayerNormalization",
    "RMSNormalization",
    "MatMulAdd",
    "MatMulScale",
    "MatMulIntegerToFloat",
    "ConvAdd",
    "ConvIntegerToFloat",
    "SafeSoftmax",
    "AddSoftmax",
    "RepeatInterleave",
    "GroupedQueryAttentionMatMul",
    "Transpose",
];

pub const N_TEMPLATES: usize = 22;

pub fn template_name(i: usize) -> &'static str {
    NAMES[i]
}

/// A selector byte that `pick` maps onto template `i`.
pub fn selector_for(i: usize) -> u8 {
    for s in 0..=255u8 {
        if crate::pick(s, N_TEMPLATES) == i {
            return s;
        }
    }
    0
}

pub(crate) fn emit(g: &mut G, t: usize) -> Vid {
    match t {
        0 => simple::identity(g),
        1 => simple::cast_elim(g),
        2 => simple::shape_slice(g),
        3 => simple::compute_shape(g),
        4 => simple::reciprocal(g),
        5 => simple::reduce_mean_axes(g),
        6 => act::silu(g),
        7 => act::swish(g),
        8 => act::gelu(g),
        9 => act::approx_gelu(g),
        10 => norm::layer_norm(g),
        11 => norm::rms_norm(g),
        12 => matmul::matmul_add(g),
        13 => matmul::matmul_scale(g),
        14 => matmul::matmul_integer(g),
        15 => matmul::conv_add(g),
        16 => matmul::conv_integer(g),
        17 => attn::safe_softmax(g),
        18 => attn::add_softmax(g),
        19 => attn::repeat_interleave(g),
        20 => attn::gqa(g),
        _ => attn::transpose(g),
    }
}

//! Normalisation fusions: LayerNormalization and RMSNormalization.

use crate::{Vid, G};
use vc_onnxgen::model::*;

/// Shape of a scale/bias operand relative to x (rank r >= 1, last dim D):
/// 0 [D] (canonical), 1 [], 2 [1], 3 [1,D], 4 full, 5 [N,1] (per row), 6 [1,..,1,D] with r+1 dims.
fn affine_shape(xs: &[usize], variant: usize) -> Vec<usize> {
    let r = xs.len();
    let d = xs[r - 1];
    match variant {
        0 => vec![d],
        1 => vec![],
        2 => vec![1],
        3 => {
            if r >= 2 {
                vec![1, d]
            } else {
                vec![d]
            }
        }
        4 => xs.to_vec(),
        5 => {
            if r >= 2 {
                vec![xs[r - 2], 1]
            } else {
                vec![d]
            }
        }
        _ => {
            let mut s = vec![1; r];
            s.push(d);
            s
        }
    }
}

/// Scale values: never exactly 1 (a single-element `* 1` would be removed by IdentityFusion first).
fn scale_const(g: &mut G, shape: &[usize]) -> Vid {
    let seed = g.seed ^ 0x5CA1;
    g.cf(shape, |i| [0.5f32, 0.75, 1.25, 1.5][(crate::hash32(seed, i) % 4) as usize])
}

/// Bias values: never exactly 0 (a single-element `+ 0` would be removed by IdentityFusion first).
fn bias_const(g: &mut G, shape: &[usize]) -> Vid {
    let seed = g.seed ^ 0xB1A5;
    g.cf(shape, |i| [-0.5f32, -0.25, 0.25, 0.5][(crate::hash32(seed, i) % 4) as usize])
}

struct Axes {
    axes: Vec<i64>,
    as_input: bool,
}

/// Reduction axes: variant 0 = last axis (spelled -1 or r-1, attribute or input: free),
/// 1 = first axis (non-last when r >= 2), 2 = [r-2, r-1], 3 = [-2, -1], 4 = [0, -1] (multi-entry lists that END
/// in the last axis: the fusions' "applied to last axis" guard must not look at the last entry only).
fn norm_axes(g: &G, r: usize, variant: usize, salt: u32) -> Axes {
    let r = r as i64;
    let neg = g.free(salt, 2) == 0;
    let axes = match variant {
        1 if r >= 2 => vec![if neg { -r } else { 0 }],
        2 if r >= 2 => vec![r - 2, r - 1],
        3 if r >= 2 => vec![-2, -1],
        4 if r >= 3 => vec![0, -1],
        4 if r >= 2 => vec![-2, -1],
        _ => vec![if neg { -1 } else { r - 1 }],
    };
    Axes { axes, as_input: g.free(salt + 1, 2) == 0 }
}

/// Input shape for the norm templates: rank 1-4, but rank >= 3 when a multi-axis variant is selected.
fn norm_shape(g: &G, axis_variant: usize) -> Vec<usize> {
    if axis_variant >= 2 {
        g.base_shape(3, 4)
    } else {
        g.base_shape(1, 4)
    }
}

fn epsilon(g: &mut G, x: Vid, variant: usize) -> Vid {
    let v = [1e-5f32, 1e-3, 0.1][g.free(40, 3)];
    let cs = G::const_shape_variant(&g.shape(x), variant);
    g.cfv(&cs, v)
}

/// `Pow(v, 2)` and its perturbations: 1 exponent 3, 2 exponent of shape [1;r], 3 spelled v*v.
/// (No rank-raising exponent: rten's Pow operator itself ignores the rank of a single-element
/// exponent, which is an operator defect outside the optimiser and would blur the differential.)
fn square(g: &mut G, v: Vid, variant: usize) -> Vid {
    match variant {
        3 => g.bin("Mul", v, v),
        k => {
            let e = if k == 1 { 3.0 } else { 2.0 };
            let cs = if k == 2 { vec![1; g.rank(v)] } else { vec![] };
            let c = g.cfv(&cs, e);
            g.bin("Pow", v, c)
        }
    }
}

/// With keepdims=0 the mean only broadcasts back against x when the dims agree: make them all equal.
fn square_up(shape: &mut [usize]) {
    let d = shape[shape.len() - 1];
    shape.fill(d);
}

/// LayerNormalizationFusion:
/// `c = x - ReduceMean(x); y = c / Sqrt(eps + ReduceMean(Pow(c, 2))) * scale (+ bias)`.
///
/// knobs: 0 reduction axes (last / first / [r-2,r-1] / [-2,-1] / [0,-1] for both means / [-2,-1] for the centring
/// mean only / [-2,-1] for the variance mean only; multi-axis variants use rank >= 3 inputs), 1 keepdims=0, 2 epsilon shape ([] / [1] / [1;r] / [1;r+1]),
/// 3 scale shape ([D] / [] / [1] / [1,D] / full / [N,1] / rank+1), 4 bias (as scale, 1 = absent),
/// 5 Pow spelling (2 / 3 / exponent [1;r] / c*c), 6 the variance branch recomputes the centred value with the
/// mean over another axis, 7 division spelled c * Reciprocal(d), 8 scale is a graph input, 9 `mean - x`.
/// Free: epsilon value (1e-5 / 1e-3 / 0.1) and position, axes as attribute or input, -1 vs r-1, operand orders.
pub fn layer_norm(g: &mut G) -> Vid {
    g.knobs(&["axis", "keepdims0", "epsshape", "scaleshape", "bias", "pow", "dupcentre", "recipdiv", "scaleinput", "negcentre"]);
    let av = g.kc(0, 7);
    let mut shape = norm_shape(g, av);
    let keep = g.kc(1, 2) == 0;
    if !keep {
        square_up(&mut shape);
    }
    let r = shape.len();
    let x = g.ctx_input(&shape);
    // (centring mean axes, variance mean axes)
    let last = norm_axes(g, r, 0, 1);
    let (ax, var_ax) = match av {
        5 => (norm_axes(g, r, 3, 1), last),
        6 => (last, norm_axes(g, r, 3, 1)),
        v => (norm_axes(g, r, v, 1), norm_axes(g, r, v, 1)),
    };
    let centre = |g: &mut G, axes: &Axes| -> Vid {
        let m = g.reduce_mean(x, &axes.axes, keep, axes.as_input, DType::I64, vec![]);
        g.inters.push(m);
        let c = if g.kc(9, 2) == 1 { g.bin("Sub", m, x) } else { g.bin("Sub", x, m) };
        g.inters.push(c);
        c
    };
    let c = centre(g, &ax);
    let c2 = if g.kc(6, 2) == 1 && r >= 2 {
        // a second, structurally identical centring subgraph over a different axis
        let other = Axes { axes: vec![if ax.axes == vec![0] || ax.axes == vec![-(r as i64)] { -1 } else { 0 }], as_input: ax.as_input };
        if keep || shape[0] == shape[r - 1] {
            centre(g, &other)
        } else {
            c
        }
    } else {
        c
    };
    let sq = square(g, c2, g.kc(5, 4));
    g.inters.push(sq);
    let var = g.reduce_mean(sq, &var_ax.axes, keep, var_ax.as_input, DType::I64, vec![]);
    g.inters.push(var);
    let eps = epsilon(g, x, g.kc(2, 4));
    let ve = g.bin_comm("Add", eps, var, 3);
    g.inters.push(ve);
    let den = g.un("Sqrt", ve);
    g.inters.push(den);
    let n = if g.kc(7, 2) == 1 {
        let rc = g.un("Reciprocal", den);
        g.bin("Mul", c, rc)
    } else {
        g.bin("Div", c, den)
    };
    g.inters.push(n);
    let scale = if g.kc(8, 2) == 1 {
        g.input(DType::F32, &[shape[r - 1]])
    } else {
        let ss = affine_shape(&shape, g.kc(3, 7));
        scale_const(g, &ss)
    };
    let y = g.bin_comm("Mul", n, scale, 4);
    match g.kc(4, 7) {
        1 => y,
        k => {
            g.inters.push(y);
            let bs = affine_shape(&shape, k);
            let bias = bias_const(g, &bs);
            g.bin_comm("Add", y, bias, 5)
        }
    }
}

/// RMSNormalizationFusion: `x * Reciprocal(Sqrt(eps + ReduceMean(Pow(x, 2)))) * scale`.
///
/// knobs: 0 reduction axes (last / first / [r-2,r-1] / [-2,-1] / [0,-1]; multi-axis variants use rank >= 3 inputs),
/// 1 keepdims=0, 2 epsilon shape, 3 scale shape, 4 Pow spelling,
/// 5 `x / Sqrt(..)` instead of `x * Reciprocal(..)`, 6 scale is a graph input, 7 Pow of a different value.
/// Free: Reciprocal op vs `1 / s`, bracketing of the product, epsilon value / position, axes spelling.
pub fn rms_norm(g: &mut G) -> Vid {
    g.knobs(&["axis", "keepdims0", "epsshape", "scaleshape", "pow", "divsqrt", "scaleinput", "otherpow"]);
    let av = g.kc(0, 5);
    let mut shape = norm_shape(g, av);
    let keep = g.kc(1, 2) == 0;
    if !keep {
        square_up(&mut shape);
    }
    let r = shape.len();
    let x = g.ctx_input(&shape);
    let ax = norm_axes(g, r, av, 1);
    let px = if g.kc(7, 2) == 1 { g.un("Neg", x) } else { x };
    let sq = square(g, px, g.kc(4, 4));
    g.inters.push(sq);
    let ms = g.reduce_mean(sq, &ax.axes, keep, ax.as_input, DType::I64, vec![]);
    g.inters.push(ms);
    // keep the radicand away from 0 when epsilon is tiny and x == 0: values are multiples of 0.25, eps > 0
    let eps = epsilon(g, x, g.kc(2, 4));
    let ve = g.bin_comm("Add", eps, ms, 3);
    g.inters.push(ve);
    let rt = g.un("Sqrt", ve);
    g.inters.push(rt);
    let scale = if g.kc(6, 2) == 1 {
        g.input(DType::F32, &[shape[r - 1]])
    } else {
        let ss = affine_shape(&shape, g.kc(3, 7));
        scale_const(g, &ss)
    };
    if g.kc(5, 2) == 1 {
        let n = g.bin("Div", x, rt);
        g.inters.push(n);
        return g.bin_comm("Mul", n, scale, 4);
    }
    let rc = if g.free(6, 2) == 0 {
        g.un("Reciprocal", rt)
    } else {
        let one = g.cfv(&[], 1.0);
        g.bin("Div", one, rt)
    };
    g.inters.push(rc);
    match g.free(7, 3) {
        0 => {
            let n = g.bin_comm("Mul", x, rc, 8);
            g.inters.push(n);
            g.bin_comm("Mul", n, scale, 9)
        }
        1 => {
            let rs = g.bin_comm("Mul", rc, scale, 8);
            g.inters.push(rs);
            g.bin_comm("Mul", x, rs, 9)
        }
        _ => {
            let xs = g.bin_comm("Mul", x, scale, 8);
            g.inters.push(xs);
            g.bin_comm("Mul", xs, rc, 9)
        }
    }
}

//! Early / canonicalising fusions: IdentityFusion, CastElimination,
//! ShapeSliceToConstant, ComputeShapeFusion, ReciprocalFusion, ReduceMeanAxesFusion.

use crate::{Vid, G};
use vc_onnxgen::model::*;

/// IdentityFusion: `Identity(x)`, `x+0`, `x-0`, `x*1`, `x/1`.
///
/// knobs: 0 constant value (canonical / off by 0.25 / -0.0 resp. 1.0), 1 constant shape
/// ([] / [1] / [1;r] / [1;r+1] / full), 2 commuted operands (`0-x`, `1/x` must not fuse),
/// 3 int32 data, 4 two identities in a row.
pub fn identity(g: &mut G) -> Vid {
    g.knobs(&["val", "cshape", "swap", "int32", "twice"]);
    let shape = g.base_shape(0, 4);
    let int = g.kc(3, 2) == 1;
    let mut x = if int { g.input(DType::I32, &shape) } else { g.ctx_input(&shape) };
    let rounds = 1 + g.kc(4, 2);
    for round in 0..rounds {
        let mut op = ["Add", "Sub", "Mul", "Div", "Identity"][g.free(round as u32, 5)];
        let swap = g.kc(2, 2) == 1;
        if op == "Div" && (int || swap) {
            op = "Sub";
        }
        if op == "Identity" {
            x = g.un("Identity", x);
            g.inters.push(x);
            continue;
        }
        let unit = if op == "Mul" || op == "Div" { 1.0f32 } else { 0.0 };
        let val = match g.kc(0, 3) {
            0 => unit,
            1 => unit + 0.25,
            _ => {
                if unit == 0.0 {
                    -0.0
                } else {
                    1.0
                }
            }
        };
        let cs = G::const_shape_variant(&g.shape(x), g.kc(1, 5));
        let c = if int { g.ci(DType::I32, &cs, vec![val as i64; cs.iter().product()]) } else { g.cfv(&cs, val) };
        x = if swap { g.bin(op, c, x) } else { g.bin(op, x, c) };
        g.inters.push(x);
    }
    g.inters.pop();
    x
}

/// CastElimination: `Cast(x, to = dtype(x))`.
///
/// knobs: 0 input dtype (f32 / i32 / i64 / bool), 1 first cast target (same / others),
/// 2 second cast (none / back to the input dtype / same target again).
pub fn cast_elim(g: &mut G) -> Vid {
    g.knobs(&["indtype", "to", "second"]);
    let shape = g.base_shape(0, 4);
    let types = [DType::F32, DType::I32, DType::I64, DType::Bool];
    let in_dt = types[g.kc(0, 4)];
    let x = if in_dt == DType::F32 { g.ctx_input(&shape) } else { g.input(in_dt, &shape) };
    let others: Vec<DType> = types.iter().copied().filter(|t| *t != in_dt).collect();
    let first = match g.kc(1, 4) {
        0 => in_dt,
        i => others[i - 1],
    };
    let mut y = g.cast(x, first);
    g.inters.push(y);
    match g.kc(2, 3) {
        0 => {}
        1 => {
            y = g.cast(y, in_dt);
        }
        _ => {
            y = g.cast(y, first);
        }
    }
    if g.inters.last() == Some(&y) {
        g.inters.pop();
    }
    y
}

fn clamp(v: i64, lo: i64, hi: i64) -> i64 {
    v.max(lo).min(hi)
}

/// ONNX Slice output length along one axis of size `l`.
pub(crate) fn slice_len(l: i64, start: i64, end: i64, step: i64) -> usize {
    let norm = |v: i64| if v < 0 { v.saturating_add(l) } else { v };
    if step > 0 {
        let s = clamp(norm(start), 0, l);
        let e = clamp(norm(end), 0, l);
        (((e - s).max(0) + step - 1) / step) as usize
    } else {
        let s = clamp(norm(start), -1, l - 1);
        let e = clamp(norm(end), -1, l - 1);
        (((s - e).max(0) + (-step) - 1) / (-step)) as usize
    }
}

/// ShapeSliceToConstant: `Slice(Shape(x), starts, ends)`.
///
/// knobs: 0 start (0 / 1 / -1 / -2 / r / -(r+1) / r+2), 1 end (r / i64::MAX / -1 / 1 / 0 / i32::MAX / =start),
/// 2 extra Slice inputs (none / axes / axes+steps 1 / steps 2 / steps -1), 3 Shape start/end attributes,
/// 4 int32 starts/ends. Free choice: Shape of the graph input itself or of the context value.
pub fn shape_slice(g: &mut G) -> Vid {
    g.knobs(&["start", "end", "extra", "shapeattr", "int32idx"]);
    let shape = g.base_shape(1, 4);
    let r = shape.len() as i64;
    let raw = g.input(DType::F32, &shape);
    let x = if g.free(1, 2) == 0 { raw } else { g.un("Neg", raw) };
    // Shape (optionally with start/end attributes)
    let (attrs, l): (Vec<(&str, Attr)>, i64) = match g.kc(3, 4) {
        0 => (vec![], r),
        1 => (vec![("start", Attr::Int(1))], (r - 1).max(0)),
        2 => (vec![("end", Attr::Int(-1))], (r - 1).max(0)),
        _ => (vec![("start", Attr::Int(1)), ("end", Attr::Int(r))], (r - 1).max(0)),
    };
    let sh = g.op1("Shape", &[x], attrs, DType::I64, vec![l as usize]);
    g.inters.push(sh);
    let start = match g.kc(0, 7) {
        0 => 0,
        1 => 1,
        2 => -1,
        3 => -2,
        4 => r,
        5 => -(r + 1),
        _ => r + 2,
    };
    let end = match g.kc(1, 7) {
        0 => r,
        1 => i64::MAX,
        2 => -1,
        3 => 1,
        4 => 0,
        5 => i32::MAX as i64,
        _ => start,
    };
    let idt = if g.kc(4, 2) == 1 { DType::I32 } else { DType::I64 };
    let end_enc = if idt == DType::I32 { end.min(i32::MAX as i64) } else { end };
    let st = g.ci(idt, &[1], vec![start]);
    let en = g.ci(idt, &[1], vec![end_enc]);
    let mut ins = vec![sh, st, en];
    let mut step = 1;
    match g.kc(2, 5) {
        0 => {}
        1 => ins.push(g.ci(idt, &[1], vec![0])),
        k => {
            ins.push(g.ci(idt, &[1], vec![0]));
            step = [1, 2, -1][k - 2];
            ins.push(g.ci(idt, &[1], vec![step]));
        }
    }
    let n = slice_len(l, start, end, step);
    let out = g.op1("Slice", &ins, vec![], DType::I64, vec![n]);
    // keep the data path alive as a second output
    let y = g.un("Relu", x);
    g.extra_outs.push(y);
    out
}

/// ComputeShapeFusion: `Shape(t)` where the shape of `t` is known (symbolically) from graph inputs;
/// embedded in the Silu example from the fusion's documentation.
///
/// knobs: 0 Shape attributes (none / start=1 / end=-1), 1 Shape source (sigmoid output / x / graph input / product),
/// 2 how the shape is consumed (graph output / Reshape target / Gather element / ConstantOfShape).
pub fn compute_shape(g: &mut G) -> Vid {
    g.knobs(&["shapeattr", "src", "use"]);
    let shape = g.base_shape(1, 4);
    let r = shape.len();
    let raw = g.input(DType::F32, &shape);
    let x = if g.c.pre.is_empty() { raw } else { g.un("Neg", raw) };
    let t = g.un("Sigmoid", x);
    g.inters.push(t);
    let y = g.bin("Mul", x, t);
    let src = [t, x, raw, y][g.kc(1, 4)];
    let (attrs, l): (Vec<(&str, Attr)>, usize) = match g.kc(0, 3) {
        0 => (vec![], r),
        1 => (vec![("start", Attr::Int(1))], r - 1),
        _ => (vec![("end", Attr::Int(-1))], r - 1),
    };
    let full = l == r;
    let s = g.op1("Shape", &[src], attrs, DType::I64, vec![l]);
    match g.kc(2, 4) {
        1 if full && !shape.contains(&0) => {
            let dt = g.dtype(y);
            let z = g.op1("Reshape", &[y, s], vec![], dt, shape.clone());
            g.extra_outs.push(y);
            z
        }
        2 if l > 0 => {
            let idx = g.ci(DType::I64, &[], vec![(g.free(3, l)) as i64]);
            let e = g.op1("Gather", &[s, idx], vec![("axis", Attr::Int(0))], DType::I64, vec![]);
            g.extra_outs.push(e);
            y
        }
        3 if full => {
            let val = TensorLit::f32(&[1], vec![0.5]);
            let z = g.op1("ConstantOfShape", &[s], vec![("value", Attr::Tensor(val))], DType::F32, shape.clone());
            g.bin("Add", y, z)
        }
        _ => {
            g.extra_outs.push(s);
            y
        }
    }
}

/// ReciprocalFusion: `1 / x`.
///
/// knobs: 0 numerator (1 / 2 / 1.01 / 0.5), 1 numerator shape ([] / [1] / [1;r] / [1;r+1] / full),
/// 2 commuted (`x / 1`), 3 int32 data.
pub fn reciprocal(g: &mut G) -> Vid {
    g.knobs(&["num", "cshape", "swap", "int32"]);
    let shape = g.base_shape(0, 4);
    if g.kc(3, 2) == 1 {
        let raw = g.input(DType::I32, &shape);
        let a = g.un("Abs", raw);
        let one = g.ci(DType::I32, &[], vec![1]);
        let x = g.bin("Add", a, one);
        let num = g.ci(DType::I32, &[], vec![7]);
        return g.bin("Div", num, x);
    }
    let x0 = g.ctx_input(&shape);
    let a = g.un("Abs", x0);
    let x = g.bin_c("Add", a, &[], 0.5, false);
    let val = [1.0f32, 2.0, 1.01, 0.5][g.kc(0, 4)];
    let cs = G::const_shape_variant(&shape, g.kc(1, 5));
    let c = g.cfv(&cs, val);
    if g.kc(2, 2) == 1 {
        g.bin("Div", x, c)
    } else {
        g.bin("Div", c, x)
    }
}

/// ReduceMeanAxesFusion: `ReduceMean(x, axes)` with constant `axes` input.
///
/// knobs: 0 axes ([-1] / [r-1] / [0] / [0,r-1] / [] / all / [-2,-1]), 1 keepdims=0, 2 noop_with_empty_axes=1,
/// 3 axes as attribute, 4 int32 axes.
pub fn reduce_mean_axes(g: &mut G) -> Vid {
    g.knobs(&["axes", "keepdims0", "noop", "axesattr", "int32axes"]);
    let shape = g.base_shape(1, 4);
    let r = shape.len() as i64;
    let x = g.ctx_input(&shape);
    let axes: Vec<i64> = match g.kc(0, 7) {
        0 => vec![-1],
        1 => vec![r - 1],
        2 => vec![0],
        3 => {
            if r >= 2 {
                vec![0, r - 1]
            } else {
                vec![0]
            }
        }
        4 => vec![],
        5 => (0..r).collect(),
        _ => {
            if r >= 2 {
                vec![-2, -1]
            } else {
                vec![-1]
            }
        }
    };
    let keep = g.kc(1, 2) == 0;
    let noop = g.kc(2, 2) == 1;
    let as_input = g.kc(3, 2) == 0;
    let adt = if g.kc(4, 2) == 1 { DType::I32 } else { DType::I64 };
    let extra = if noop { vec![("noop_with_empty_axes", Attr::Int(1))] } else { vec![] };
    if axes.is_empty() {
        // noop → identity; otherwise reduce over every axis
        let out_shape: Vec<usize> = if noop {
            shape.clone()
        } else if keep {
            vec![1; shape.len()]
        } else {
            vec![]
        };
        let mut attrs = vec![("keepdims", Attr::Int(keep as i64))];
        attrs.extend(extra);
        if as_input {
            let ax = g.ci(adt, &[0], vec![]);
            g.op1("ReduceMean", &[x, ax], attrs, DType::F32, out_shape)
        } else {
            g.op1("ReduceMean", &[x], attrs, DType::F32, out_shape)
        }
    } else {
        g.reduce_mean(x, &axes, keep, as_input, adt, extra)
    }
}

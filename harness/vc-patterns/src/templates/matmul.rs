//! MatMul and convolution fusions: MatMulAdd, MatMulScale, MatMulIntegerToFloat,
//! ConvAdd, ConvIntegerToFloat.

use crate::{hash32, Vid, G};
use vc_onnxgen::model::*;

/// MatMul operands. variant: 0 [m,k]x[k,n], 1 [B,m,k]x[k,n], 2 [B,m,k]x[B,k,n], 3 [k]x[k,n], 4 [m,k]x[k].
/// The RHS is a constant or a second graph input (free), except in variant 2 (input).
fn mm_operands(g: &mut G, variant: usize, rhs_must_be_value: bool) -> (Vid, Vid) {
    let (m, k, n, b) = (g.size(0), g.size(1), g.size(2), g.size_nz(3));
    let (sa, sb): (Vec<usize>, Vec<usize>) = match variant {
        1 => (vec![b, m, k], vec![k, n]),
        2 => (vec![b, m, k], vec![b, k, n]),
        3 => (vec![k], vec![k, n]),
        4 => (vec![m, k], vec![k]),
        _ => (vec![m, k], vec![k, n]),
    };
    let a = g.ctx_input(&sa);
    let rhs_input = variant == 2 || rhs_must_be_value || g.free(30, 3) == 0;
    let bv = if rhs_input {
        g.input(DType::F32, &sb)
    } else {
        let seed = g.seed ^ 0xBB;
        g.cf(&sb, |i| ((hash32(seed, i) % 9) as f32 - 4.0) * 0.25)
    };
    (a, bv)
}

/// MatMulAddFusion: `Add(MatMul(a, b), bias)` with a constant vector bias.
///
/// knobs: 0 operand ranks (2-D / batched lhs / batched both / vector lhs / vector rhs),
/// 1 bias shape ([n] / [1] / [] / [1,n] / full), 2 bias is a graph input.
pub fn matmul_add(g: &mut G) -> Vid {
    g.knobs(&["ranks", "biasshape", "biasinput"]);
    let (a, b) = mm_operands(g, g.kc(0, 5), false);
    let mm = g.matmul(a, b);
    g.inters.push(mm);
    let os = g.shape(mm);
    let n = *os.last().unwrap_or(&1);
    let bs: Vec<usize> = match g.kc(1, 5) {
        0 => vec![n],
        1 => vec![1],
        2 => vec![],
        3 => vec![1, n],
        _ => os.clone(),
    };
    let bias = if g.kc(2, 2) == 1 { g.input(DType::F32, &bs) } else { g.cf_var(&bs, 0xB1, -1.0, 9) };
    g.bin_comm("Add", mm, bias, 1)
}

fn scale_by(g: &mut G, x: Vid, div: bool, shape_variant: usize, salt: u32) -> Vid {
    let xs = g.shape(x);
    let cs: Vec<usize> = match shape_variant {
        0 => vec![],
        1 => vec![1],
        2 => vec![1, 1],
        3 => vec![1; xs.len() + 1],
        _ => xs.last().map(|d| vec![*d]).unwrap_or_default(),
    };
    let v = [0.5f32, 0.125, 2.0, 1.0, 0.25][g.free(salt, 5)];
    let c = if shape_variant >= 4 { g.cf_var(&cs, salt, 0.25, 6) } else { g.cfv(&cs, v) };
    if div {
        g.bin("Div", x, c)
    } else {
        g.bin_comm("Mul", x, c, salt + 1)
    }
}

/// MatMulScaleFusion: `Mul(MatMul(Mul(X, c), Mul(Y, d)), e)` with scalar constants (Mul or Div).
///
/// knobs: 0 which of output / lhs / rhs are scaled, 1 Div instead of Mul,
/// 2 scale shape ([] / [1] / [1,1] / [1;rank+1] / vector), 3 operand ranks.
/// Free: scale values (incl. 1.0 = no effect), operand order of Mul.
pub fn matmul_scale(g: &mut G) -> Vid {
    g.knobs(&["where", "div", "scaleshape", "ranks"]);
    let (out_s, lhs_s, rhs_s) = match g.kc(0, 6) {
        0 => (true, false, false),
        1 => (false, true, false),
        2 => (false, false, true),
        3 => (true, true, false),
        4 => (false, true, true),
        _ => (true, true, true),
    };
    let variant = [0, 1, 3, 4][g.kc(3, 4)];
    let (mut a, mut b) = mm_operands(g, variant, rhs_s);
    let div = g.kc(1, 2) == 1;
    let sv = g.kc(2, 5);
    if lhs_s {
        a = scale_by(g, a, div, sv, 50);
        g.inters.push(a);
    }
    if rhs_s {
        // a rank-raising scale would turn a vector RHS into a row matrix, which is a different (invalid) MatMul
        let sv_rhs = if lhs_s {
            0
        } else if g.rank(b) == 1 && (sv == 2 || sv == 3) {
            1
        } else {
            sv
        };
        b = scale_by(g, b, div, sv_rhs, 60);
        g.inters.push(b);
    }
    let mm = g.matmul(a, b);
    if out_s {
        g.inters.push(mm);
        let sv_out = if lhs_s || rhs_s { 0 } else { sv };
        scale_by(g, mm, div, sv_out, 70)
    } else {
        mm
    }
}

struct Quant {
    q: Vid,
    scale: Vid,
    zero: Vid,
}

fn dynamic_quantize(g: &mut G, x: Vid) -> Quant {
    let xs = g.shape(x);
    let o = g.op("DynamicQuantizeLinear", &[x], vec![], vec![(DType::U8, xs), (DType::F32, vec![]), (DType::U8, vec![])]);
    Quant { q: o[0], scale: o[1], zero: o[2] }
}

fn small_weights(g: &mut G, dt: DType, shape: &[usize], salt: u32) -> Vid {
    let seed = g.seed ^ salt;
    let n: usize = shape.iter().product();
    let data = (0..n as u32).map(|i| if dt == DType::U8 { (hash32(seed, i) % 17) as i64 } else { (hash32(seed, i) % 17) as i64 - 8 }).collect();
    g.ci(dt, shape, data)
}

/// Cast chain after the integer op: 0 Cast(f32), 1 Cast(i32) then Cast(f32), 2 Cast(f32) twice.
fn cast_chain(g: &mut G, v: Vid, variant: usize) -> Vid {
    match variant {
        1 => {
            let c = g.cast(v, DType::I32);
            g.inters.push(c);
            g.cast(c, DType::F32)
        }
        2 => {
            let c = g.cast(v, DType::F32);
            g.inters.push(c);
            g.cast(c, DType::F32)
        }
        _ => g.cast(v, DType::F32),
    }
}

/// MatMulIntegerToFloatFusion: `Cast(MatMulInteger(a, b, a_zero, b_zero)) * scale`.
///
/// knobs: 0 scale shape ([n] / [] / [1] / [1,n] / [m,1] / [3] against n=1), 1 zero-point inputs (both / a only / none),
/// 2 scale source (quant scale * constant / constant / graph input), 3 cast chain, 4 lhs rank ([m,k] / [B,m,k] / [k]).
/// Free: weight dtype, b_zero scalar or vector, operand order of the Mul.
pub fn matmul_integer(g: &mut G) -> Vid {
    g.knobs(&["scaleshape", "zp", "scalesrc", "casts", "lhsrank"]);
    let (m, k, b) = (g.size_nz(0), g.size_nz(1), g.size_nz(3));
    let sk = g.kc(0, 6);
    let n = if sk == 5 { 1 } else { g.size_nz(2) };
    let lr = g.kc(4, 3);
    let xs: Vec<usize> = match lr {
        1 => vec![b, m, k],
        2 => vec![k],
        _ => vec![m, k],
    };
    let x = g.ctx_input(&xs);
    let qx = dynamic_quantize(g, x);
    let wdt = if g.free(1, 2) == 0 { DType::I8 } else { DType::U8 };
    let w = small_weights(g, wdt, &[k, n], 0x11);
    let zp = g.kc(1, 3);
    let mut ins: Vec<Option<Vid>> = vec![Some(qx.q), Some(w)];
    if zp <= 1 {
        ins.push(Some(qx.zero));
    }
    if zp == 0 {
        let wz = if g.free(2, 2) == 0 { g.ci(wdt, &[], vec![1]) } else { g.ci(wdt, &[n], (0..n as i64).map(|i| i % 3).collect()) };
        ins.push(Some(wz));
    }
    let mut os = xs[..xs.len() - 1].to_vec();
    os.push(n);
    let mm = g.op_opt("MatMulInteger", &ins, vec![], vec![(DType::I32, os.clone())])[0];
    g.inters.push(mm);
    let c = cast_chain(g, mm, g.kc(3, 3));
    g.inters.push(c);
    let ss: Vec<usize> = match sk {
        0 => vec![n],
        1 => vec![],
        2 => vec![1],
        3 => vec![1, n],
        4 => {
            if os.len() >= 2 {
                vec![os[os.len() - 2], 1]
            } else {
                vec![n]
            }
        }
        _ => vec![3],
    };
    let scale = match g.kc(2, 3) {
        0 => {
            let ws = g.cf_var(&ss, 0x5C, 0.25, 4);
            let s = g.bin_comm("Mul", qx.scale, ws, 3);
            g.inters.push(s);
            s
        }
        1 => g.cf_var(&ss, 0x5C, 0.25, 4),
        _ => g.input(DType::F32, &ss),
    };
    g.bin_comm("Mul", c, scale, 4)
}

fn conv_out(i: usize, k: usize) -> usize {
    i + 1 - k
}

/// ConvAddFusion: `Add(Conv(X, W), bias)` with a constant per-channel bias `[1, M, 1, ...]`.
///
/// knobs: 0 bias shape ([1,M,1,1] / [M,1,1] / [1,1,1,1] / [1,M,H,W] / [N,M,1,1] / []), 1 Conv already has a bias,
/// 2 bias is a graph input, 3 1-D convolution. Free: groups, kernel size, operand order of the Add.
pub fn conv_add(g: &mut G) -> Vid {
    g.knobs(&["biasshape", "hasbias", "biasinput", "conv1d"]);
    let one_d = g.kc(3, 2) == 1;
    let n = g.size_nz(0);
    let grouped = g.free(1, 3) == 0;
    let (c, m) = if grouped { (2, 2 * (1 + g.free(2, 2))) } else { (1 + g.free(2, 2), 1 + g.free(3, 3)) };
    let groups = if grouped { 2 } else { 1 };
    let (h, w) = (2 + g.size_nz(1), 2 + g.size_nz(2));
    let (kh, kw) = (1 + g.free(4, 2), 1 + g.free(5, 2));
    let (xs, ws, os): (Vec<usize>, Vec<usize>, Vec<usize>) = if one_d {
        (vec![n, c, w], vec![m, c / groups, kw], vec![n, m, conv_out(w, kw)])
    } else {
        (vec![n, c, h, w], vec![m, c / groups, kh, kw], vec![n, m, conv_out(h, kh), conv_out(w, kw)])
    };
    let x = g.ctx_input(&xs);
    let seed = g.seed ^ 0xC0;
    let wt = g.cf(&ws, |i| ((hash32(seed, i) % 9) as f32 - 4.0) * 0.25);
    let mut ins = vec![x, wt];
    if g.kc(1, 2) == 1 {
        ins.push(g.cf_var(&[m], 0xC1, -1.0, 9));
    }
    let kshape: Vec<i64> = ws[2..].iter().map(|d| *d as i64).collect();
    let conv = g.op1("Conv", &ins, vec![("group", Attr::Int(groups as i64)), ("kernel_shape", Attr::Ints(kshape))], DType::F32, os.clone());
    g.inters.push(conv);
    let sp = os.len() - 2;
    let bs: Vec<usize> = match g.kc(0, 6) {
        0 => [vec![1, m], vec![1; sp]].concat(),
        1 => [vec![m], vec![1; sp]].concat(),
        2 => vec![1; sp + 2],
        3 => [vec![1, m], os[2..].to_vec()].concat(),
        4 => [vec![n, m], vec![1; sp]].concat(),
        _ => vec![],
    };
    let bias = if g.kc(2, 2) == 1 { g.input(DType::F32, &bs) } else { g.cf_var(&bs, 0xC2, -1.0, 9) };
    g.bin_comm("Add", conv, bias, 6)
}

/// ConvIntegerToFloatFusion: `Cast(ConvInteger(x, w, x_zero, w_zero)) * scale` with a scalar scale.
///
/// knobs: 0 scale shape ([] / [1] / [M,1,1] / [1,1,1,1] / [1;5]), 1 zero-point inputs (both / x only / none),
/// 2 scale source (quant scale * constant / constant / graph input), 3 cast chain.
pub fn conv_integer(g: &mut G) -> Vid {
    g.knobs(&["scaleshape", "zp", "scalesrc", "casts"]);
    let c = 1 + g.free(1, 2);
    let m = 1 + g.free(2, 3);
    let (h, w) = (2 + g.size_nz(0), 2 + g.size_nz(1));
    let kk = 1 + g.free(3, 2);
    let x = g.ctx_input(&[1, c, h, w]);
    let qx = dynamic_quantize(g, x);
    let wdt = if g.free(4, 2) == 0 { DType::I8 } else { DType::U8 };
    let wt = small_weights(g, wdt, &[m, c, kk, kk], 0x22);
    let zp = g.kc(1, 3);
    let mut ins: Vec<Option<Vid>> = vec![Some(qx.q), Some(wt)];
    if zp <= 1 {
        ins.push(Some(qx.zero));
    }
    if zp == 0 {
        ins.push(Some(g.ci(wdt, &[], vec![1])));
    }
    let os = vec![1, m, conv_out(h, kk), conv_out(w, kk)];
    let ci = g.op_opt("ConvInteger", &ins, vec![("kernel_shape", Attr::Ints(vec![kk as i64, kk as i64]))], vec![(DType::I32, os.clone())])[0];
    g.inters.push(ci);
    let cf = cast_chain(g, ci, g.kc(3, 3));
    g.inters.push(cf);
    let ss: Vec<usize> = match g.kc(0, 5) {
        0 => vec![],
        1 => vec![1],
        2 => vec![m, 1, 1],
        3 => vec![1, 1, 1, 1],
        _ => vec![1; 5],
    };
    let scale = match g.kc(2, 3) {
        0 => {
            let ws = g.cf_var(&ss, 0x5D, 0.25, 4);
            let s = g.bin_comm("Mul", qx.scale, ws, 5);
            g.inters.push(s);
            s
        }
        1 => g.cf_var(&ss, 0x5D, 0.25, 4),
        _ => g.input(DType::F32, &ss),
    };
    g.bin_comm("Mul", cf, scale, 6)
}

//! Attention / layout fusions: SafeSoftmax, AddSoftmax, RepeatInterleave,
//! GroupedQueryAttentionMatMul, Transpose into MatMul / Concat / Slice / Split / Expand.

use super::simple::slice_len;
use crate::{broadcast, hash32, Vid, G};
use vc_onnxgen::model::*;

fn last_axis(g: &G, r: usize, salt: u32) -> i64 {
    if g.free(salt, 2) == 0 {
        -1
    } else {
        r as i64 - 1
    }
}

/// SafeSoftmaxFusion: `y = Softmax(x); Where(IsNaN(y), 0, y)`.
///
/// knobs: 0 replacement value (0 / 0.5 / 0.01), 1 its shape ([] / [1] / [1;r] / [1;r+1] / full),
/// 2 swapped Where branches, 3 IsNaN looks at a second Softmax node over another axis, 4 IsNaN(x).
/// Free: softmax axis (any) and its spelling.
pub fn safe_softmax(g: &mut G) -> Vid {
    g.knobs(&["zeroval", "zeroshape", "swapwhere", "dupsoftmax", "nanofx"]);
    let shape = g.base_shape(1, 4);
    let r = shape.len();
    let x = g.ctx_input(&shape);
    let axis = g.free(1, r);
    let spell = |g: &G, a: usize, salt: u32| if g.free(salt, 2) == 0 { a as i64 } else { a as i64 - r as i64 };
    let y = g.softmax(x, spell(g, axis, 2), false);
    g.inters.push(y);
    let probe = match (g.kc(3, 2), g.kc(4, 2)) {
        (_, 1) => x,
        (1, _) if r >= 2 => {
            let y2 = g.softmax(x, spell(g, (axis + 1) % r, 3), false);
            g.inters.push(y2);
            y2
        }
        _ => y,
    };
    let nan = g.un_to("IsNaN", probe, vec![], DType::Bool);
    g.inters.push(nan);
    let zv = [0.0f32, 0.5, 0.01][g.kc(0, 3)];
    let zs = G::const_shape_variant(&shape, g.kc(1, 5));
    let zero = g.cfv(&zs, zv);
    let os = broadcast(&shape, &zs).unwrap();
    if g.kc(2, 2) == 1 {
        g.op1("Where", &[nan, y, zero], vec![], DType::F32, os)
    } else {
        g.op1("Where", &[nan, zero, y], vec![], DType::F32, os)
    }
}

/// AddSoftmaxFusion: `Softmax(Add(qk, mask), axis = last)`.
///
/// knobs: 0 softmax axis (last / first), 1 mask shape (same / [last] / [1;r] / [..,1] / [1]+shape / mask larger than qk),
/// 2 LogSoftmax. Free: -1 vs r-1, mask constant or graph input, operand order.
pub fn add_softmax(g: &mut G) -> Vid {
    g.knobs(&["axis0", "maskshape", "logsoftmax"]);
    let shape = g.base_shape(1, 4);
    let r = shape.len();
    let mk = g.kc(1, 6);
    let (qs, ms): (Vec<usize>, Vec<usize>) = match mk {
        0 => (shape.clone(), shape.clone()),
        1 => (shape.clone(), vec![shape[r - 1]]),
        2 => (shape.clone(), vec![1; r]),
        3 => {
            let mut m = shape.clone();
            m[r - 1] = 1;
            (shape.clone(), m)
        }
        4 => (shape.clone(), [vec![1], shape.clone()].concat()),
        _ => (vec![shape[r - 1]], shape.clone()),
    };
    let qk = g.ctx_input(&qs);
    let mask = if g.free(1, 2) == 0 { g.input(DType::F32, &ms) } else { g.cf_var(&ms, 0x3A, -2.0, 9) };
    let s = g.bin_comm("Add", qk, mask, 2);
    g.inters.push(s);
    let sr = g.rank(s);
    let axis = if g.kc(0, 2) == 1 && sr >= 2 { if g.free(3, 2) == 0 { 0 } else { -(sr as i64) } } else { last_axis(g, sr, 4) };
    g.softmax(s, axis, g.kc(2, 2) == 1)
}

/// `Unsqueeze -> Expand -> Reshape` repeating axis `a` of `x` `reps` times; `tile` inserts the new axis
/// before `a` (whole-axis repetition) instead of after it (element repetition).
fn repeat(g: &mut G, x: Vid, a: usize, reps: usize, tile: bool, extra_axis: Option<usize>, flatten: bool, salt: u32) -> Vid {
    let xs = g.shape(x);
    let r = xs.len();
    let dt = g.dtype(x);
    let p = if tile { a } else { a + 1 };
    let mut us = xs.clone();
    us.insert(p, 1);
    let p_enc = if g.free(salt, 2) == 0 { p as i64 } else { p as i64 - (r as i64 + 1) };
    let axc = g.ci64(&[p_enc]);
    let u = g.op1("Unsqueeze", &[x, axc], vec![], dt, us.clone());
    g.inters.push(u);
    let mut es = us.clone();
    es[p] = reps;
    if let Some(b) = extra_axis {
        // b indexes x; shift past the inserted axis
        let bb = if b >= p { b + 1 } else { b };
        if es[bb] == 1 {
            es[bb] = 2;
        }
    }
    // the Expand shape may spell non-broadcast dims as 1
    let enc: Vec<i64> = es.iter().zip(&us).enumerate().map(|(d, (t, s))| if t == s && g.free(salt + 10 + d as u32, 3) == 0 { 1 } else { *t as i64 }).collect();
    let esh = g.ci64(&enc);
    let e = g.op1("Expand", &[u, esh], vec![], dt, es.clone());
    g.inters.push(e);
    let mut os = es.clone();
    let merged = os[p] * os[if tile { p + 1 } else { p - 1 }];
    if tile {
        os[p + 1] = merged;
        os.remove(p);
    } else {
        os[p - 1] = merged;
        os.remove(p);
    }
    if flatten {
        let n: usize = os.iter().product();
        return g.reshape(e, &[n as i64], vec![n]);
    }
    let mut target: Vec<i64> = os.iter().map(|d| *d as i64).collect();
    if !os.contains(&0) && g.free(salt + 1, 2) == 0 {
        target[a] = -1;
    }
    g.reshape(e, &target, os)
}

/// RepeatInterleaveFusion: `Reshape(Expand(Unsqueeze(x, a+1), ..), ..)`.
///
/// knobs: 0 new axis inserted before the repeated axis (tile), 1 repeats (2 / 3 / 1 / 4 / 0), 2 int32 data,
/// 3 Expand also broadcasts another size-1 axis, 4 Reshape flattens everything, 5 input dims may be symbolic (canonical: all fixed).
/// Free: repeated axis, negative axis spelling, 1s in the Expand shape, -1 in the Reshape target.
pub fn repeat_interleave(g: &mut G) -> Vid {
    g.knobs(&["tile", "reps", "int32", "extraaxis", "flatten", "symdims"]);
    let mut shape = g.base_shape(2, 4);
    let r = shape.len();
    let a = g.free(1, r);
    if g.kc(5, 2) == 0 {
        // the Reshape target is a constant, so a symbolic input dim can never be shown equal to the output dim
        g.fixed_dims = 0x0F;
    }
    let extra = if g.kc(3, 2) == 1 {
        let b = (a + 1 + g.free(2, r - 1)) % r;
        shape[b] = 1;
        Some(b)
    } else {
        None
    };
    let int = g.kc(2, 2) == 1;
    let x = if int { g.input(DType::I32, &shape) } else { g.ctx_input(&shape) };
    let reps = [2usize, 3, 1, 4, 0][g.kc(1, 5)];
    repeat(g, x, a, reps, g.kc(0, 2) == 1, extra, g.kc(4, 2) == 1, 20)
}

/// GroupedQueryAttentionMatMulFusion: `MatMul(Q, RepeatInterleave(KV))` and
/// `MatMul(Q, Transpose(RepeatInterleave(K), [0,1,3,2])) * scale`.
///
/// knobs: 0 K-variant without the scale, 1 transpose perm ([0,1,3,2] / identity / default / [1,0,3,2]),
/// 2 repeated axis (1 / 0 / 2), 3 LHS of rank 3, 4 LHS with a single (broadcast) head, 5 tile instead of interleave,
/// 6 input dims may be symbolic (canonical: all fixed).
/// Free: V-variant or K-variant, Mul or Div scale, repeats 2 or 3.
pub fn gqa(g: &mut G) -> Vid {
    g.knobs(&["noscale", "perm", "axis", "lhsrank3", "onehead", "tile", "symdims"]);
    if g.kc(6, 2) == 0 {
        g.fixed_dims = 0x0F;
    }
    let (b, hkv, s, s2) = (g.size(0), g.size_nz(1), g.size(2), g.size(3));
    let d = [1usize, 2, 4][g.free(1, 3)];
    let reps = 2 + g.free(2, 2);
    let k_variant = g.kc(0, 2) == 1 || g.kc(1, 4) != 0 || g.free(3, 2) == 0;
    let kv = g.input(DType::F32, &[b, hkv, s2, d]);
    let axis = [1usize, 0, 2][g.kc(2, 3)];
    let rep = repeat(g, kv, axis, reps, g.kc(5, 2) == 1, None, false, 30);
    g.inters.push(rep);
    let rhs = if k_variant {
        let t = match g.kc(1, 4) {
            0 => g.transpose(rep, Some(&[0, 1, 3, 2])),
            1 => g.transpose(rep, Some(&[0, 1, 2, 3])),
            2 => g.transpose(rep, None),
            _ => g.transpose(rep, Some(&[1, 0, 3, 2])),
        };
        g.inters.push(t);
        t
    } else {
        rep
    };
    let rs = g.shape(rhs);
    let mut ls = vec![rs[0], rs[1], s, rs[2]];
    if g.kc(4, 2) == 1 {
        ls[1] = 1;
    }
    if g.kc(3, 2) == 1 {
        ls.remove(0);
    }
    let q = g.ctx_input(&ls);
    let mm = g.matmul(q, rhs);
    if k_variant && g.kc(0, 2) == 0 {
        g.inters.push(mm);
        let c = g.cfv(&[], [0.5f32, 0.25, 2.0][g.free(4, 3)]);
        if g.free(5, 2) == 0 {
            g.bin_comm("Mul", mm, c, 6)
        } else {
            g.bin("Div", mm, c)
        }
    } else {
        mm
    }
}

fn perm_for(g: &G, r: usize, kind: usize) -> Option<Vec<usize>> {
    match kind {
        1 => None,
        2 => Some((0..r).collect()),
        3 => {
            let mut p: Vec<usize> = (0..r).collect();
            p.swap(r - 1, r - 2);
            Some(p)
        }
        _ => {
            let mut p: Vec<usize> = (0..r).collect();
            for i in (1..r).rev() {
                let j = (hash32(g.seed ^ 0x7E, i as u32) as usize) % (i + 1);
                p.swap(i, j);
            }
            Some(p)
        }
    }
}

/// TransposeFusion: a Transpose feeding MatMul / FusedMatMul / Concat / Expand / Slice / Split.
///
/// knobs: 0 consumer that is not in the fusion's list (ReduceSum), 1 int32 data (non-MatMul consumers),
/// 2 perm kind (random / default / identity / swap last two).
/// Free: which consumer and which operand position, consumer axis.
pub fn transpose(g: &mut G) -> Vid {
    g.knobs(&["otherconsumer", "int32", "perm"]);
    let shape = g.base_shape(2, 4);
    let r = shape.len();
    let mut consumer = g.free(1, 9);
    let int = g.kc(1, 2) == 1;
    if int && matches!(consumer, 0 | 1 | 2 | 7) {
        consumer = 3 + g.free(2, 4);
    }
    if g.kc(0, 2) == 1 {
        consumer = 9;
    }
    let x = if int { g.input(DType::I32, &shape) } else { g.ctx_input(&shape) };
    let dt = g.dtype(x);
    let perm = perm_for(g, r, g.kc(2, 4));
    let t = g.transpose(x, perm.as_deref());
    g.inters.push(t);
    let ts = g.shape(t);
    let ax = g.free(3, r);
    let ax_enc = if g.free(4, 2) == 0 { ax as i64 } else { ax as i64 - r as i64 };
    let konst = |g: &mut G, s: &[usize], salt: u32| -> Vid {
        if dt == DType::F32 {
            g.cf_var(s, salt, -1.0, 9)
        } else {
            let seed = g.seed ^ salt;
            let n: usize = s.iter().product();
            g.ci(DType::I32, s, (0..n as u32).map(|i| (hash32(seed, i) % 7) as i64 - 3).collect())
        }
    };
    match consumer {
        0 | 7 => {
            let n = g.size_nz(3);
            let w = konst(g, &[ts[r - 1], n], 0xA1);
            let mm = g.matmul(t, w);
            if consumer == 7 {
                g.inters.push(mm);
                g.bin_c("Mul", mm, &[], 0.5, false)
            } else {
                mm
            }
        }
        1 => {
            let m = g.size_nz(3);
            let a = g.input(DType::F32, &[m, ts[r - 2]]);
            g.matmul(a, t)
        }
        2 => {
            let c = g.size_nz(3);
            let x2 = g.input(DType::F32, &[c, ts[r - 1]]);
            let t2 = g.transpose(x2, None);
            g.inters.push(t2);
            g.matmul(t, t2)
        }
        3 | 8 => {
            let other = if consumer == 8 { t } else { konst(g, &ts, 0xA2) };
            let mut os = ts.clone();
            os[ax] *= 2;
            let parts = if g.free(5, 2) == 0 { [t, other] } else { [other, t] };
            g.op1("Concat", &parts, vec![("axis", Attr::Int(ax_enc))], dt, os)
        }
        4 => {
            let size = ts[ax] as i64;
            let (start, end) = ([0i64, 1, -2][g.free(5, 3)], [size, size - 1, i64::MAX][g.free(6, 3)]);
            let mut os = ts.clone();
            os[ax] = slice_len(size, start, end, 1);
            let (st, en, axc) = (g.ci64(&[start]), g.ci64(&[end]), g.ci64(&[ax_enc]));
            g.op1("Slice", &[t, st, en, axc], vec![], dt, os)
        }
        5 => {
            let size = ts[ax];
            let first = g.free(5, size + 1);
            let sp = g.ci64(&[first as i64, (size - first) as i64]);
            let (mut o1, mut o2) = (ts.clone(), ts.clone());
            o1[ax] = first;
            o2[ax] = size - first;
            let outs = g.op("Split", &[t, sp], vec![("axis", Attr::Int(ax_enc))], vec![(dt, o1), (dt, o2)]);
            g.extra_outs.push(outs[1]);
            outs[0]
        }
        6 => {
            let lead = 1 + g.free(5, 2);
            let os = [vec![lead], ts.clone()].concat();
            let enc: Vec<i64> = os.iter().map(|d| *d as i64).collect();
            let sh = g.ci64(&enc);
            g.op1("Expand", &[t, sh], vec![], dt, os)
        }
        _ => {
            let axc = g.ci64(&[ax_enc]);
            let mut os = ts.clone();
            os.remove(ax);
            g.op1("ReduceSum", &[t, axc], vec![("keepdims", Attr::Int(0))], dt, os)
        }
    }
}

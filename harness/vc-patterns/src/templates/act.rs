//! Activation fusions: Silu, Swish, Gelu, approximate Gelu.

use crate::{Vid, G};

/// Three-factor product in one of the bracketings / orders the matcher must treat alike.
fn mul3(g: &mut G, a: Vid, b: Vid, c: Vid, salt: u32) -> Vid {
    match g.free(salt, 4) {
        0 => {
            let ab = g.bin_comm("Mul", a, b, salt + 1);
            g.inters.push(ab);
            g.bin_comm("Mul", ab, c, salt + 2)
        }
        1 => {
            let bc = g.bin_comm("Mul", b, c, salt + 1);
            g.inters.push(bc);
            g.bin_comm("Mul", a, bc, salt + 2)
        }
        2 => {
            let ac = g.bin_comm("Mul", a, c, salt + 1);
            g.inters.push(ac);
            g.bin_comm("Mul", ac, b, salt + 2)
        }
        _ => {
            let ab = g.bin_comm("Mul", a, b, salt + 1);
            g.inters.push(ab);
            g.bin("Mul", c, ab)
        }
    }
}

/// A float constant `val` whose shape is `[]` unless `variant` (1..=4) asks for
/// `[1]`, `[1;r]`, `[1;r+1]` or the full shape of `x`.
fn konst(g: &mut G, x: Vid, val: f32, variant: usize) -> Vid {
    let cs = G::const_shape_variant(&g.shape(x), variant);
    g.cfv(&cs, val)
}

/// Decode a "which constant gets which shape variant" knob: 0 = none, otherwise
/// (constant index, variant 1..=4).
fn shape_knob(c: usize) -> Option<(usize, usize)> {
    if c == 0 {
        None
    } else {
        Some(((c - 1) / 4, (c - 1) % 4 + 1))
    }
}

/// SiluFusion: `x * Sigmoid(x)`.
///
/// knobs: 0 Sigmoid applied to a different value (Neg(x)), 1 extra Shape consumer of the Sigmoid output.
pub fn silu(g: &mut G) -> Vid {
    g.knobs(&["othersig", "shapeuse"]);
    let shape = g.base_shape(0, 4);
    let x = g.ctx_input(&shape);
    let sx = if g.kc(0, 2) == 1 { g.un("Neg", x) } else { x };
    let t = g.un("Sigmoid", sx);
    g.inters.push(t);
    if g.kc(1, 2) == 1 {
        let r = g.rank(t);
        let s = g.op1("Shape", &[t], vec![], vc_onnxgen::DType::I64, vec![r]);
        g.extra_outs.push(s);
    }
    g.bin_comm("Mul", x, t, 1)
}

/// SwishFusion: `x * Sigmoid(alpha * x)`.
///
/// knobs: 0 alpha shape ([] / [1] / [1;r] / [1;r+1] / vector), 1 inner form (Mul / Div(x, c) / Mul(alpha, Neg(x))),
/// 2 alpha is a graph input instead of a constant.
pub fn swish(g: &mut G) -> Vid {
    g.knobs(&["alphashape", "inner", "alphainput"]);
    let shape = g.base_shape(0, 4);
    let x = g.ctx_input(&shape);
    let alpha_v = [1.702f32, 1.5, 0.5, 2.0][g.free(1, 4)];
    let alpha = if g.kc(2, 2) == 1 {
        g.input(vc_onnxgen::DType::F32, &[])
    } else {
        match g.kc(0, 5) {
            4 => {
                let cs: Vec<usize> = shape.last().map(|d| vec![*d]).unwrap_or_default();
                g.cf_var(&cs, 0x77, 0.5, 4)
            }
            v => konst(g, x, alpha_v, v),
        }
    };
    let inner = match g.kc(1, 3) {
        0 => g.bin_comm("Mul", alpha, x, 2),
        1 => g.bin("Div", x, alpha),
        _ => {
            let nx = g.un("Neg", x);
            g.bin_comm("Mul", alpha, nx, 2)
        }
    };
    g.inters.push(inner);
    let t = g.un("Sigmoid", inner);
    g.inters.push(t);
    g.bin_comm("Mul", x, t, 3)
}

/// GeluFusion: `x * (Erf(x / sqrt(2)) + 1) * 0.5` (also `x * (1/sqrt(2))`).
///
/// knobs: 0 one constant off by >= 5e-2 (sqrt2 / 1 / 0.5), 1 one constant with shape [1] / [1;r] / [1;r+1] / full,
/// 2 Erf applied to a different value, 3 scaling by the inverse constant (x / (1/sqrt2)).
/// Free: Div vs Mul spelling, bracketing and order of the product, order of the Add.
pub fn gelu(g: &mut G) -> Vid {
    g.knobs(&["off", "cshape", "othererf", "invscale"]);
    let shape = g.base_shape(0, 4);
    let x = g.ctx_input(&shape);
    let off = g.kc(0, 4);
    let sk = shape_knob(g.kc(1, 13));
    let var = |i: usize| sk.filter(|(c, _)| *c == i).map(|(_, v)| v).unwrap_or(0);
    let sqrt2 = 2.0f32.sqrt();
    let use_div = g.free(1, 2) == 0;
    let mut scale_v = if use_div { sqrt2 } else { 1.0 / sqrt2 };
    if g.kc(3, 2) == 1 {
        scale_v = 1.0 / scale_v;
    }
    if off == 1 {
        scale_v += 0.05;
    }
    let one_v = if off == 2 { 1.05 } else { 1.0 };
    let half_v = if off == 3 { 0.55 } else { 0.5 };
    let ex = if g.kc(2, 2) == 1 { g.un("Neg", x) } else { x };
    let sc = konst(g, x, scale_v, var(0));
    let scaled = if use_div { g.bin("Div", ex, sc) } else { g.bin_comm("Mul", ex, sc, 2) };
    g.inters.push(scaled);
    let erf = g.un("Erf", scaled);
    g.inters.push(erf);
    let one = konst(g, x, one_v, var(1));
    let e1 = g.bin_comm("Add", erf, one, 3);
    g.inters.push(e1);
    let half = konst(g, x, half_v, var(2));
    mul3(g, x, e1, half, 10)
}

/// ApproxGeluFusion: `x * 0.5 * (1 + Tanh(sqrt(2/pi) * (x + Pow(x, 3) * 0.044715)))`.
///
/// knobs: 0 one constant off (0.5 / 1 / sqrt(2/pi) / 3 / 0.044715), 1 one constant with shape variant,
/// 2 Pow(x,3) spelled x*x*x, 3 inner x is a different value.
pub fn approx_gelu(g: &mut G) -> Vid {
    g.knobs(&["off", "cshape", "nopow", "otherx"]);
    let shape = g.base_shape(0, 4);
    let x = g.ctx_input(&shape);
    let off = g.kc(0, 6);
    let sk = shape_knob(g.kc(1, 21));
    let var = |i: usize| sk.filter(|(c, _)| *c == i).map(|(_, v)| v).unwrap_or(0);
    let s2pi = (2.0f32 / std::f32::consts::PI).sqrt();
    let vals = [
        if off == 1 { 0.55 } else { 0.5 },
        if off == 2 { 1.05 } else { 1.0 },
        if off == 3 { s2pi + 0.05 } else { s2pi },
        if off == 4 { 2.0 } else { 3.0 },
        if off == 5 { 0.06 } else { 0.044715 },
    ];
    let ix = if g.kc(3, 2) == 1 { g.un("Neg", x) } else { x };
    let cube = if g.kc(2, 2) == 1 {
        let sq = g.bin("Mul", ix, ix);
        g.bin("Mul", sq, ix)
    } else {
        // no rank-raising exponent (rten's Pow ignores the rank of a single-element exponent: operator defect)
        let r = shape.len();
        let v3 = match var(3) {
            0 => 0,
            _ if r == 0 => 0,
            3 => 2,
            v => v,
        };
        let three = konst(g, x, vals[3], v3);
        g.bin("Pow", ix, three)
    };
    g.inters.push(cube);
    let coef = konst(g, x, vals[4], var(4));
    let cc = g.bin_comm("Mul", cube, coef, 1);
    g.inters.push(cc);
    let sum = g.bin_comm("Add", ix, cc, 2);
    g.inters.push(sum);
    let k = konst(g, x, vals[2], var(2));
    let arg = g.bin_comm("Mul", k, sum, 3);
    g.inters.push(arg);
    let th = g.un("Tanh", arg);
    g.inters.push(th);
    let one = konst(g, x, vals[1], var(1));
    let t1 = g.bin_comm("Add", one, th, 4);
    g.inters.push(t1);
    let half = konst(g, x, vals[0], var(0));
    mul3(g, x, half, t1, 20)
}

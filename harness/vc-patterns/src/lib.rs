//! Fusion-pattern templates with perturbation knobs.
//!
//! The random graph grammar of `vc-onnxgen` almost never produces the
//! multi-node subgraphs that rten's graph optimiser fuses. This crate emits,
//! for every fusion in `/repo/src/optimize/fusions.rs`, the canonical
//! decomposed subgraph the fusion matches, embedded in a few cheap context
//! operators, and perturbs it with "knobs" that move the instance just inside
//! or just outside the fusion's legality conditions (constant rank / shape /
//! value, axis attributes, operand order, extra consumers of intermediates,
//! symbolic vs fixed dims, dtype, ...).
//!
//! A `PatternCase` is a bag of small integers (so proptest shrinks it well);
//! `build_pattern` interprets it deterministically into a
//! `vc_onnxgen::grammar::Built`, i.e. exactly what the C01 oracle consumes.
//!
//! Knob convention: every template declares `NK` knobs. A case carries a list
//! of 0-3 *mutations* `(knob selector, value 1..=255)`; a knob that is not
//! mutated has value 0 = canonical (the form the fusion is written for). So
//! the empty mutation list is the textbook pattern and shrinking converges to
//! it.

use proptest::prelude::*;
use serde::{Deserialize, Serialize};
use vc_onnxgen::grammar::{Built, VKind, V};
use vc_onnxgen::model::*;
use vc_onnxgen::TVal;

mod templates;
pub use templates::{template_name, N_TEMPLATES};

#[derive(Clone, Debug, PartialEq, Serialize, Deserialize)]
pub struct PatternCase {
    /// template selector (mapped monotonically onto `0..N_TEMPLATES`)
    pub template: u8,
    /// knob mutations: (knob selector, value 1..=255); absent knob = canonical.
    /// `pattern_case()` generates at most one, `pattern_case_multi()` up to three.
    pub muts: Vec<(u8, u8)>,
    /// rank selector of the primary input
    pub rank: u8,
    /// dim-size selectors
    pub dims: [u8; 4],
    /// bits 0-3: dim d of graph inputs is symbolic; bits 4-7: symbol is unique to the input instead of "n<size>"
    pub sym: u8,
    /// context ops applied before the pattern (0-2) and after it (0-2)
    pub pre: Vec<u8>,
    pub post: Vec<u8>,
    /// 0 = none; otherwise selects an intermediate of the pattern that gets an
    /// extra consumer (odd) or becomes a graph output itself (even)
    pub leak: u8,
    /// bit 0: emit value_info for intermediates; bit 1: exact output shapes; bit 2: template output first in the output list
    pub flags: u8,
    pub data_seed: u16,
}

/// Cases with at most ONE mutated knob (35 % canonical, 65 % one knob). A violation is then attributable to
/// exactly one perturbation, and the tag `@pattern=<T>;knobs=<knob>` that c01.rs appends to signatures ranges over a
/// small, enumerable set (known findings can be exact).
pub fn pattern_case() -> impl Strategy<Value = PatternCase> {
    pattern_case_with(1)
}

/// Exploratory variant: 0-3 mutated knobs per case (weights 3:4:2:1). Tags then list several knobs.
pub fn pattern_case_multi() -> impl Strategy<Value = PatternCase> {
    pattern_case_with(3)
}

fn pattern_case_with(max_muts: usize) -> impl Strategy<Value = PatternCase> {
    let mutation = (any::<u8>(), 1u8..=255);
    let muts = if max_muts <= 1 {
        prop_oneof![
            35 => Just(Vec::new()),
            65 => proptest::collection::vec(mutation, 1..=1),
        ]
        .boxed()
    } else {
        prop_oneof![
            3 => Just(Vec::new()),
            4 => proptest::collection::vec(mutation.clone(), 1..=1),
            2 => proptest::collection::vec(mutation.clone(), 2..=2),
            1 => proptest::collection::vec(mutation, 3..=3),
        ]
        .boxed()
    };
    let leak = prop_oneof![4 => Just(0u8), 1 => 1u8..=255];
    (
        any::<u8>(),
        muts,
        any::<u8>(),
        any::<[u8; 4]>(),
        prop_oneof![1 => Just(0u8), 2 => any::<u8>()],
        proptest::collection::vec(any::<u8>(), 0..=2),
        proptest::collection::vec(any::<u8>(), 0..=2),
        leak,
        any::<u8>(),
        any::<u16>(),
    )
        .prop_map(|(template, muts, rank, dims, sym, pre, post, leak, flags, data_seed)| PatternCase {
            template,
            muts,
            rank,
            dims,
            sym,
            pre,
            post,
            leak,
            flags,
            data_seed,
        })
}

/// Ready-made strategy for `vc-graph/src/bin/c01.rs`: the built model as a self-contained
/// `GraphCase::Fixed` (shrinking still happens on the underlying `PatternCase`, and a saved replay file keeps
/// its meaning when the templates evolve).
pub fn pattern_graph_case() -> impl Strategy<Value = vc_onnxgen::grammar::GraphCase> {
    pattern_case().prop_map(|pc| vc_onnxgen::grammar::GraphCase::Fixed(Box::new(build_pattern(&pc))))
}

/// Same as `pattern_case` but restricted to one template (development aid).
pub fn pattern_case_for(template_index: usize, multi: bool) -> impl Strategy<Value = PatternCase> {
    pattern_case_with(if multi { 3 } else { 1 }).prop_map(move |mut c| {
        c.template = templates::selector_for(template_index);
        c
    })
}

pub fn template_index(c: &PatternCase) -> usize {
    pick(c.template, N_TEMPLATES)
}

pub(crate) fn pick(sel: u8, n: usize) -> usize {
    debug_assert!(n > 0);
    ((sel as usize) * n) >> 8
}

pub(crate) fn hash32(a: u32, b: u32) -> u32 {
    let mut x = a.wrapping_mul(0x9E3779B1) ^ b.wrapping_add(0x7F4A7C15).wrapping_mul(0x85EBCA6B);
    x ^= x >> 15;
    x = x.wrapping_mul(0x2C1B3C6D);
    x ^= x >> 12;
    x = x.wrapping_mul(0x297A2D39);
    x ^= x >> 15;
    x
}

/// "Nice" float in [-4, 4]: a multiple of 0.25.
pub(crate) fn nice_f32(seed: u32, i: u32) -> f32 {
    ((hash32(seed, i) % 33) as i32 - 16) as f32 * 0.25
}

pub(crate) fn nice_int(seed: u32, i: u32) -> i64 {
    (hash32(seed, i) % 9) as i64 - 4
}

pub(crate) fn broadcast(a: &[usize], b: &[usize]) -> Option<Vec<usize>> {
    let n = a.len().max(b.len());
    let mut out = vec![0; n];
    for i in 0..n {
        let x = if i + a.len() >= n { a[i + a.len() - n] } else { 1 };
        let y = if i + b.len() >= n { b[i + b.len() - n] } else { 1 };
        out[i] = if x == y {
            x
        } else if x == 1 {
            y
        } else if y == 1 {
            x
        } else {
            return None;
        };
    }
    Some(out)
}

pub(crate) type Vid = usize;

/// Symbolic-dimension bookkeeping for value_info: `None` = do not describe
/// this value; `Some(dims)` with `dims[d] = Some(symbol)` or `None` (fixed).
type SymDims = Option<Vec<Option<String>>>;

pub(crate) struct G<'a> {
    pub c: &'a PatternCase,
    pub nk: usize,
    pub seed: u32,
    pub vals: Vec<V>,
    syms: Vec<SymDims>,
    nodes: Vec<NodeDef>,
    inits: Vec<(String, TensorLit)>,
    g_inputs: Vec<ValueInfo>,
    input_data: Vec<(String, TVal)>,
    counter: usize,
    /// intermediates of the pattern that the `leak` knob may expose
    pub inters: Vec<Vid>,
    /// extra graph outputs requested by the template
    pub extra_outs: Vec<Vid>,
    /// dims (bit d) of subsequently declared graph inputs that are fixed regardless of the case's `sym` mask
    pub fixed_dims: u8,
    /// names of the template's knobs (index = knob number)
    names: &'static [&'static str],
    /// knobs that were read with a non-canonical value, as `<name>` (two-valued) or `<name><choice>`
    active: std::cell::RefCell<std::collections::BTreeSet<String>>,
}

pub(crate) const SIZES: [usize; 32] = [2, 3, 5, 2, 3, 5, 1, 2, 3, 4, 2, 3, 5, 1, 2, 3, 2, 3, 5, 2, 3, 4, 1, 2, 3, 5, 2, 3, 1, 2, 3, 0];

impl<'a> G<'a> {
    fn new(c: &'a PatternCase) -> G<'a> {
        G {
            c,
            nk: 1,
            seed: c.data_seed as u32,
            vals: Vec::new(),
            syms: Vec::new(),
            nodes: Vec::new(),
            inits: Vec::new(),
            g_inputs: Vec::new(),
            input_data: Vec::new(),
            counter: 0,
            inters: Vec::new(),
            extra_outs: Vec::new(),
            fixed_dims: 0,
            names: &[],
            active: Default::default(),
        }
    }

    /// Declare the template's knobs (sets `nk`).
    pub fn knobs(&mut self, names: &'static [&'static str]) {
        self.names = names;
        self.nk = names.len();
    }

    /// `@pattern=<Template>;knobs=<sorted active knob names joined by +>`
    fn tag(&self) -> String {
        let active: Vec<String> = self.active.borrow().iter().cloned().collect();
        format!("@pattern={};knobs={}", template_name(template_index(self.c)), active.join("+"))
    }

    // ----- knobs -----

    /// Raw value of knob `i` (0 = canonical).
    pub fn k(&self, i: usize) -> u8 {
        for (sel, val) in &self.c.muts {
            if pick(*sel, self.nk) == i {
                return *val;
            }
        }
        0
    }

    /// Knob `i` as a choice in `0..n` (0 = canonical; mutated values map monotonically onto `1..n`).
    pub fn kc(&self, i: usize, n: usize) -> usize {
        let v = self.k(i) as usize;
        if v == 0 || n <= 1 {
            0
        } else {
            let c = 1 + ((v - 1) * (n - 1)) / 255;
            let name = self.names.get(i).copied().unwrap_or("knob");
            self.active.borrow_mut().insert(if n > 2 { format!("{name}{c}") } else { name.to_string() });
            c
        }
    }

    /// A choice in `0..n` that does not affect the legality of the fusion (operand order of
    /// commutative ops, which of several equivalent spellings, ...): derived from the data seed.
    pub fn free(&self, salt: u32, n: usize) -> usize {
        (hash32(self.seed ^ 0xF00D, salt) as usize) % n.max(1)
    }

    /// Commutative binary op with seed-chosen operand order.
    pub fn bin_comm(&mut self, op: &str, a: Vid, b: Vid, salt: u32) -> Vid {
        if self.free(salt, 2) == 1 {
            self.bin(op, b, a)
        } else {
            self.bin(op, a, b)
        }
    }

    /// Size of dim selector `d`.
    pub fn size(&self, d: usize) -> usize {
        SIZES[pick(self.c.dims[d % 4], SIZES.len())]
    }

    /// Like `size` but never 0.
    pub fn size_nz(&self, d: usize) -> usize {
        self.size(d).max(1)
    }

    /// Primary input shape of rank `rmin..=rmax` from the case's selectors.
    pub fn base_shape(&self, rmin: usize, rmax: usize) -> Vec<usize> {
        let r = rmin + pick(self.c.rank, rmax - rmin + 1);
        (0..r).map(|d| self.size(d)).collect()
    }

    // ----- values -----

    fn fresh(&mut self, prefix: &str) -> String {
        self.counter += 1;
        format!("{prefix}{}", self.counter)
    }

    fn add_val(&mut self, name: &str, dtype: DType, shape: Vec<usize>, kind: VKind, sym: SymDims) -> Vid {
        self.vals.push(V { name: name.to_string(), dtype, shape, mag: 8.0, kind, random: false });
        self.syms.push(sym);
        self.vals.len() - 1
    }

    pub fn shape(&self, v: Vid) -> Vec<usize> {
        self.vals[v].shape.clone()
    }
    pub fn rank(&self, v: Vid) -> usize {
        self.vals[v].shape.len()
    }
    pub fn dtype(&self, v: Vid) -> DType {
        self.vals[v].dtype
    }

    /// Graph input with generated data; dims are symbolic according to the case's `sym` mask.
    pub fn input(&mut self, dtype: DType, shape: &[usize]) -> Vid {
        let i = self.g_inputs.len();
        let name = format!("in{i}");
        let sym = self.c.sym & !(self.fixed_dims & 0x0F);
        let mut symdims = Vec::new();
        let dims: Vec<Dim> = shape
            .iter()
            .enumerate()
            .map(|(d, s)| {
                if d < 4 && (sym >> d) & 1 == 1 {
                    let sname = if (sym >> (4 + d)) & 1 == 1 { format!("{name}_d{d}") } else { format!("n{s}") };
                    symdims.push(Some(sname.clone()));
                    Dim::Sym(sname)
                } else {
                    symdims.push(None);
                    Dim::Fixed(*s as i64)
                }
            })
            .collect();
        self.g_inputs.push(ValueInfo::new(&name, dtype, dims));
        let seed = self.seed ^ (0x1000 + i as u32);
        let tv = match dtype {
            DType::F32 => TVal::filled(dtype, shape, |k| nice_f32(seed, k as u32) as f64),
            DType::Bool => TVal::filled(dtype, shape, |k| (hash32(seed, k as u32) & 1) as f64),
            _ => TVal::filled(dtype, shape, |k| nice_int(seed, k as u32) as f64),
        };
        self.input_data.push((name.clone(), tv));
        self.add_val(&name, dtype, shape.to_vec(), VKind::Input, Some(symdims))
    }

    fn push_init(&mut self, prefix: &str, lit: TensorLit, shape: &[usize]) -> Vid {
        let name = self.fresh(prefix);
        let dtype = lit.dtype;
        self.inits.push((name.clone(), lit));
        self.add_val(&name, dtype, shape.to_vec(), VKind::Const, Some(vec![None; shape.len()]))
    }

    pub fn cf(&mut self, shape: &[usize], gen: impl Fn(u32) -> f32) -> Vid {
        let n: usize = shape.iter().product();
        let data: Vec<f32> = (0..n as u32).map(gen).collect();
        let dims: Vec<i64> = shape.iter().map(|d| *d as i64).collect();
        let mut lit = TensorLit::f32(&dims, data);
        lit.raw = hash32(self.seed, self.counter as u32) % 3 != 0;
        self.push_init("c", lit, shape)
    }

    pub fn cfv(&mut self, shape: &[usize], v: f32) -> Vid {
        self.cf(shape, |_| v)
    }

    /// Float constant with "nice" varied contents in [lo, lo + 0.25*steps).
    pub fn cf_var(&mut self, shape: &[usize], salt: u32, lo: f32, steps: u32) -> Vid {
        let seed = self.seed ^ salt;
        self.cf(shape, |i| lo + (hash32(seed, i) % steps.max(1)) as f32 * 0.25)
    }

    pub fn ci(&mut self, dtype: DType, shape: &[usize], data: Vec<i64>) -> Vid {
        let dims: Vec<i64> = shape.iter().map(|d| *d as i64).collect();
        let mut lit = TensorLit { dtype, dims, f: vec![], i: data, raw: true };
        if matches!(dtype, DType::I64) {
            lit.raw = hash32(self.seed, self.counter as u32) % 3 != 0;
        }
        self.push_init("k", lit, shape)
    }

    pub fn ci64(&mut self, data: &[i64]) -> Vid {
        self.ci(DType::I64, &[data.len()], data.to_vec())
    }

    // ----- nodes -----

    /// Generic node; `ins[i] = None` is an omitted optional input.
    pub fn op_opt(&mut self, op: &str, ins: &[Option<Vid>], attrs: Vec<(&str, Attr)>, outs: Vec<(DType, Vec<usize>)>) -> Vec<Vid> {
        let in_names: Vec<String> = ins.iter().map(|i| i.map(|i| self.vals[i].name.clone()).unwrap_or_default()).collect();
        // value_info bookkeeping: describable only when every input is fully fixed
        let all_fixed = ins.iter().flatten().all(|i| matches!(&self.syms[*i], Some(d) if d.iter().all(|s| s.is_none())));
        let name = self.fresh("n");
        let mut out_ids = Vec::new();
        let mut out_names = Vec::new();
        for (dt, shape) in outs {
            let vname = self.fresh("v");
            out_names.push(vname.clone());
            let sym = if all_fixed { Some(vec![None; shape.len()]) } else { None };
            out_ids.push(self.add_val(&vname, dt, shape, VKind::Inter, sym));
        }
        self.nodes.push(NodeDef {
            op: op.to_string(),
            domain: String::new(),
            name,
            inputs: in_names,
            outputs: out_names,
            attrs: attrs.into_iter().map(|(k, v)| (k.to_string(), v)).collect(),
        });
        out_ids
    }

    pub fn op(&mut self, op: &str, ins: &[Vid], attrs: Vec<(&str, Attr)>, outs: Vec<(DType, Vec<usize>)>) -> Vec<Vid> {
        let ins: Vec<Option<Vid>> = ins.iter().map(|i| Some(*i)).collect();
        self.op_opt(op, &ins, attrs, outs)
    }

    pub fn op1(&mut self, op: &str, ins: &[Vid], attrs: Vec<(&str, Attr)>, dt: DType, shape: Vec<usize>) -> Vid {
        self.op(op, ins, attrs, vec![(dt, shape)])[0]
    }

    /// Elementwise unary op: same dtype and shape; symbolic dims carried over.
    pub fn un(&mut self, op: &str, x: Vid) -> Vid {
        self.un_a(op, x, vec![])
    }

    pub fn un_a(&mut self, op: &str, x: Vid, attrs: Vec<(&str, Attr)>) -> Vid {
        let (dt, shape) = (self.dtype(x), self.shape(x));
        let sym = self.syms[x].clone();
        let out = self.op1(op, &[x], attrs, dt, shape);
        self.syms[out] = sym;
        out
    }

    pub fn un_to(&mut self, op: &str, x: Vid, attrs: Vec<(&str, Attr)>, dt: DType) -> Vid {
        let shape = self.shape(x);
        let sym = self.syms[x].clone();
        let out = self.op1(op, &[x], attrs, dt, shape);
        self.syms[out] = sym;
        out
    }

    pub fn cast(&mut self, x: Vid, to: DType) -> Vid {
        self.un_to("Cast", x, vec![("to", Attr::Int(to.onnx_code()))], to)
    }

    /// Broadcasting binary op. Operands must be broadcast-compatible (templates guarantee it).
    pub fn bin(&mut self, op: &str, a: Vid, b: Vid) -> Vid {
        let dt = self.dtype(a);
        self.bin_to(op, a, b, dt)
    }

    pub fn bin_to(&mut self, op: &str, a: Vid, b: Vid, dt: DType) -> Vid {
        let (sa, sb) = (self.shape(a), self.shape(b));
        let shape = broadcast(&sa, &sb).unwrap_or_else(|| panic!("template bug: {op} operands {sa:?} {sb:?} do not broadcast"));
        // symbolic dims: take the symbol of whichever operand supplies the dim
        let sym = match (&self.syms[a], &self.syms[b]) {
            (Some(da), Some(db)) => {
                let n = shape.len();
                let mut out = Vec::new();
                let mut ok = true;
                for i in 0..n {
                    let pa = if i + sa.len() >= n { Some(i + sa.len() - n) } else { None };
                    let pb = if i + sb.len() >= n { Some(i + sb.len() - n) } else { None };
                    let xa = pa.map(|p| (sa[p], da[p].clone()));
                    let xb = pb.map(|p| (sb[p], db[p].clone()));
                    let s = match (xa, xb) {
                        (Some((_, s)), None) | (None, Some((_, s))) => s,
                        (Some((na, s1)), Some((nb, s2))) => {
                            if s1 == s2 {
                                s1
                            } else if s1.is_none() && na == 1 {
                                s2
                            } else if s2.is_none() && nb == 1 {
                                s1
                            } else {
                                // differently named symbols or symbol vs fixed non-1: do not describe
                                ok = false;
                                None
                            }
                        }
                        (None, None) => None,
                    };
                    out.push(s);
                }
                if ok {
                    Some(out)
                } else {
                    None
                }
            }
            _ => None,
        };
        let out = self.op1(op, &[a, b], vec![], dt, shape);
        self.syms[out] = sym;
        out
    }

    /// `lhs op const` or `const op lhs` (swap) with a float constant.
    pub fn bin_c(&mut self, op: &str, x: Vid, cshape: &[usize], v: f32, swap: bool) -> Vid {
        let c = self.cfv(cshape, v);
        if swap {
            self.bin(op, c, x)
        } else {
            self.bin(op, x, c)
        }
    }

    pub fn transpose(&mut self, x: Vid, perm: Option<&[usize]>) -> Vid {
        let s = self.shape(x);
        let r = s.len();
        let p: Vec<usize> = match perm {
            Some(p) => p.to_vec(),
            None => (0..r).rev().collect(),
        };
        let shape: Vec<usize> = p.iter().map(|i| s[*i]).collect();
        let attrs = match perm {
            Some(p) => vec![("perm", Attr::Ints(p.iter().map(|i| *i as i64).collect()))],
            None => vec![],
        };
        let dt = self.dtype(x);
        self.op1("Transpose", &[x], attrs, dt, shape)
    }

    pub fn matmul_shape(a: &[usize], b: &[usize]) -> Option<Vec<usize>> {
        if a.is_empty() || b.is_empty() {
            return None;
        }
        let (mut a2, mut b2) = (a.to_vec(), b.to_vec());
        let a_vec = a.len() == 1;
        let b_vec = b.len() == 1;
        if a_vec {
            a2.insert(0, 1);
        }
        if b_vec {
            b2.push(1);
        }
        let (ra, rb) = (a2.len(), b2.len());
        if a2[ra - 1] != b2[rb - 2] {
            return None;
        }
        let mut out = broadcast(&a2[..ra - 2], &b2[..rb - 2])?;
        if !a_vec {
            out.push(a2[ra - 2]);
        }
        if !b_vec {
            out.push(b2[rb - 1]);
        }
        Some(out)
    }

    pub fn matmul(&mut self, a: Vid, b: Vid) -> Vid {
        let (sa, sb) = (self.shape(a), self.shape(b));
        let shape = Self::matmul_shape(&sa, &sb).unwrap_or_else(|| panic!("template bug: MatMul {sa:?} x {sb:?}"));
        self.op1("MatMul", &[a, b], vec![], DType::F32, shape)
    }

    /// ReduceMean with axes either as attribute or as constant input.
    pub fn reduce_mean(&mut self, x: Vid, axes: &[i64], keepdims: bool, axes_as_input: bool, axes_dtype: DType, extra: Vec<(&str, Attr)>) -> Vid {
        let s = self.shape(x);
        let r = s.len() as i64;
        let norm: Vec<usize> = axes.iter().map(|a| if *a < 0 { (*a + r) as usize } else { *a as usize }).collect();
        let mut shape = Vec::new();
        for (d, n) in s.iter().enumerate() {
            if norm.contains(&d) {
                if keepdims {
                    shape.push(1);
                }
            } else {
                shape.push(*n);
            }
        }
        let mut attrs = vec![("keepdims", Attr::Int(keepdims as i64))];
        attrs.extend(extra);
        if axes_as_input {
            let ax = self.ci(axes_dtype, &[axes.len()], axes.to_vec());
            self.op1("ReduceMean", &[x, ax], attrs, DType::F32, shape)
        } else {
            attrs.push(("axes", Attr::Ints(axes.to_vec())));
            self.op1("ReduceMean", &[x], attrs, DType::F32, shape)
        }
    }

    pub fn softmax(&mut self, x: Vid, axis: i64, log: bool) -> Vid {
        self.un_a(if log { "LogSoftmax" } else { "Softmax" }, x, vec![("axis", Attr::Int(axis))])
    }

    pub fn reshape(&mut self, x: Vid, target: &[i64], concrete: Vec<usize>) -> Vid {
        let t = self.ci64(target);
        let dt = self.dtype(x);
        // a literal 0 in the target means "copy the input dim" unless allowzero is set
        let attrs = if target.contains(&0) { vec![("allowzero", Attr::Int(1))] } else { vec![] };
        self.op1("Reshape", &[x, t], attrs, dt, concrete)
    }

    /// A shape for a single-element or broadcastable constant relative to a value of shape `xs`:
    /// 0 → [], 1 → [1], 2 → [1; r], 3 → [1; r+1] (raises the rank), 4 → the full shape (multi-element).
    pub fn const_shape_variant(xs: &[usize], variant: usize) -> Vec<usize> {
        match variant {
            0 => vec![],
            1 => vec![1],
            2 => vec![1; xs.len()],
            3 => vec![1; xs.len() + 1],
            _ => xs.to_vec(),
        }
    }

    // ----- context -----

    /// Cheap elementwise float ops before the pattern.
    fn pre_context(&mut self, mut x: Vid) -> Vid {
        let pre = self.c.pre.clone();
        for sel in pre {
            x = self.ctx_op(x, sel);
        }
        x
    }

    fn ctx_op(&mut self, x: Vid, sel: u8) -> Vid {
        match self.dtype(x) {
            DType::F32 => match pick(sel, 9) {
                0 => self.un("Neg", x),
                1 => self.un("Abs", x),
                2 => self.un("Relu", x),
                3 => self.un("Tanh", x),
                4 => self.bin_c("Mul", x, &[], 0.5, sel & 1 == 1),
                5 => self.bin_c("Add", x, &[], 0.25, sel & 1 == 1),
                6 => self.un("Sigmoid", x),
                7 => {
                    // vector constant along the last axis (if any)
                    let s = self.shape(x);
                    let cs: Vec<usize> = s.last().map(|d| vec![*d]).unwrap_or_default();
                    // never 0: `x - 0` would be removed by IdentityFusion and blur the op_diff part of signatures
                    let c = self.cf_var(&cs, 0x51 + sel as u32, 0.25, 8);
                    self.bin("Sub", x, c)
                }
                _ => self.bin("Max", x, x),
            },
            DType::Bool => self.un("Not", x),
            dt => match pick(sel, 3) {
                0 => self.un("Neg", x),
                1 => self.un("Abs", x),
                _ => {
                    let one = self.ci(dt, &[], vec![1]);
                    self.bin("Add", x, one)
                }
            },
        }
    }

    /// The pattern's float input: a graph input followed by the pre-context ops.
    pub fn ctx_input(&mut self, shape: &[usize]) -> Vid {
        let x = self.input(DType::F32, shape);
        self.pre_context(x)
    }

    fn finish(mut self, result: Vid) -> Built {
        // post-context
        let mut y = result;
        let post = self.c.post.clone();
        for sel in post {
            y = self.ctx_op(y, sel);
        }
        let mut out_ids = vec![y];
        // leak knob: expose an intermediate of the pattern
        if self.c.leak != 0 && !self.inters.is_empty() {
            let l = self.c.leak as usize - 1;
            let v = self.inters[(l / 2 * self.inters.len()) / 128];
            if l % 2 == 0 {
                // extra consumer whose result is an output
                let w = match self.dtype(v) {
                    DType::F32 | DType::I32 | DType::I64 => self.un("Neg", v),
                    DType::Bool => self.un("Not", v),
                    _ => self.cast(v, DType::F32),
                };
                out_ids.push(w);
            } else if !out_ids.contains(&v) {
                out_ids.push(v);
            }
        }
        for v in self.extra_outs.clone() {
            if !out_ids.contains(&v) {
                out_ids.push(v);
            }
        }
        if self.c.flags & 4 != 0 && out_ids.len() > 1 {
            out_ids.rotate_left(1);
        }
        let exact = self.c.flags & 2 != 0;
        let outputs: Vec<ValueInfo> = out_ids
            .iter()
            .map(|i| {
                let v = &self.vals[*i];
                ValueInfo {
                    name: v.name.clone(),
                    dtype: Some(v.dtype),
                    shape: if exact { Some(v.shape.iter().map(|d| Dim::Fixed(*d as i64)).collect()) } else { None },
                }
            })
            .collect();
        let mut value_info = Vec::new();
        if self.c.flags & 1 != 0 {
            for (i, v) in self.vals.iter().enumerate() {
                if v.kind != VKind::Inter || out_ids.contains(&i) {
                    continue;
                }
                if let Some(sd) = &self.syms[i] {
                    let dims = v
                        .shape
                        .iter()
                        .zip(sd)
                        .map(|(n, s)| match s {
                            Some(s) => Dim::Sym(s.clone()),
                            None => Dim::Fixed(*n as i64),
                        })
                        .collect();
                    value_info.push(ValueInfo::new(&v.name, v.dtype, dims));
                }
            }
        }
        // first entry: the tag that c01.rs appends to violation signatures
        let mut op_types: Vec<String> = vec![self.tag()];
        op_types.extend(self.nodes.iter().map(|n| n.op.clone()));
        let graph = GraphDef { nodes: self.nodes, initializers: self.inits, inputs: self.g_inputs, outputs, value_info };
        Built {
            model: ModelDef::new(graph),
            inputs: self.input_data,
            outputs: out_ids.iter().map(|i| self.vals[*i].name.clone()).collect(),
            values: self.vals,
            op_types,
        }
    }
}

/// Interpret a case into a model plus conforming inputs.
pub fn build_pattern(c: &PatternCase) -> Built {
    let mut g = G::new(c);
    let result = templates::emit(&mut g, template_index(c));
    g.finish(result)
}

/// Human-readable dump of a built model (NOTES / debugging).
pub fn dump(b: &Built) -> String {
    use std::fmt::Write;
    let mut s = String::new();
    for i in &b.model.graph.inputs {
        let dims: Vec<String> = i
            .shape
            .as_ref()
            .map(|sh| sh.iter().map(|d| match d { Dim::Fixed(n) => n.to_string(), Dim::Sym(n) => n.clone() }).collect())
            .unwrap_or_default();
        let _ = writeln!(s, "input {} {:?} [{}]", i.name, i.dtype.unwrap(), dims.join(","));
    }
    for (n, t) in &b.model.graph.initializers {
        let _ = writeln!(s, "init {n} {:?} {:?} f={:?} i={:?}", t.dtype, t.dims, &t.f[..t.f.len().min(8)], &t.i[..t.i.len().min(8)]);
    }
    for n in &b.model.graph.nodes {
        let _ = writeln!(s, "{} {:?} -> {:?} {:?}", n.op, n.inputs, n.outputs, n.attrs);
    }
    for v in &b.model.graph.value_info {
        let _ = writeln!(s, "value_info {} {:?}", v.name, v.shape);
    }
    let _ = writeln!(s, "outputs {:?}", b.outputs);
    for (n, v) in &b.inputs {
        let _ = writeln!(s, "data {n} = {:?}", v);
    }
    s
}

//! Development driver: generate N cases per template, run the C01 differential
//! oracle (opt off vs opt on x infer Off/On/Strict) and print validity, how
//! often the intended fusion fired, and every mismatch with its signature.
//!
//!   patstat [N] [template-name-substring]      statistics
//!   patstat --case '<PatternCase json>'        dump + run one case
//!   SHOW=1 prints the model of the first case of every mismatch signature.
//!   MULTI=1 uses the exploratory strategy with up to three mutated knobs per case.

use proptest::strategy::{Strategy, ValueTree};
use proptest::test_runner::{Config as PConfig, RngSeed, TestRunner};
use std::collections::BTreeMap;
use vc_onnxgen::grammar::Built;
use vc_onnxgen::*;
use vc_patterns::*;

const TOL: Tol = Tol { rtol: 2e-3, atol: 2e-4 };

// --- copied from vc-graph/src/bin/c01.rs so that signatures are identical ---
fn err_class(e: &str) -> String {
    let mut out = String::new();
    let mut last_digit = false;
    let mut in_quote = false;
    for c in e.chars().take(100) {
        if c == '"' {
            in_quote = !in_quote;
            continue;
        }
        if in_quote {
            continue;
        }
        if c.is_ascii_digit() {
            if !last_digit {
                out.push('#');
            }
            last_digit = true;
        } else {
            out.push(c);
            last_digit = false;
        }
    }
    out
}

enum Outcome {
    /// unoptimised model does not load / run
    Invalid(String),
    /// (union of op_diffs, reduce-mean canonicalised, labels)
    Pass { diffs: Vec<String>, rm_canon: bool, strict_refused: bool, deviation: Option<String> },
    Fail { signature: String, detail: String },
}

fn reduce_mean_unary(model: &rten::Model) -> usize {
    model
        .verif_graph()
        .iter()
        .filter_map(|(_, n)| n.as_operator())
        .filter(|op| op.operator().name() == "ReduceMean" && op.input_ids().len() == 1)
        .count()
}

fn oracle(built: &Built) -> Outcome {
    // same as c01.rs: pattern cases carry a tag as first op_types entry, appended to every signature
    let tag = match built.op_types.first() {
        Some(t) if t.starts_with('@') => format!(":{t}"),
        _ => String::new(),
    };
    let bytes = built.model.encode();
    let base_model = match vcore::catch(|| Config::Plain.load(&bytes)) {
        Ok(Ok(m)) => m,
        Ok(Err(e)) => return Outcome::Invalid(format!("base-load-failed: {}", err_class(&e))),
        Err(p) => return Outcome::Invalid(format!("base-load-panicked: {}", p.signature())),
    };
    let base = match vcore::catch(|| run_named(&base_model, &built.inputs, &built.outputs, None, None)) {
        Ok(Ok(o)) => o,
        Ok(Err(e)) => return Outcome::Invalid(format!("base-run-failed: {}", err_class(&e))),
        Err(p) => return Outcome::Invalid(format!("base-run-panicked: {}", p.signature())),
    };
    // generator self-check (informative only): predicted ONNX shapes vs what rten's unoptimised run produced
    let mut deviation = None;
    for (name, o) in built.outputs.iter().zip(&base) {
        let v = built.values.iter().find(|v| &v.name == name).unwrap();
        if o.shape() != &v.shape[..] {
            deviation = Some(format!("predicted {:?} ran {:?}", v.shape, o.shape()));
        }
        if let TVal::F32 { data, .. } = o {
            if data.iter().any(|x| !x.is_finite()) {
                deviation = Some("nonfinite base output".into());
            }
        }
    }
    let base_rm = reduce_mean_unary(&base_model);
    let mut diffs: Vec<String> = Vec::new();
    let mut rm_canon = false;
    let mut strict_refused = false;
    for cfg in [Config::OptInferOff, Config::OptInferOn, Config::OptInferStrict] {
        let model = match vcore::catch(|| cfg.load(&bytes)) {
            Ok(Ok(m)) => m,
            Ok(Err(e)) => {
                if cfg == Config::OptInferStrict {
                    strict_refused = true;
                    continue;
                }
                return Outcome::Fail {
                    signature: format!("load-failed:{}:{}{tag}", cfg.name(), err_class(&e)),
                    detail: format!("{} fails to load: {e}", cfg.name()),
                };
            }
            Err(p) => {
                return Outcome::Fail {
                    signature: format!("load-panic:{}:{}{tag}", cfg.name(), p.signature()),
                    detail: format!("{} load panicked: {} at {}", cfg.name(), p.msg, p.loc()),
                }
            }
        };
        let diff = op_diff(&base_model, &model);
        if reduce_mean_unary(&model) > base_rm {
            rm_canon = true;
        }
        let outs = match vcore::catch(|| run_named(&model, &built.inputs, &built.outputs, None, None)) {
            Ok(Ok(o)) => o,
            Ok(Err(e)) => {
                return Outcome::Fail {
                    signature: format!("run-failed:{}:{}{tag}", diff.join(","), err_class(&e)),
                    detail: format!("unoptimised run succeeds but {} run fails: {e}; optimiser changes {:?}", cfg.name(), diff),
                }
            }
            Err(p) => {
                return Outcome::Fail {
                    signature: format!("run-panic:{}:{}{tag}", diff.join(","), p.signature()),
                    detail: format!("{} run panicked: {} at {}; optimiser changes {:?}", cfg.name(), p.msg, p.loc(), diff),
                }
            }
        };
        for ((name, b), o) in built.outputs.iter().zip(&base).zip(&outs) {
            if let Err(why) = compare(b, o, TOL) {
                return Outcome::Fail {
                    signature: format!("mismatch:{}{tag}", diff.join(",")),
                    detail: format!("output {name} differs between opt-off and {}: {why}; optimiser changes {:?}", cfg.name(), diff),
                };
            }
        }
        for d in diff {
            if !diffs.contains(&d) {
                diffs.push(d);
            }
        }
    }
    Outcome::Pass { diffs, rm_canon, strict_refused, deviation }
}

fn fired(template: usize, diffs: &[String], rm_canon: bool) -> bool {
    let has = |s: &str| diffs.iter().any(|d| d == s);
    match template_name(template) {
        "Identity" => ["-Add", "-Sub", "-Mul", "-Div", "-Identity"].iter().any(|s| has(s)),
        "CastElimination" => has("-Cast"),
        "ShapeSliceToConstant" => has("-Slice"),
        "ComputeShape" => has("+ComputeShape") || has("-Shape"),
        "Reciprocal" => has("+Reciprocal"),
        "ReduceMeanAxes" => rm_canon,
        "Silu" => has("+Silu"),
        "Swish" => has("+Swish"),
        "Gelu" | "ApproxGelu" => has("+Gelu"),
        "LayerNormalization" => has("+LayerNormalization"),
        "RMSNormalization" => has("+RMSNormalization"),
        "MatMulAdd" | "MatMulScale" => has("+FusedMatMul"),
        "MatMulIntegerToFloat" => has("+MatMulIntegerToFloat"),
        "ConvAdd" => has("-Add"),
        "ConvIntegerToFloat" => has("+ConvIntegerToFloat"),
        "SafeSoftmax" => has("-Where"),
        "AddSoftmax" => has("+AddSoftmax"),
        "RepeatInterleave" => has("+RepeatInterleave"),
        "GroupedQueryAttentionMatMul" => has("+GroupedQueryAttentionMatMul"),
        "Transpose" => diffs.iter().any(|d| d.starts_with("+TransformInputs(")),
        _ => false,
    }
}

fn main() {
    let args: Vec<String> = std::env::args().skip(1).collect();
    if args.first().map(|s| s.as_str()) == Some("--case") {
        let c: PatternCase = serde_json::from_str(&args[1]).expect("PatternCase json");
        let built = build_pattern(&c);
        println!("template {}", template_name(template_index(&c)));
        print!("{}", dump(&built));
        match oracle(&built) {
            Outcome::Invalid(why) => println!("INVALID {why}"),
            Outcome::Pass { diffs, rm_canon, strict_refused, deviation } => println!("PASS diffs={diffs:?} rm_canon={rm_canon} strict_refused={strict_refused} deviation={deviation:?}"),
            Outcome::Fail { signature, detail } => println!("FAIL {signature}\n  {detail}"),
        }
        return;
    }
    if args.first().map(|s| s.as_str()) == Some("--build-only") {
        // generator robustness: build (not run) many cases of the mixed strategy; any panic is a generator bug
        let n: usize = args.get(1).and_then(|s| s.parse().ok()).unwrap_or(100_000);
        let mut runner = TestRunner::new(PConfig { rng_seed: RngSeed::Fixed(7), ..PConfig::default() });
        let strat = pattern_case();
        let mut per = vec![0usize; N_TEMPLATES];
        let mut bad = 0;
        for _ in 0..n {
            let c = strat.new_tree(&mut runner).unwrap().current();
            per[template_index(&c)] += 1;
            if let Err(p) = vcore::catch(|| build_pattern(&c).model.encode().len()) {
                bad += 1;
                if bad <= 5 {
                    println!("GENERATOR panic: {} case {}", p.msg, serde_json::to_string(&c).unwrap());
                }
            }
        }
        println!("built {n} cases, {bad} generator panics; per-template counts {per:?}");
        return;
    }
    let n: usize = args.first().and_then(|s| s.parse().ok()).unwrap_or(300);
    let filter = args.get(1).cloned().unwrap_or_default();
    let show = std::env::var("SHOW").is_ok();
    let seed: u64 = std::env::var("VERIF_SEED").ok().and_then(|s| s.parse().ok()).unwrap_or(1);
    let mut total = 0usize;
    let mut total_valid = 0usize;
    let mut all_fail: BTreeMap<String, (usize, String, String)> = BTreeMap::new();
    println!("{:30} {:>6} {:>7} {:>7} {:>9} {:>6}", "template", "cases", "valid%", "fired%", "nearmiss%", "fails");
    for t in 0..N_TEMPLATES {
        if !template_name(t).to_lowercase().contains(&filter.to_lowercase()) {
            continue;
        }
        let mut runner = TestRunner::new(PConfig { rng_seed: RngSeed::Fixed(seed.wrapping_mul(1000) + t as u64), ..PConfig::default() });
        let strat = pattern_case_for(t, std::env::var("MULTI").is_ok());
        let (mut valid, mut fire, mut fails, mut canon, mut canon_fired) = (0usize, 0usize, 0usize, 0usize, 0usize);
        let mut invalid: BTreeMap<String, (usize, String)> = BTreeMap::new();
        let mut other_diffs: BTreeMap<String, usize> = BTreeMap::new();
        for _ in 0..n {
            let c = strat.new_tree(&mut runner).unwrap().current();
            let built = match vcore::catch(|| build_pattern(&c)) {
                Ok(b) => b,
                Err(p) => {
                    let e = invalid.entry(format!("GENERATOR panic: {}", p.msg)).or_insert((0, serde_json::to_string(&c).unwrap()));
                    e.0 += 1;
                    continue;
                }
            };
            total += 1;
            let is_canon = c.muts.is_empty() && c.leak == 0;
            match oracle(&built) {
                Outcome::Invalid(why) => {
                    let e = invalid.entry(why).or_insert((0, serde_json::to_string(&c).unwrap()));
                    e.0 += 1;
                }
                Outcome::Pass { diffs, rm_canon, deviation, .. } => {
                    if let Some(d) = deviation {
                        let e = invalid.entry(format!("(still valid) base-run deviates from ONNX shape prediction / finite: {d}")).or_insert((0, serde_json::to_string(&c).unwrap()));
                        e.0 += 1;
                    }
                    valid += 1;
                    total_valid += 1;
                    let f = fired(t, &diffs, rm_canon);
                    if f {
                        fire += 1;
                    }
                    if is_canon {
                        canon += 1;
                        if f {
                            canon_fired += 1;
                        } else if std::env::var("NOFIRE").is_ok() {
                            println!("      canonical case did not fire: {}", serde_json::to_string(&c).unwrap());
                        }
                    }
                    for d in diffs {
                        *other_diffs.entry(d).or_default() += 1;
                    }
                }
                Outcome::Fail { signature, detail } => {
                    valid += 1;
                    total_valid += 1;
                    fails += 1;
                    let key = format!("{}|{}", template_name(t), signature);
                    let e = all_fail.entry(key).or_insert((0, serde_json::to_string(&c).unwrap(), detail));
                    e.0 += 1;
                }
            }
        }
        let pct = |a: usize, b: usize| if b == 0 { 0.0 } else { 100.0 * a as f64 / b as f64 };
        println!(
            "{:30} {:6} {:7.1} {:7.1} {:9.1} {:6}   canonical fired {}/{}",
            template_name(t),
            n,
            pct(valid, n),
            pct(fire, valid),
            pct(valid - fire - fails, valid),
            fails,
            canon_fired,
            canon
        );
        for (why, (k, case)) in &invalid {
            println!("      invalid x{k}: {why}\n        e.g. {case}");
        }
        if show {
            println!("      diffs: {:?}", other_diffs);
        }
    }
    println!("overall valid: {:.1}% ({total_valid}/{total})", 100.0 * total_valid as f64 / total.max(1) as f64);
    println!("--- mismatches by template|signature");
    for (key, (k, case, detail)) in &all_fail {
        println!("x{k} {key}\n    {detail}\n    case: {case}");
        if show {
            let c: PatternCase = serde_json::from_str(case).unwrap();
            for l in dump(&build_pattern(&c)).lines() {
                println!("      | {l}");
            }
        }
    }
}

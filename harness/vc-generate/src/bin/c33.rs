//! C33 — samplers choose only valid candidates.
//!
//! ArgMax: the returned id is a candidate whose score equals the maximum.
//! Multinomial: every returned id is a candidate whose softmax probability
//! (f64 reference) is non-zero, and two samplers created with the same seed
//! return the same sequence on the same sequence of inputs.
//!
//! Inputs with NaN / +inf (softmax undefined; docs promise only a fallback)
//! are generated for the weaker clause "no panic, returns a candidate id,
//! deterministic".
//!
//! The two boundary draws of the cumulative walk in `multinomial` (target ==
//! 0.0 and target == the largest value `fastrand::Rng::f32` can return) have
//! probability 2^-23 per draw. They are reached deliberately: the check
//! enumerates seeds 0..2^27 and keeps those whose *first* `f32()` draw is one
//! of the two boundary values (pure enumeration of the RNG the sampler uses;
//! the oracle does not depend on it).

use proptest::prelude::*;
use rten_generate::sampler::{ArgMax, Multinomial, Sampler};
use serde::{Deserialize, Serialize};
use std::sync::OnceLock;
use vc_generate::*;
use vcore::{Check, Verdict};

#[derive(Clone, Debug, Serialize, Deserialize)]
enum Which {
    ArgMax,
    /// Multinomial::with_seed(seed), `draws` draws
    Multinomial { seed: u64, draws: u8 },
}

#[derive(Clone, Debug, Serialize, Deserialize)]
struct Case {
    which: Which,
    /// first input (non-empty)
    a: Input,
    /// optional second input; draws alternate a, b, a, b, ... (exercises the
    /// sampler's scratch-buffer reuse across different lengths)
    b: Option<Input>,
}

fn check_pick(what: &str, inp: &[(u32, f32)], id: u32, q: &Option<Vec<f64>>) -> Option<(String, String)> {
    let Some(pos) = inp.iter().position(|p| p.0 == id) else {
        return Some((
            format!("{what}:id-not-a-candidate"),
            format!("returned id {id} which is not among the candidates {}", show(inp)),
        ));
    };
    if let Some(q) = q {
        if q[pos] <= 0.0 {
            return Some((
                format!("{what}:zero-probability-candidate"),
                format!(
                    "returned id {id} (score {:?}, softmax probability 0) from candidates {}",
                    inp[pos].1,
                    show(inp)
                ),
            ));
        }
    }
    None
}

fn oracle(c: &Case) -> Verdict {
    let mut labels: Vec<&'static str> = Vec::new();
    let inputs: Vec<&Input> = std::iter::once(&c.a).chain(c.b.iter()).collect();
    if inputs.iter().any(|i| i.is_empty()) {
        return Verdict::Discard; // documented panic; generators never produce it
    }
    let pairs: Vec<Vec<(u32, f32)>> = inputs.iter().map(|i| i.pairs()).collect();
    let logits: Vec<rten_generate::Logits> = inputs.iter().map(|i| i.build()).collect();
    labels.push(match c.a.ids_kind() {
        Ids::Dense => "dense",
        _ => "sparse",
    });
    labels.push(match pairs[0].len() {
        1 => "n=1",
        2..=7 => "n=2..7",
        8..=16 => "n=8..16",
        _ => "n=17..70",
    });
    if pairs.iter().flatten().any(|p| p.1 == f32::NEG_INFINITY) {
        labels.push("has-neg-inf");
    }
    let nontrivial = pairs.iter().any(|p| p.len() >= 2 && p.iter().any(|x| x.1.to_bits() != p[0].1.to_bits()));

    match &c.which {
        Which::ArgMax => {
            labels.push("argmax");
            let sampler = ArgMax::new();
            for (inp, l) in pairs.iter().zip(&logits) {
                let id = sampler.sample(l);
                if let Some(f) = check_pick("argmax", inp, id, &None) {
                    return Verdict::fail(f.0, f.1);
                }
                if inp.iter().any(|p| p.1.is_nan()) {
                    labels.push("nan:member-clause-only");
                    continue;
                }
                let max = inp.iter().map(|p| p.1).fold(f32::NEG_INFINITY, f32::max);
                let score = inp.iter().find(|p| p.0 == id).unwrap().1;
                if score != max {
                    return Verdict::fail(
                        "argmax:not-maximal",
                        format!("returned id {id} with score {score:?} but the maximum is {max:?}; candidates {}", show(inp)),
                    );
                }
                if inp.iter().filter(|p| p.1 == max).count() > 1 {
                    labels.push("argmax:tie-at-max");
                }
            }
        }
        Which::Multinomial { seed, draws } => {
            labels.push("multinomial");
            let q: Vec<Option<Vec<f64>>> = pairs
                .iter()
                .map(|p| softmax64(&p.iter().map(|x| x.1).collect::<Vec<_>>()))
                .collect();
            if q.iter().any(|x| x.is_none()) {
                labels.push("undefined-probabilities:member-clause-only");
            }
            let s1 = Multinomial::with_seed(*seed);
            let s2 = Multinomial::with_seed(*seed);
            let mut first_target: Option<f32> = None;
            {
                let t = fastrand::Rng::with_seed(*seed).f32();
                if t == 0.0 {
                    labels.push("first-draw-target==0");
                } else if t >= 1.0 - f32::EPSILON {
                    labels.push("first-draw-target==max");
                }
                first_target.replace(t);
            }
            let mut seq1 = Vec::new();
            for d in 0..*draws as usize {
                let which = d % pairs.len();
                let id = s1.sample(&logits[which]);
                seq1.push(id);
                if let Some(f) = check_pick("multinomial", &pairs[which], id, &q[which]) {
                    return Verdict::fail(
                        f.0,
                        format!("draw {d} with seed {seed} (first target {:?}): {}", first_target.unwrap(), f.1),
                    );
                }
                if q[which].is_some() && pairs[which][0].0 == id && pairs[which].len() > 1 {
                    labels.push("picked-first-candidate");
                }
            }
            let seq2: Vec<u32> = (0..*draws as usize).map(|d| s2.sample(&logits[d % pairs.len()])).collect();
            if seq1 != seq2 {
                return Verdict::fail(
                    "multinomial:not-deterministic",
                    format!("two samplers with seed {seed} returned {seq1:?} and {seq2:?} on the same inputs"),
                );
            }
            // a clone of an unused seeded sampler continues identically
            let s3 = Multinomial::with_seed(*seed).clone();
            let seq3: Vec<u32> = (0..*draws as usize).map(|d| s3.sample(&logits[d % pairs.len()])).collect();
            if seq1 != seq3 {
                return Verdict::fail(
                    "multinomial:clone-not-deterministic",
                    format!("a clone of a fresh sampler with seed {seed} returned {seq3:?}, the original {seq1:?}"),
                );
            }
        }
    }
    labels.sort();
    labels.dedup();
    Verdict::pass_l(nontrivial, labels)
}

const MAXN: usize = 70;

/// Finite / -inf inputs that are never all -inf.
fn defined_input(max_len: usize) -> impl Strategy<Value = Input> {
    (raw_input(v_finite_or_neg_inf, 1, max_len), v_finite(), any::<u16>()).prop_map(|(mut inp, v, pos)| {
        if let Input::Raw { items, .. } = &mut inp {
            if items.iter().all(|(x, _)| x.f() == f32::NEG_INFINITY) {
                let i = vcore::pick_idx(pos, items.len());
                items[i].0 = v;
            }
        }
        inp
    })
}

/// Inputs that start with a run of -inf candidates (zero probability at the
/// positions a cumulative walk visits first).
fn neg_inf_front(max_len: usize) -> impl Strategy<Value = Input> {
    (1usize..=3, defined_input(max_len)).prop_map(|(k, mut inp)| {
        if let Input::Raw { items, .. } = &mut inp {
            for _ in 0..k {
                items.insert(0, (V::X(IDX_NEG_INF), 7));
            }
        }
        inp
    })
}

fn boundary() -> &'static (Vec<u64>, Vec<u64>) {
    static B: OnceLock<(Vec<u64>, Vec<u64>)> = OnceLock::new();
    B.get_or_init(|| boundary_seeds(1 << 27))
}

fn seed_strategy() -> impl Strategy<Value = u64> {
    prop_oneof![3 => any::<u64>(), 1 => 0u64..16, 1 => Just(1234u64)]
}

fn boundary_seed() -> impl Strategy<Value = u64> {
    let (zero, top) = boundary();
    let all: Vec<u64> = zero.iter().chain(top.iter()).copied().collect();
    assert!(!all.is_empty(), "no boundary seeds below 2^27");
    vcore::gen::one_of(all)
}

fn main() {
    vc_generate::fast_slot_dir();
    let mut ck = Check::new("C33");
    ck.rule(
        "Case = (sampler, input a, optional input b; draws alternate a,b). Inputs: non-empty dense or sparse (distinct non-monotonic \
         ids) logits of length 1..=70 with ties (0.5 grid), -inf entries (never all, except in the undefined sub-check), +-0, \
         +-f32::MAX, +-88/100/-1000 spreads, subnormals. Sub-checks: argmax (incl. +inf and, for the member clause only, NaN); \
         multinomial with arbitrary/small/fixed seeds and 1..=50 draws per sampler; multinomial-boundary with seeds (enumerated from \
         0..2^27) whose first f32() draw is exactly 0.0 or 1-2^-23 on inputs that start with -inf candidates; multinomial-undefined \
         with NaN/+inf/all -inf inputs (member clause + determinism only). Non-trivial = some input has >= 2 candidates with \
         different scores. Distinct = distinct Debug rendering of the case.",
    );
    ck.assume("softmax reference in f64: 'non-zero probability' means the f64 softmax probability is > 0 (so only -inf candidates, or spreads beyond ~745, count as zero)");
    ck.assume("NaN / +inf inputs: only 'returns a candidate id, no panic, deterministic' is required (docs define a fallback only)");
    ck.set_threads(12);

    let n = ck.pick(40_000, 2_000_000);
    ck.prop(
        "argmax",
        n,
        || {
            (
                prop_oneof![3 => defined_input(MAXN), 1 => raw_input(v_full, 1, MAXN), 1 => raw_input(v_finite_or_neg_inf, 1, 8)],
                proptest::option::of(raw_input(v_finite_or_neg_inf, 1, 20)),
            )
                .prop_map(|(a, b)| Case { which: Which::ArgMax, a, b })
        },
        oracle,
    );
    ck.prop(
        "multinomial",
        n,
        || {
            (
                seed_strategy(),
                1u8..=50,
                prop_oneof![3 => defined_input(MAXN), 2 => defined_input(6), 1 => neg_inf_front(12)],
                proptest::option::of(defined_input(MAXN)),
            )
                .prop_map(|(seed, draws, a, b)| Case { which: Which::Multinomial { seed, draws }, a, b })
        },
        oracle,
    );
    if ck.selected("multinomial-boundary") {
        let (zero, top) = boundary();
        ck.extra(
            "boundary_seeds",
            serde_json::json!({"searched": "0..2^27", "first_draw_zero": zero.len(), "first_draw_max": top.len()}),
        );
    }
    ck.prop(
        "multinomial-boundary",
        n / 2,
        || {
            (
                boundary_seed(),
                1u8..=4,
                prop_oneof![2 => neg_inf_front(6), 2 => neg_inf_front(MAXN), 1 => defined_input(MAXN)],
            )
                .prop_map(|(seed, draws, a)| Case { which: Which::Multinomial { seed, draws }, a, b: None })
        },
        oracle,
    );
    ck.prop(
        "multinomial-undefined",
        n / 4,
        || {
            (seed_strategy(), 1u8..=20, raw_input(v_full, 1, MAXN), proptest::option::of(raw_input(v_full, 1, 9)))
                .prop_map(|(seed, draws, a, b)| Case { which: Which::Multinomial { seed, draws }, a, b })
        },
        oracle,
    );
    ck.finish();
}

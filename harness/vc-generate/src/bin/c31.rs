//! C31 — logit filters implement their contracts for all inputs.
//!
//! A case is an input `Logits` (dense or sparse, length 0..=4*16+3, NaN of both
//! signs, ±inf, ±0, ties, extremes) plus a list of 0..=4 filters. The filters
//! are applied one at a time (separately constructed objects) and every step is
//! compared with an explicit reference relation computed from that step's
//! actual input; then a `Chain` built from the same filters is run on a fresh
//! copy of the input and must equal the step-by-step result bit for bit
//! ("chained filters behave as their composition"). A panic anywhere is a
//! violation.
//!
//! Reading of top-P (DESIGN.md §6 C31): `TopP::new(p)` / `Chain::top_p(p)` are
//! judged on softmax probabilities (the documented default, "This is true by
//! default"); `.normalize(false)` is judged on the raw values and only when
//! the input is a probability vector; otherwise only the input-independent
//! clauses (no panic, non-empty, ids from the input) are checked.

use proptest::prelude::*;
use rten_generate::filter::{Chain, LogitsFilter, Sort, Temperature, TopK, TopP};
use rten_generate::Logits;
use serde::{Deserialize, Serialize};
use vc_generate::*;
use vcore::{Check, Verdict};

#[derive(Clone, Debug, Serialize, Deserialize, PartialEq)]
enum F {
    /// `TopK::new(k)`
    TopK(u8),
    /// `TopK::new(n + d)` where n is the number of candidates reaching this filter
    TopKRel(i8),
    /// `TopP::new(p)` — documented default (normalize = true)
    TopPDefault(f32),
    /// `TopP::new(p).normalize(b)`
    TopPNorm(f32, bool),
    /// `Temperature::new(t)`
    Temp(f32),
    /// `Sort::new()`
    Sort,
}

#[derive(Clone, Debug, Serialize, Deserialize)]
struct Case {
    input: Input,
    chain: Vec<F>,
}

type Pairs = Vec<(u32, f32)>;
type Fault = (String, String);

fn resolve_k(f: &F, n: usize) -> usize {
    match f {
        F::TopK(k) => *k as usize,
        F::TopKRel(d) => (n as i64 + *d as i64).max(0) as usize,
        _ => 0,
    }
}

fn apply_one(f: &F, k: usize, l: Logits) -> Logits {
    match f {
        F::TopK(_) | F::TopKRel(_) => TopK::new(k).filter(l, &[]),
        F::TopPDefault(p) => TopP::new(*p).filter(l, &[]),
        F::TopPNorm(p, nz) => TopP::new(*p).normalize(*nz).filter(l, &[]),
        F::Temp(t) => Temperature::new(*t).filter(l, &[]),
        F::Sort => Sort::new().filter(l, &[]),
    }
}

fn add_to_chain(c: Chain, f: &F, k: usize) -> Chain {
    match f {
        F::TopK(_) | F::TopKRel(_) => c.top_k(k),
        F::TopPDefault(p) => c.top_p(*p),
        F::TopPNorm(p, nz) => c.append(TopP::new(*p).normalize(*nz)),
        F::Temp(t) => c.temperature(*t),
        F::Sort => c.append(Sort::new()),
    }
}

fn same_bits(a: &Pairs, b: &Pairs) -> bool {
    a.len() == b.len() && a.iter().zip(b).all(|(x, y)| key(x) == key(y))
}

// ---------------------------------------------------------------------------
// Reference relations
// ---------------------------------------------------------------------------

fn rel_topk(k: usize, inp: &Pairs, out: &Pairs) -> Option<Fault> {
    let n = inp.len();
    let want = k.min(n);
    let ctx = || format!("TopK({k}) on {} gave {}", show(inp), show(out));
    if out.len() != want {
        return Some(("topk:length".into(), format!("expected min(K,n)={want} candidates; {}", ctx())));
    }
    if out.windows(2).any(|w| w[0].1.total_cmp(&w[1].1).is_lt()) {
        return Some(("topk:not-sorted".into(), format!("not in descending total order; {}", ctx())));
    }
    if !sub_multiset(out, inp) {
        return Some(("topk:pairs-not-from-input".into(), format!("an (id, score) pair is not an input pair; {}", ctx())));
    }
    let mut best: Vec<f32> = inp.iter().map(|p| p.1).collect();
    best.sort_by(|a, b| b.total_cmp(a));
    best.truncate(want);
    if best.iter().zip(out).all(|(a, b)| a.to_bits() == b.1.to_bits()) {
        return None;
    }
    // Not the K largest under the total order. Attribute by what the input
    // contains: with a NaN present every IEEE comparison against it is false
    // (one root cause); without NaN the IEEE order and the total order differ
    // only in the sign of zero; anything else is a plain wrong selection.
    let expected: Vec<String> = best
        .iter()
        .map(|b| if b.is_nan() { format!("{}NaN", if b.is_sign_negative() { "-" } else { "+" }) } else { format!("{b:?}") })
        .collect();
    let detail = format!("K largest scores under total_cmp are [{}]; {}", expected.join(", "), ctx());
    let unsigned_zero = |x: f32| if x == 0.0 { 0u32 } else { x.to_bits() };
    let sig = if inp.iter().any(|p| p.1.is_nan()) {
        "topk:nan-not-in-total-order"
    } else if best.iter().zip(out).all(|(a, b)| unsigned_zero(*a) == unsigned_zero(b.1)) {
        "topk:zero-sign-not-in-total-order"
    } else {
        "topk:not-k-largest"
    };
    Some((sig.into(), detail))
}

fn is_prob_vector(x: &[f32]) -> bool {
    !x.is_empty()
        && x.iter().all(|v| v.is_finite() && *v >= 0.0)
        && (x.iter().map(|v| *v as f64).sum::<f64>() - 1.0).abs() <= 1e-3
}

#[derive(Clone, Copy, PartialEq)]
enum TopPMode {
    Default,
    Norm(bool),
}

fn rel_topp(p: f32, mode: TopPMode, inp: &Pairs, out: &Pairs, labels: &mut Vec<&'static str>) -> Option<Fault> {
    let n = inp.len();
    let name = match mode {
        TopPMode::Default => format!("TopP::new({p:?})"),
        TopPMode::Norm(b) => format!("TopP::new({p:?}).normalize({b})"),
    };
    let ctx = || format!("{name} on {} gave {}", show(inp), show(out));
    if n == 0 {
        return if out.is_empty() { None } else { Some(("topp:nonempty-from-empty".into(), ctx())) };
    }
    if out.is_empty() {
        return Some(("topp:empty-output".into(), format!("empty result for non-empty input; {}", ctx())));
    }
    if out.len() > n {
        return Some(("topp:grew".into(), ctx()));
    }
    let in_ids: Pairs = inp.iter().map(|p| (p.0, 0.0)).collect();
    let out_ids: Pairs = out.iter().map(|p| (p.0, 0.0)).collect();
    if !sub_multiset(&out_ids, &in_ids) {
        return Some(("topp:ids-not-from-input".into(), ctx()));
    }
    let scores: Vec<f32> = inp.iter().map(|p| p.1).collect();
    let normalize = match mode {
        TopPMode::Default => true, // documented default
        TopPMode::Norm(b) => b,
    };
    let (q, tol_q, tol_s): (Option<Vec<f64>>, f64, f64) = if normalize {
        // f32 softmax (vectorised exp, n <= 67 terms): each probability is
        // within ~1e-6 of the f64 value; a sum of them within ~1e-5.
        (softmax64(&scores), 4e-6, 2e-5)
    } else if is_prob_vector(&scores) {
        let sum: f64 = scores.iter().map(|v| *v as f64).sum();
        // sequential f32 summation: error <= (n-1) * 2^-24 * sum. When every
        // partial sum of the descending sequence is exactly representable
        // (eg. dyadic probabilities) there is no rounding and no tolerance.
        let mut sorted = scores.clone();
        sorted.sort_by(|a, b| b.total_cmp(a));
        let (mut s32, mut s64, mut exact) = (0f32, 0f64, true);
        for v in &sorted {
            s32 += *v;
            s64 += *v as f64;
            exact &= s32 as f64 == s64;
        }
        let tol = if exact {
            labels.push("topp:exact-sums");
            0.0
        } else {
            (n as f64 + 1.0) * 2f64.powi(-23) * sum.max(p as f64)
        };
        (Some(scores.iter().map(|v| *v as f64).collect()), 0.0, tol)
    } else {
        (None, 0.0, 0.0)
    };
    if let Some(q) = q {
        labels.push("topp:probabilities-defined");
        let thr = (p.max(f32::MIN_POSITIVE)) as f64;
        // ids are distinct by construction
        let kept: Vec<bool> = inp.iter().map(|p| out.iter().any(|o| o.0 == p.0)).collect();
        let min_kept = q.iter().zip(&kept).filter(|(_, k)| **k).map(|(v, _)| *v).fold(f64::INFINITY, f64::min);
        let max_dropped = q.iter().zip(&kept).filter(|(_, k)| !**k).map(|(v, _)| *v).fold(f64::NEG_INFINITY, f64::max);
        let sum_kept: f64 = q.iter().zip(&kept).filter(|(_, k)| **k).map(|(v, _)| *v).sum();
        let all = out.len() == n;
        let fault = if min_kept < max_dropped - tol_q {
            Some(("prefix", format!("a dropped candidate has probability {max_dropped:e} > kept {min_kept:e}")))
        } else if !all && sum_kept < thr - tol_s {
            Some(("reach", format!("kept probability mass {sum_kept:.9} does not reach p={thr:e}")))
        } else if p < 1.0 && out.len() > 1 && sum_kept - min_kept >= thr + tol_s {
            // (p == 1 asks for the whole mass: keeping a zero-probability tail
            // as well is accepted, see NOTES.md soundness ledger)
            Some(("minimal", format!("kept mass {sum_kept:.9} still reaches p={thr:e} without its smallest member ({min_kept:e})")))
        } else {
            None
        };
        if let Some((what, why)) = fault {
            if mode == TopPMode::Default {
                // Attribution: is this exactly what `.normalize(false)` computes?
                let inp_l = Logits::sparse(scores.clone(), inp.iter().map(|p| p.0).collect());
                if let Ok(raw) = vcore::catch(|| TopP::new(p).normalize(false).filter(inp_l, &[])) {
                    if same_bits(&pairs_of(&raw), out) {
                        return Some((
                            "topp:default-is-normalize-false".into(),
                            format!("documented default is softmax normalisation, but the result equals .normalize(false): {why}; {}", ctx()),
                        ));
                    }
                }
            }
            return Some((format!("topp:{what}"), format!("{why}; {}", ctx())));
        }
        if out.len() < n {
            labels.push("topp:dropped-some");
        }
    } else {
        labels.push("topp:probabilities-undefined");
    }
    if !sub_multiset(out, inp) {
        return Some((
            "topp:scores-not-retained".into(),
            format!("kept candidates do not carry their input scores; {}", ctx()),
        ));
    }
    None
}

fn rel_temp(t: f32, inp: &Pairs, out: &Pairs) -> Option<Fault> {
    let ctx = || format!("Temperature({t:?}) on {} gave {}", show(inp), show(out));
    if inp.len() != out.len() || inp.iter().zip(out).any(|(a, b)| a.0 != b.0) {
        return Some(("temperature:ids-changed".into(), ctx()));
    }
    for (a, b) in inp.iter().zip(out) {
        let (x, y) = (a.1, b.1);
        let ok = if t == 1.0 {
            x.to_bits() == y.to_bits()
        } else {
            let d = x / t; // documented formula in f32
            let e = x as f64 / t as f64;
            if d.is_nan() {
                y.is_nan()
            } else if d.is_infinite() || e.abs() >= 3.4e38 {
                y == d || (y.abs() >= 3.4e38 && y.is_sign_negative() == d.is_sign_negative())
            } else {
                // x * (1/t): two roundings
                ((y as f64) - e).abs() <= e.abs() * 2f64.powi(-22) + 2f64.powi(-148)
            }
        };
        if !ok {
            return Some((
                "temperature:value".into(),
                format!("score {x:?} / {t:?} should be {:?}, got {y:?}; {}", x / t, ctx()),
            ));
        }
    }
    None
}

fn rel_sort(inp: &Pairs, out: &Pairs) -> Option<Fault> {
    let ctx = || format!("Sort on {} gave {}", show(inp), show(out));
    if inp.len() != out.len() || !sub_multiset(out, inp) {
        return Some(("sort:not-a-permutation".into(), ctx()));
    }
    if out.windows(2).any(|w| w[0].1.total_cmp(&w[1].1).is_lt()) {
        return Some(("sort:not-sorted".into(), ctx()));
    }
    None
}

fn name_of(f: &F) -> &'static str {
    match f {
        F::TopK(_) | F::TopKRel(_) => "topk",
        F::TopPDefault(_) | F::TopPNorm(..) => "topp",
        F::Temp(_) => "temperature",
        F::Sort => "sort",
    }
}

fn oracle(c: &Case) -> Verdict {
    let mut labels: Vec<&'static str> = Vec::new();
    let start = c.input.pairs();
    labels.push(match c.input.ids_kind() {
        Ids::Dense => "dense",
        _ => "sparse",
    });
    labels.push(match start.len() {
        0 => "n=0",
        1 => "n=1",
        2..=7 => "n=2..7",
        8..=16 => "n=8..16",
        17..=32 => "n=17..32",
        _ => "n=33..67",
    });
    if start.iter().any(|p| p.1.is_nan()) {
        labels.push("input-has-nan");
    }
    if start.iter().any(|p| p.1.is_infinite()) {
        labels.push("input-has-inf");
    }
    labels.push(match c.chain.len() {
        0 => "chain-len-0",
        1 => "chain-len-1",
        2 => "chain-len-2",
        3 => "chain-len-3",
        _ => "chain-len-4",
    });

    let mut nontrivial = false;
    let mut cur: Pairs = start.clone();
    let mut ks: Vec<usize> = Vec::new();
    let mut prev_was_topp = false;
    // First fault found by a reference relation. It is reported only after the
    // composition check, so that a listed per-filter finding does not hide a
    // Chain problem.
    let mut first_fault: Option<Fault> = None;
    for (step, f) in c.chain.iter().enumerate() {
        let n = cur.len();
        let k = resolve_k(f, n);
        ks.push(k);
        let is_topk = matches!(f, F::TopK(_) | F::TopKRel(_));
        if is_topk {
            labels.push(if k > n {
                "topk:k>n"
            } else if k == n {
                "topk:k==n"
            } else if k == 0 {
                "topk:k==0"
            } else {
                "topk:0<k<n"
            });
            if prev_was_topp {
                labels.push("topk-after-topp");
            }
        }
        let l = Logits::sparse(cur.iter().map(|p| p.1).collect(), cur.iter().map(|p| p.0).collect());
        // the very first filter sees a `Logits::dense` when the input is dense
        let l = if step == 0 { c.input.build() } else { l };
        let out = match vcore::catch(|| apply_one(f, k, l)) {
            Ok(o) => pairs_of(&o),
            Err(p) => {
                let sig = if is_topk && k > n {
                    "topk:panic-k-greater-than-n".to_string()
                } else {
                    format!("{}:{}", name_of(f), p.signature())
                };
                return Verdict::fail(
                    sig,
                    format!("{f:?} (k={k}) panicked on {} candidates {}: {} at {}", n, show(&cur), p.msg, p.loc()),
                );
            }
        };
        let fault = match f {
            F::TopK(_) | F::TopKRel(_) => rel_topk(k, &cur, &out),
            F::TopPDefault(p) => rel_topp(*p, TopPMode::Default, &cur, &out, &mut labels),
            F::TopPNorm(p, nz) => rel_topp(*p, TopPMode::Norm(*nz), &cur, &out, &mut labels),
            F::Temp(t) => rel_temp(*t, &cur, &out),
            F::Sort => rel_sort(&cur, &out),
        };
        if first_fault.is_none() {
            first_fault = fault;
        }
        if n >= 2 && !same_bits(&cur, &out) {
            nontrivial = true;
        }
        prev_was_topp = matches!(f, F::TopPDefault(_) | F::TopPNorm(..));
        cur = out;
    }

    // Composition: a Chain of the same filters equals the step-by-step result.
    let mut chain = Chain::new();
    for (f, k) in c.chain.iter().zip(&ks) {
        chain = add_to_chain(chain, f, *k);
    }
    let input = c.input.build();
    match vcore::catch(|| chain.filter(input, &[])) {
        Ok(o) => {
            let got = pairs_of(&o);
            if !same_bits(&got, &cur) {
                return Verdict::fail(
                    "chain:not-composition",
                    format!(
                        "Chain{:?} (k={ks:?}) on {} gave {} but applying the filters one by one gives {}",
                        c.chain,
                        show(&start),
                        show(&got),
                        show(&cur)
                    ),
                );
            }
        }
        Err(p) => {
            return Verdict::fail(
                format!("chain:{}", p.signature()),
                format!("Chain{:?} panicked although the individual filters did not: {} at {}", c.chain, p.msg, p.loc()),
            )
        }
    }
    if let Some((sig, detail)) = first_fault {
        return Verdict::fail(sig, detail);
    }
    labels.sort();
    labels.dedup();
    Verdict::pass_l(nontrivial, labels)
}

// ---------------------------------------------------------------------------
// Strategies
// ---------------------------------------------------------------------------

fn any_raw(min_len: usize) -> impl Strategy<Value = Input> {
    prop_oneof![
        3 => raw_input(v_full, min_len, MAX_LEN),
        2 => raw_input(v_finite, min_len, MAX_LEN),
        1 => raw_input(v_finite_or_neg_inf, min_len, MAX_LEN),
        // short inputs: below one SIMD vector
        2 => raw_input(v_full, min_len, 9),
        1 => raw_input(v_finite, min_len, 9),
    ]
}

fn p_val() -> impl Strategy<Value = f32> {
    prop_oneof![
        1 => Just(0.0f32),
        1 => Just(1e-30f32),
        1 => Just(f32::MIN_POSITIVE),
        1 => Just(1.0f32 - f32::EPSILON / 2.0),
        1 => Just(1.0f32),
        3 => (0u32..=1000).prop_map(|i| i as f32 / 1000.0),
        3 => any::<u16>().prop_map(|i| i as f32 / 65535.0),
    ]
}

fn t_val() -> impl Strategy<Value = f32> {
    prop_oneof![
        1 => Just(0.0f32),
        1 => Just(1e-30f32),
        2 => Just(1.0f32),
        1 => Just(0.7f32),
        1 => Just(2.0f32),
        1 => Just(1e6f32),
        3 => (1u32..=4000).prop_map(|i| i as f32 / 1000.0),
    ]
}

fn f_topk() -> impl Strategy<Value = F> {
    prop_oneof![
        2 => (0u8..=(MAX_LEN as u8 + 3)).prop_map(F::TopK),
        1 => (0u8..=5).prop_map(F::TopK),
        3 => (-3i8..=3).prop_map(F::TopKRel),
    ]
}

fn f_any() -> impl Strategy<Value = F> {
    prop_oneof![
        4 => f_topk(),
        2 => p_val().prop_map(F::TopPDefault),
        3 => (p_val(), any::<bool>()).prop_map(|(p, b)| F::TopPNorm(p, b)),
        2 => t_val().prop_map(F::Temp),
        1 => Just(F::Sort),
    ]
}

fn single(input: impl Strategy<Value = Input>, f: impl Strategy<Value = F>) -> impl Strategy<Value = Case> {
    (input, f).prop_map(|(input, f)| Case { input, chain: vec![f] })
}

fn main() {
    fast_slot_dir();
    let mut ck = Check::new("C31");
    ck.rule(
        "Case = (input Logits, list of 0..=4 filters). Input: dense or sparse (distinct non-monotonic ids, also near u32::MAX), \
         length 0..=67 (=4*16 lanes+3; one third of cases <= 9), scores from a mix of a 0.5-grid (ties), specials (NaN of both signs, \
         +-inf, +-0, +-f32::MAX, MIN_POSITIVE, subnormals, +-88, 1+ulp), m/1024 values and arbitrary bit patterns; for \
         normalize(false) also probability vectors w_i/sum(w). Filters: TopK(K) with K absolute 0..=70 or n+d, d in -3..=3; \
         TopP::new(p); TopP::new(p).normalize(b); Temperature(t), t in {0} u [1e-30,1e6]; Sort; p in {0,1e-30,MIN_POSITIVE,1-2^-24,1} \
         u grid. Sub-checks draw single filters per kind and mixed chains (random, proptest, shrinking). \
         Non-trivial = some filter received >= 2 candidates and returned something different from its input (dropped, reordered or \
         rescaled). Distinct = distinct Debug rendering of the case.",
    );
    ck.assume("TopP::new(p)/Chain::top_p(p) are judged on softmax probabilities (documented default); .normalize(false) is judged on raw values only for probability-vector inputs");
    ck.assume("softmax reference in f64; kept-set tolerances 4e-6 per probability and 2e-5 per sum for f32 softmax, (n+1)*2^-23*sum for raw f32 summation");
    ck.assume("Temperature t is 0 or in [1e-30, 1e6] (for subnormal/huge t, x*(1/t) and the documented x/t differ by design of f32)");
    ck.assume("candidate ids are distinct (as produced by Logits::dense and by every rten filter)");
    ck.set_threads(12);

    let n = ck.pick(60_000, 3_000_000);
    ck.prop("topk", n, || single(any_raw(0), f_topk()), oracle);
    ck.prop("topp-default", n / 2, || single(any_raw(0), p_val().prop_map(F::TopPDefault)), oracle);
    ck.prop(
        "topp-normalize",
        n / 2,
        || single(any_raw(0), p_val().prop_map(|p| F::TopPNorm(p, true))),
        oracle,
    );
    ck.prop(
        "topp-probabilities",
        n / 2,
        || {
            single(
                prop_oneof![4 => prob_input(0, MAX_LEN), 2 => prob_input(0, 6), 1 => any_raw(0)],
                p_val().prop_map(|p| F::TopPNorm(p, false)),
            )
        },
        oracle,
    );
    ck.prop(
        "temperature-sort",
        n / 4,
        || single(any_raw(0), prop_oneof![4 => t_val().prop_map(F::Temp), 1 => Just(F::Sort)]),
        oracle,
    );
    ck.prop(
        "chain",
        n,
        || {
            (
                prop_oneof![3 => any_raw(0), 1 => prob_input(0, MAX_LEN)],
                proptest::collection::vec(f_any(), 0..=4),
            )
                .prop_map(|(input, chain)| Case { input, chain })
        },
        oracle,
    );
    ck.finish();
}

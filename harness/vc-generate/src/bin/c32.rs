//! C32 — the generator feeds the model a consistent token history.
//!
//! Model-based test. A history (optional `with_prompt`, then up to 24 of
//! `append_prompt`, `next()`, `process_prompt()`, `clear_prompt()`) is run
//! against `rten_generate::Generator` driving a mock implementation of the
//! public `rten_generate::model::Model` trait. The mock records every `run`
//! call (token ids, position ids, cache positions, attention mask, cache flag,
//! every cache tensor, requested outputs), checks that each cache tensor it
//! receives is bit-identical to the one it last returned for that slot, and
//! returns a cache extended by one row per input token (row content encodes
//! the token and slot, so content survives only if the generator preserves it)
//! plus one-hot logits for a fresh token.
//!
//! The oracle is a reference model of the intended state (`pending`, `fed`,
//! `hist`); see `Ref`. Every prompt token and every generated token is unique
//! within a history, so any omission, repeat or re-ordering is visible.

use proptest::prelude::*;
use rten::{Dimension, NodeId, RunOptions, Value, ValueOrView, ValueView};
use rten_generate::filter::LogitsFilter;
use rten_generate::model::{Model, NodeInfo};
use rten_generate::{Generator, GeneratorConfig, Logits, ModelInputsConfig};
use rten_tensor::prelude::*;
use rten_tensor::Tensor;
use serde::{Deserialize, Serialize};
use std::cell::RefCell;
use std::error::Error;
use std::rc::Rc;
use vcore::{Check, Verdict};

// ---------------------------------------------------------------------------
// Case
// ---------------------------------------------------------------------------

#[derive(Clone, Copy, Debug, Serialize, Deserialize, PartialEq)]
enum Kv {
    /// no KV-cache inputs: the whole sequence is fed on every run
    None,
    /// decoder cache, `[batch, seq, chans]`
    Dec3,
    /// decoder cache, `[batch, heads, seq, chans]`
    Dec4,
    /// encoder + decoder caches (Optimum "merged" decoder) with `use_cache_branch`
    EncDec,
}

#[derive(Clone, Debug, Serialize, Deserialize, PartialEq)]
struct Shape {
    kv: Kv,
    position_ids: bool,
    attention_mask: bool,
    cache_position: bool,
    /// number of layers (each has a key and a value slot)
    layers: u8,
    /// the mock appends to an incoming cache buffer in place when it has spare
    /// capacity (what rten's Concat does) instead of allocating a new tensor
    in_place: bool,
    /// `GeneratorConfig::kv_cache_capacity`
    capacity: Option<u8>,
}

#[derive(Clone, Debug, Serialize, Deserialize, PartialEq)]
enum Op {
    /// `append_prompt` with this many fresh tokens
    Append(u8),
    /// `Iterator::next`
    Next,
    /// `process_prompt`
    Process,
    /// `clear_prompt`
    Clear,
}

#[derive(Clone, Debug, Serialize, Deserialize)]
struct Case {
    shape: Shape,
    /// `with_prompt` with this many fresh tokens, as the first call
    with_prompt: Option<u8>,
    ops: Vec<Op>,
}

const HEADS: usize = 2;
const CHANS: usize = 3;
const ENC_LEN: usize = 4;
const VOCAB: usize = 64;
const PROMPT_BASE: u32 = 1000;

// ---------------------------------------------------------------------------
// Mock model
// ---------------------------------------------------------------------------

#[derive(Clone, Debug, PartialEq)]
struct T32 {
    shape: Vec<usize>,
    data: Vec<i32>,
}

#[derive(Clone, Debug, Default)]
struct Call {
    ids: Option<T32>,
    position_ids: Option<T32>,
    cache_position: Option<T32>,
    attention_mask: Option<T32>,
    use_cache: Option<T32>,
    /// sequence length of each decoder cache slot received
    dec_in_len: Vec<usize>,
    want_logits: bool,
    /// token the returned logits select (if logits were requested)
    token: Option<u32>,
    /// protocol problems the mock saw: (signature, detail)
    problems: Vec<(String, String)>,
}

#[derive(Clone, Copy, Debug, PartialEq)]
enum Role {
    InputIds,
    PositionIds,
    CachePosition,
    AttentionMask,
    UseCache,
    DecIn(usize),
    EncIn(usize),
    Logits,
    DecOut(usize),
    EncOut(usize),
}

struct MockState {
    calls: Vec<Call>,
    /// last tensor returned for each decoder slot: (shape, data)
    last_dec: Vec<Option<(Vec<usize>, Vec<f32>)>>,
    /// last non-empty tensor returned for each encoder slot
    last_enc: Vec<Option<(Vec<usize>, Vec<f32>)>>,
    in_place_appends: u64,
}

struct Mock {
    nodes: Vec<(NodeInfo, Role)>,
    input_ids: Vec<NodeId>,
    four_d: bool,
    in_place: bool,
    st: RefCell<MockState>,
}

fn nid(i: usize) -> NodeId {
    NodeId::from_u32(i as u32)
}

impl Mock {
    fn new(shape: &Shape) -> Mock {
        let mut inputs: Vec<(NodeInfo, Role)> = vec![(NodeInfo::from_name_shape("input_ids", &[]), Role::InputIds)];
        if shape.cache_position {
            inputs.push((NodeInfo::from_name_shape("cache_position", &[]), Role::CachePosition));
        }
        if shape.position_ids {
            inputs.push((NodeInfo::from_name_shape("position_ids", &[]), Role::PositionIds));
        }
        if shape.attention_mask {
            inputs.push((NodeInfo::from_name_shape("attention_mask", &[]), Role::AttentionMask));
        }
        let mut outputs: Vec<(NodeInfo, Role)> = vec![(NodeInfo::from_name_shape("logits", &[]), Role::Logits)];
        let four_d = matches!(shape.kv, Kv::Dec4 | Kv::EncDec);
        let dims4 = [
            Dimension::Symbolic("batch".into()),
            Dimension::Fixed(HEADS),
            Dimension::Symbolic("seq".into()),
            Dimension::Fixed(CHANS),
        ];
        let dims3 = [
            Dimension::Symbolic("batch".into()),
            Dimension::Symbolic("seq".into()),
            Dimension::Fixed(CHANS),
        ];
        let dims: &[Dimension] = if four_d { &dims4 } else { &dims3 };
        let (mut n_dec, mut n_enc) = (0, 0);
        if shape.kv != Kv::None {
            for layer in 0..shape.layers.max(1) {
                for kind in ["key", "value"] {
                    if shape.kv == Kv::EncDec {
                        inputs.push((
                            NodeInfo::from_name_shape(&format!("past_key_values.{layer}.decoder.{kind}"), dims),
                            Role::DecIn(n_dec),
                        ));
                        outputs.push((
                            NodeInfo::from_name_shape(&format!("present.{layer}.decoder.{kind}"), dims),
                            Role::DecOut(n_dec),
                        ));
                        n_dec += 1;
                        inputs.push((
                            NodeInfo::from_name_shape(&format!("past_key_values.{layer}.encoder.{kind}"), dims),
                            Role::EncIn(n_enc),
                        ));
                        outputs.push((
                            NodeInfo::from_name_shape(&format!("present.{layer}.encoder.{kind}"), dims),
                            Role::EncOut(n_enc),
                        ));
                        n_enc += 1;
                    } else {
                        inputs.push((
                            NodeInfo::from_name_shape(&format!("past_key_values.{layer}.{kind}"), dims),
                            Role::DecIn(n_dec),
                        ));
                        outputs.push((
                            NodeInfo::from_name_shape(&format!("present.{layer}.{kind}"), dims),
                            Role::DecOut(n_dec),
                        ));
                        n_dec += 1;
                    }
                }
            }
            if shape.kv == Kv::EncDec {
                inputs.push((NodeInfo::from_name_shape("use_cache_branch", &[]), Role::UseCache));
            }
        }
        let input_ids = (0..inputs.len()).map(nid).collect();
        let mut nodes = inputs;
        nodes.extend(outputs);
        Mock {
            nodes,
            input_ids,
            four_d,
            in_place: shape.in_place,
            st: RefCell::new(MockState {
                calls: Vec::new(),
                last_dec: vec![None; n_dec],
                last_enc: vec![None; n_enc],
                in_place_appends: 0,
            }),
        }
    }

    fn seq_axis(&self) -> usize {
        if self.four_d {
            2
        } else {
            1
        }
    }

    /// Rows appended to decoder slot `slot` for `tokens`: shape
    /// `[1, (HEADS,) tokens.len(), CHANS]`, every element encodes the token,
    /// the slot, the head and the channel (exact in f32).
    fn new_rows(&self, slot: usize, tokens: &[i32]) -> Tensor<f32> {
        let val = |tok: i32, h: usize, c: usize| (tok as f32) * 256.0 + (slot * 16 + h * 4 + c) as f32;
        if self.four_d {
            let mut data = Vec::new();
            for h in 0..HEADS {
                for t in tokens {
                    for c in 0..CHANS {
                        data.push(val(*t, h, c));
                    }
                }
            }
            Tensor::from_data(&[1, HEADS, tokens.len(), CHANS], data)
        } else {
            let mut data = Vec::new();
            for t in tokens {
                for c in 0..CHANS {
                    data.push(val(*t, 0, c));
                }
            }
            Tensor::from_data(&[1, tokens.len(), CHANS], data)
        }
    }
}

fn int_tensor(v: &ValueOrView) -> Option<T32> {
    let view: ValueView = match v {
        ValueOrView::View(v) => v.clone(),
        ValueOrView::Value(v) => v.as_view(),
    };
    match view {
        ValueView::Int32Tensor(t) => Some(T32 { shape: t.shape().to_vec(), data: t.iter().copied().collect() }),
        _ => None,
    }
}

impl Model for Mock {
    fn find_node(&self, name: &str) -> Option<NodeId> {
        self.nodes.iter().position(|(info, _)| info.name() == name).map(nid)
    }

    fn node_info(&self, id: NodeId) -> Option<NodeInfo> {
        self.nodes.get(id.as_usize()).map(|(i, _)| i.clone())
    }

    fn input_ids(&self) -> &[NodeId] {
        &self.input_ids
    }

    fn run(
        &self,
        inputs: Vec<(NodeId, ValueOrView)>,
        outputs: &[NodeId],
        _opts: Option<RunOptions>,
    ) -> Result<Vec<Value>, Box<dyn Error>> {
        let mut st = self.st.borrow_mut();
        let serial = st.calls.len() as u32;
        let mut call = Call::default();
        let n_in = self.input_ids.len();
        let mut seen = vec![0u32; n_in];
        let mut dec_in: Vec<Option<Tensor<f32>>> = (0..st.last_dec.len()).map(|_| None).collect();
        let mut enc_in: Vec<Option<(Vec<usize>, Vec<f32>)>> = vec![None; st.last_enc.len()];
        for (id, v) in inputs {
            let idx = id.as_usize();
            if idx >= n_in {
                call.problems.push(("model-input:not-an-input".into(), format!("node {idx} passed as input")));
                continue;
            }
            seen[idx] += 1;
            match self.nodes[idx].1 {
                Role::InputIds => call.ids = int_tensor(&v),
                Role::PositionIds => call.position_ids = int_tensor(&v),
                Role::CachePosition => call.cache_position = int_tensor(&v),
                Role::AttentionMask => call.attention_mask = int_tensor(&v),
                Role::UseCache => call.use_cache = int_tensor(&v),
                Role::DecIn(slot) => {
                    let t: Option<Tensor<f32>> = match v {
                        ValueOrView::Value(Value::FloatTensor(t)) => Some(t),
                        ValueOrView::View(ValueView::FloatTensor(t)) => Some(t.to_tensor()),
                        _ => None,
                    };
                    if t.is_none() {
                        call.problems.push(("kv-cache:wrong-type".into(), format!("decoder cache slot {slot} is not a float tensor")));
                    }
                    dec_in[slot] = t;
                }
                Role::EncIn(slot) => {
                    let view: ValueView = match &v {
                        ValueOrView::View(v) => v.clone(),
                        ValueOrView::Value(v) => v.as_view(),
                    };
                    if let ValueView::FloatTensor(t) = view {
                        enc_in[slot] = Some((t.shape().to_vec(), t.iter().copied().collect()));
                    } else {
                        call.problems.push(("encoder-cache:wrong-type".into(), format!("encoder cache slot {slot} is not a float tensor")));
                    }
                }
                _ => {}
            }
        }
        for (idx, n) in seen.iter().enumerate() {
            if *n == 0 {
                call.problems.push((
                    "model-input:missing".into(),
                    format!("input `{}` was not supplied in run #{serial}", self.nodes[idx].0.name()),
                ));
            } else if *n > 1 {
                call.problems.push((
                    "model-input:duplicate".into(),
                    format!("input `{}` was supplied {n} times in run #{serial}", self.nodes[idx].0.name()),
                ));
            }
        }
        let tokens: Vec<i32> = call.ids.as_ref().map(|t| t.data.clone()).unwrap_or_default();
        let flag = call.use_cache.as_ref().and_then(|t| t.data.first().copied());

        // The decoder cache handed in must be the one last returned.
        let axis = self.seq_axis();
        for (slot, t) in dec_in.iter().enumerate() {
            let Some(t) = t else { continue };
            call.dec_in_len.push(t.size(axis));
            let got = (t.shape().to_vec(), t.iter().copied().collect::<Vec<f32>>());
            match &st.last_dec[slot] {
                Some(prev) => {
                    if *prev != got {
                        call.problems.push((
                            "kv-cache:not-the-one-last-returned".into(),
                            format!(
                                "run #{serial}: decoder cache slot {slot} has shape {:?}, the one last returned had shape {:?}{}",
                                got.0,
                                prev.0,
                                if got.0 == prev.0 { " (contents differ)" } else { "" }
                            ),
                        ));
                    }
                }
                None => {
                    let mut want = if self.four_d { vec![1, HEADS, 0, CHANS] } else { vec![1, 0, CHANS] };
                    if got.0 != want {
                        want[axis] = 0;
                        call.problems.push((
                            "kv-cache:initial-not-empty".into(),
                            format!("run #{serial}: initial decoder cache slot {slot} has shape {:?}, expected {:?}", got.0, want),
                        ));
                    }
                }
            }
        }
        // The encoder cache is only read on the cached branch (flag == 1).
        if flag == Some(1) {
            for (slot, t) in enc_in.iter().enumerate() {
                let Some(got) = t else { continue };
                match &st.last_enc[slot] {
                    Some(prev) if prev == got => {}
                    Some(prev) => call.problems.push((
                        "encoder-cache:not-the-one-returned".into(),
                        format!("run #{serial}: encoder cache slot {slot} has shape {:?}, the one returned had shape {:?}", got.0, prev.0),
                    )),
                    None => call.problems.push((
                        "encoder-cache:cached-branch-before-first-run".into(),
                        format!("run #{serial}: use_cache_branch=1 but no encoder cache was ever returned"),
                    )),
                }
            }
        }

        // Outputs.
        let mut result = Vec::new();
        let mut requested = vec![0u32; self.nodes.len()];
        for id in outputs {
            let idx = id.as_usize();
            if idx < n_in || idx >= self.nodes.len() {
                return Err(format!("invalid output id {idx}").into());
            }
            requested[idx] += 1;
            match self.nodes[idx].1 {
                Role::Logits => {
                    call.want_logits = true;
                    // one-hot logits; the last position selects a token that is
                    // unique to this run, earlier positions select decoys
                    let n = tokens.len();
                    let token = serial + 1;
                    let mut data = vec![0f32; n * VOCAB];
                    for pos in 0..n {
                        let t = if pos + 1 == n { token as usize } else { VOCAB - 1 - (pos % 8) };
                        data[pos * VOCAB + t] = 1.0;
                    }
                    call.token = Some(token);
                    result.push(Value::FloatTensor(Tensor::from_data(&[1, n, VOCAB], data)));
                }
                Role::DecOut(slot) => {
                    let rows = self.new_rows(slot, &tokens);
                    let out: Tensor<f32> = match dec_in[slot].take() {
                        Some(mut t) => {
                            let new_len = t.size(axis) + tokens.len();
                            if self.in_place && t.has_capacity(axis, new_len) && t.append(axis, &rows).is_ok() {
                                st.in_place_appends += 1;
                                t
                            } else {
                                let mut shape = t.shape().to_vec();
                                shape[axis] = new_len;
                                let mut fresh = Tensor::with_capacity(&shape, axis);
                                fresh.append(axis, &t).expect("copy cache");
                                fresh.append(axis, &rows).expect("append rows");
                                fresh
                            }
                        }
                        None => rows,
                    };
                    st.last_dec[slot] = Some((out.shape().to_vec(), out.iter().copied().collect()));
                    result.push(Value::FloatTensor(out));
                }
                Role::EncOut(slot) => {
                    if flag == Some(1) {
                        // cached branch: dummy empty output, must be ignored
                        result.push(Value::FloatTensor(Tensor::zeros(&[1, HEADS, ENC_LEN, 0])));
                    } else {
                        let data: Vec<f32> = (0..HEADS * ENC_LEN * CHANS)
                            .map(|i| (serial as f32) * 4096.0 + (slot * 256 + i) as f32)
                            .collect();
                        let shape = vec![1, HEADS, ENC_LEN, CHANS];
                        st.last_enc[slot] = Some((shape.clone(), data.clone()));
                        result.push(Value::FloatTensor(Tensor::from_data(&shape, data)));
                    }
                }
                _ => return Err(format!("node {idx} is not an output").into()),
            }
        }
        // Every cache output must be requested exactly once in each run.
        for (idx, (info, role)) in self.nodes.iter().enumerate() {
            if matches!(role, Role::DecOut(_) | Role::EncOut(_)) && requested[idx] != 1 {
                call.problems.push((
                    "model-output:cache-output-not-requested-once".into(),
                    format!("run #{serial}: output `{}` requested {} times", info.name(), requested[idx]),
                ));
            }
        }
        st.calls.push(call);
        Ok(result)
    }

    fn partial_run(
        &self,
        _inputs: Vec<(NodeId, ValueOrView)>,
        _outputs: &[NodeId],
        _opts: Option<RunOptions>,
    ) -> Result<Vec<(NodeId, Value)>, Box<dyn Error>> {
        Ok(Vec::new())
    }
}

// ---------------------------------------------------------------------------
// Reference model and interpreter
// ---------------------------------------------------------------------------

#[derive(Clone, Copy, Debug, PartialEq)]
struct Tok {
    id: u32,
    /// already part of the recorded history
    recorded: bool,
}

#[derive(Clone, Copy, Debug, PartialEq)]
struct HistEntry {
    id: u32,
    /// a prompt token first submitted in a run that started with a non-empty
    /// history (only used to attribute a failure)
    later_prompt: bool,
}

#[derive(Default)]
struct Ref {
    /// tokens the next run must submit
    pending: Vec<Tok>,
    /// tokens the model has consumed into its KV cache, by position
    fed: Vec<u32>,
    /// every token submitted to or produced by the model, in order, once
    hist: Vec<HistEntry>,
    next_prompt: u32,
}

impl Ref {
    fn fresh_prompt(&mut self, n: u8) -> Vec<u32> {
        (0..n)
            .map(|_| {
                let t = PROMPT_BASE + self.next_prompt;
                self.next_prompt += 1;
                t
            })
            .collect()
    }
    fn submit(&mut self) {
        let later = !self.hist.is_empty();
        for t in self.pending.iter_mut() {
            if !t.recorded {
                t.recorded = true;
                self.hist.push(HistEntry { id: t.id, later_prompt: later });
            }
        }
    }
}

struct RecordingFilter {
    seen: Rc<RefCell<Vec<Vec<u32>>>>,
}

impl LogitsFilter for RecordingFilter {
    fn filter(&self, logits: Logits, prev_tokens: &[u32]) -> Logits {
        self.seen.borrow_mut().push(prev_tokens.to_vec());
        logits
    }
}

#[derive(Clone, Copy, PartialEq)]
enum Mode {
    /// model inputs, caches, prompt(), kv_cache_len(), returned tokens
    Inputs,
    /// prev_tokens() and the prev_tokens seen by the logits filter
    PrevTokens,
}

fn hist_fault(what: &str, expected: &[HistEntry], actual: &[u32], ctx: &str) -> Option<(String, String)> {
    let exp_ids: Vec<u32> = expected.iter().map(|h| h.id).collect();
    if exp_ids == actual {
        return None;
    }
    // Is `actual` the expected history with only later-prompt tokens missing?
    let mut j = 0;
    let mut only_later_missing = true;
    for h in expected {
        if j < actual.len() && actual[j] == h.id {
            j += 1;
        } else if !h.later_prompt {
            only_later_missing = false;
        }
    }
    let class = if j == actual.len() && only_later_missing {
        "later-prompt-tokens-missing"
    } else {
        "mismatch"
    };
    Some((
        format!("{what}:{class}"),
        format!("{ctx}: expected {exp_ids:?} (every token submitted to or produced by the model, in order), got {actual:?}"),
    ))
}

fn i32s(v: &[u32]) -> Vec<i32> {
    v.iter().map(|x| *x as i32).collect()
}

fn run_history(c: &Case, mode: Mode) -> Verdict {
    let mut labels: Vec<&'static str> = Vec::new();
    let mock = Mock::new(&c.shape);
    let has_kv = c.shape.kv != Kv::None;
    labels.push(match c.shape.kv {
        Kv::None => "kv:none",
        Kv::Dec3 => "kv:decoder-3d",
        Kv::Dec4 => "kv:decoder-4d",
        Kv::EncDec => "kv:encoder+decoder",
    });
    let cfg = GeneratorConfig {
        model_inputs: ModelInputsConfig::default(),
        kv_cache_capacity: c.shape.capacity.map(|x| x as usize),
    };
    let mut generator = match Generator::from_model_config(&mock, cfg) {
        Ok(g) => g,
        Err(e) => return Verdict::fail("from_model_config:error", format!("{e}")),
    };
    let seen_by_filter = Rc::new(RefCell::new(Vec::new()));
    generator = generator.with_logits_filter(RecordingFilter { seen: seen_by_filter.clone() });

    let mut r = Ref::default();
    let mut faults: Vec<(Mode, String, String)> = Vec::new();
    let mut calls_seen = 0usize;
    let mut next_done = false;
    let mut append_after_next_pending = false;
    let mut nontrivial = false;

    if let Some(n) = c.with_prompt {
        let toks = r.fresh_prompt(n);
        generator = generator.with_prompt(&toks);
        r.pending = toks.iter().map(|id| Tok { id: *id, recorded: false }).collect();
        labels.push("with_prompt");
    }

    for (step, op) in c.ops.iter().enumerate() {
        let ctx = format!("after op #{step} {op:?}");
        let mut expect_run: Option<bool> = None; // Some(want_logits)
        match op {
            Op::Append(n) => {
                let toks = r.fresh_prompt(*n);
                generator.append_prompt(&toks);
                r.pending.extend(toks.iter().map(|id| Tok { id: *id, recorded: false }));
                if next_done && *n > 0 {
                    append_after_next_pending = true;
                    labels.push("append-after-next");
                }
            }
            Op::Clear => {
                generator.clear_prompt();
                if r.pending.iter().any(|t| t.recorded) && has_kv {
                    labels.push("clear-drops-sampled-token");
                }
                r.pending.clear();
                append_after_next_pending = false;
            }
            Op::Process => {
                if r.pending.is_empty() {
                    labels.push("process-with-empty-prompt");
                }
                if let Err(e) = generator.process_prompt() {
                    return Verdict::fail("process_prompt:error", format!("{ctx}: {e}"));
                }
                expect_run = Some(false);
            }
            Op::Next => {
                if r.pending.is_empty() {
                    // no last position to sample from: outside the domain
                    labels.push("next-skipped:empty-prompt");
                    continue;
                }
                let got = match generator.next() {
                    Some(Ok(t)) => t,
                    Some(Err(e)) => return Verdict::fail("next:error", format!("{ctx}: {e}")),
                    None => return Verdict::fail("next:none", format!("{ctx}: iterator ended")),
                };
                expect_run = Some(true);
                next_done = true;
                // what the model produced in the run that must just have happened
                let produced = mock.st.borrow().calls.last().and_then(|c| c.token);
                if produced != Some(got) {
                    faults.push((
                        Mode::Inputs,
                        "next:token-not-the-one-the-model-produced".into(),
                        format!("{ctx}: next() returned {got}, the model's logits selected {produced:?}"),
                    ));
                }
                // bookkeeping continues below (needs the run check first)
                let _ = got;
            }
        }

        if let Some(want_logits) = expect_run {
            if append_after_next_pending {
                nontrivial = true;
                append_after_next_pending = false;
            }
            let st = mock.st.borrow();
            if st.calls.len() != calls_seen + 1 {
                return Verdict::fail(
                    "model-runs:count",
                    format!("{ctx}: expected exactly one model run, saw {}", st.calls.len() - calls_seen),
                );
            }
            let call = &st.calls[calls_seen];
            calls_seen += 1;
            for (sig, detail) in &call.problems {
                faults.push((Mode::Inputs, sig.clone(), format!("{ctx}: {detail}")));
            }
            let pend: Vec<u32> = r.pending.iter().map(|t| t.id).collect();
            let n = pend.len();
            let start = if has_kv { r.fed.len() } else { 0 };
            let exp_ids = T32 { shape: vec![1, n], data: i32s(&pend) };
            if call.ids.as_ref() != Some(&exp_ids) {
                faults.push((
                    Mode::Inputs,
                    "model-input:input_ids".into(),
                    format!(
                        "{ctx}: run #{} should receive the pending tokens {:?} (already fed: {:?}), got {:?}",
                        calls_seen - 1,
                        pend,
                        r.fed,
                        call.ids
                    ),
                ));
            }
            let exp_pos: Vec<i32> = (start..start + n).map(|x| x as i32).collect();
            if c.shape.position_ids && call.position_ids != Some(T32 { shape: vec![1, n], data: exp_pos.clone() }) {
                faults.push((
                    Mode::Inputs,
                    "model-input:position_ids".into(),
                    format!("{ctx}: expected positions {exp_pos:?}, got {:?}", call.position_ids),
                ));
            }
            if c.shape.cache_position && call.cache_position != Some(T32 { shape: vec![n], data: exp_pos.clone() }) {
                faults.push((
                    Mode::Inputs,
                    "model-input:cache_position".into(),
                    format!("{ctx}: expected positions {exp_pos:?}, got {:?}", call.cache_position),
                ));
            }
            if c.shape.attention_mask && call.attention_mask != Some(T32 { shape: vec![1, start + n], data: vec![1; start + n] }) {
                faults.push((
                    Mode::Inputs,
                    "model-input:attention_mask".into(),
                    format!("{ctx}: expected [1, {}] ones, got {:?}", start + n, call.attention_mask),
                ));
            }
            if c.shape.kv == Kv::EncDec {
                let exp = if r.fed.is_empty() { 0 } else { 1 };
                if call.use_cache != Some(T32 { shape: vec![], data: vec![exp] }) {
                    faults.push((
                        Mode::Inputs,
                        "model-input:use_cache_branch".into(),
                        format!("{ctx}: expected {exp} ({} tokens in the cache), got {:?}", r.fed.len(), call.use_cache),
                    ));
                }
            }
            if has_kv && call.dec_in_len.iter().any(|l| *l != r.fed.len()) {
                faults.push((
                    Mode::Inputs,
                    "kv-cache:length".into(),
                    format!("{ctx}: {} tokens were fed so far but the cache slots have lengths {:?}", r.fed.len(), call.dec_in_len),
                ));
            }
            if call.want_logits != want_logits {
                faults.push((
                    Mode::Inputs,
                    "model-output:logits-request".into(),
                    format!("{ctx}: logits requested = {}, expected {}", call.want_logits, want_logits),
                ));
            }
            let produced = call.token;
            drop(st);

            // state transition of the reference
            r.submit();
            if has_kv {
                r.fed.extend(pend.iter());
                r.pending.clear();
            }
            if want_logits {
                // the filter sees the history including the tokens just submitted
                let seen = seen_by_filter.borrow();
                if let Some(f) = hist_fault(
                    "prev_tokens",
                    &r.hist,
                    seen.last().map(|v| v.as_slice()).unwrap_or(&[]),
                    &format!("{ctx}: prev_tokens passed to the logits filter"),
                ) {
                    faults.push((Mode::PrevTokens, f.0, f.1));
                }
                drop(seen);
                if let Some(t) = produced {
                    r.hist.push(HistEntry { id: t, later_prompt: false });
                    r.pending.push(Tok { id: t, recorded: true });
                }
            }
        } else if mock.st.borrow().calls.len() != calls_seen {
            return Verdict::fail("model-runs:count", format!("{ctx}: the model was run by an operation that must not run it"));
        }

        // observable state after every operation
        let pend: Vec<u32> = r.pending.iter().map(|t| t.id).collect();
        if generator.prompt() != pend.as_slice() {
            faults.push((
                Mode::Inputs,
                "prompt():mismatch".into(),
                format!("{ctx}: prompt() = {:?}, expected pending tokens {:?}", generator.prompt(), pend),
            ));
        }
        let exp_len = if has_kv { Some(r.fed.len()) } else { None };
        if generator.kv_cache_len() != exp_len {
            faults.push((
                Mode::Inputs,
                "kv_cache_len():mismatch".into(),
                format!("{ctx}: kv_cache_len() = {:?}, expected {:?}", generator.kv_cache_len(), exp_len),
            ));
        }
        if let Some(f) = hist_fault("prev_tokens", &r.hist, generator.prev_tokens(), &format!("{ctx}: prev_tokens()")) {
            faults.push((Mode::PrevTokens, f.0, f.1));
        }
        if let Some((_, sig, detail)) = faults.iter().find(|f| f.0 == mode) {
            return Verdict::fail(sig.clone(), format!("{detail}  [model {:?}, with_prompt {:?}, ops {:?}]", c.shape, c.with_prompt, &c.ops[..=step]));
        }
    }
    if mock.st.borrow().in_place_appends > 0 {
        labels.push("cache-appended-in-place");
    }
    if r.fed.len() >= 9 {
        labels.push("cache-len>=9");
    }
    if calls_seen >= 2 {
        labels.push("runs>=2");
    }
    labels.sort();
    labels.dedup();
    Verdict::pass_l(nontrivial, labels)
}

// ---------------------------------------------------------------------------
// Strategies
// ---------------------------------------------------------------------------

fn shape() -> impl Strategy<Value = Shape> {
    (
        prop_oneof![Just(Kv::None), Just(Kv::Dec3), Just(Kv::Dec4), Just(Kv::EncDec)],
        any::<bool>(),
        any::<bool>(),
        any::<bool>(),
        1u8..=2,
        any::<bool>(),
        prop_oneof![2 => Just(None), 1 => (0u8..=40).prop_map(Some)],
    )
        .prop_map(|(kv, position_ids, attention_mask, cache_position, layers, in_place, capacity)| Shape {
            kv,
            position_ids,
            attention_mask,
            cache_position,
            layers,
            in_place,
            capacity,
        })
}

fn op() -> impl Strategy<Value = Op> {
    prop_oneof![
        3 => (0u8..=4).prop_map(Op::Append),
        4 => Just(Op::Next),
        2 => Just(Op::Process),
        1 => Just(Op::Clear),
    ]
}

fn case() -> impl Strategy<Value = Case> {
    (shape(), proptest::option::weighted(0.8, 0u8..=4), proptest::collection::vec(op(), 0..25))
        .prop_map(|(shape, with_prompt, ops)| Case { shape, with_prompt, ops })
}

fn main() {
    vc_generate::fast_slot_dir();
    let mut ck = Check::new("C32");
    ck.rule(
        "Case = (mock model shape, optional with_prompt(len 0..=4) as first call, vec(op, 0..25) over {append_prompt(len 0..=4), next(), \
         process_prompt(), clear_prompt()}). Model shapes: no KV cache / decoder cache 3-d / decoder cache 4-d / encoder+decoder cache \
         with use_cache_branch; 1-2 layers; position_ids, attention_mask, cache_position inputs each present or absent; \
         kv_cache_capacity None or 0..=40; mock appends in place or reallocates. Prompt tokens are fresh unique ids (1000, 1001, ...), \
         generated tokens are unique per run. next() with nothing pending is skipped (no last position to sample). \
         Non-trivial = an append_prompt of >= 1 token after a next(), followed by a run (next/process_prompt) that submits it. \
         Distinct = distinct Debug rendering of the case. Sub-check `inputs` judges what the model receives (ids, positions, masks, \
         caches, outputs requested), prompt(), kv_cache_len() and returned tokens; `prev-tokens` judges prev_tokens() and the prev_tokens \
         handed to the logits filter.",
    );
    ck.assume("the mock implements the public rten_generate::model::Model trait with Optimum-style input/output names, as rten_generate's own tests do");
    ck.assume("'recorded previous tokens' = each token once, when first submitted to (prompt tokens) or produced by (sampled tokens) the model; a model without KV cache is re-fed the whole pending sequence and this does not re-record it");
    ck.assume("next() is only called with at least one pending token");
    ck.set_threads(12);

    let n = ck.pick(150_000, 3_000_000);
    ck.prop("inputs", n, case, |c| run_history(c, Mode::Inputs));
    ck.prop("prev-tokens", n, case, |c| run_history(c, Mode::PrevTokens));
    ck.finish();
}

//! Shared generators and reference relations for the rten-generate checks
//! (C31 logit filters, C33 samplers). C32 (generator history) is self-contained
//! in `src/bin/c32.rs`.

use proptest::prelude::*;
use rten_generate::Logits;
use serde::{Deserialize, Serialize};

// ---------------------------------------------------------------------------
// Scores that survive a JSON round trip (NaN / inf included)
// ---------------------------------------------------------------------------

/// A logit value. Kept symbolic so that replay files can hold NaN and
/// infinities and so that shrinking converges towards `S(0)`.
#[derive(Clone, Copy, Debug, Serialize, Deserialize, PartialEq)]
pub enum V {
    /// `k * 0.5`: a small grid, produces many ties.
    S(i8),
    /// Index into [`SPECIALS`].
    X(u8),
    /// Moderate finite value `m / 1024` (|value| < 32).
    M(i16),
    /// Arbitrary bit pattern.
    B(u32),
}

pub const SPECIALS: [u32; 18] = [
    0x7fc0_0000, // +NaN
    0xffc0_0000, // -NaN
    0x7f80_0000, // +inf
    0xff80_0000, // -inf
    0x0000_0000, // +0
    0x8000_0000, // -0
    0x7f7f_ffff, // f32::MAX
    0xff7f_ffff, // f32::MIN
    0x0080_0000, // MIN_POSITIVE
    0x0000_0001, // smallest subnormal
    0x8000_0001, // -smallest subnormal
    0x42b0_0000, // 88.0   (exp overflow boundary)
    0xc2b0_0000, // -88.0
    0x42c8_0000, // 100
    0xc2c8_0000, // -100
    0xc47a_0000, // -1000
    0x7fa0_0001, // signalling-style +NaN with payload
    0x3f80_0001, // 1 + ulp
];
/// Indices of `SPECIALS` that are NaN or +inf ("undefined probability").
pub const IDX_NEG_INF: u8 = 3;

impl V {
    pub fn f(self) -> f32 {
        match self {
            V::S(k) => k as f32 * 0.5,
            V::X(i) => f32::from_bits(SPECIALS[i as usize % SPECIALS.len()]),
            V::M(m) => m as f32 / 1024.0,
            V::B(b) => f32::from_bits(b),
        }
    }
}

/// Every kind of value: NaN (both signs), infinities, zeros, ties, extremes.
pub fn v_full() -> impl Strategy<Value = V> {
    prop_oneof![
        5 => (-6i8..=6).prop_map(V::S),
        3 => (0u8..SPECIALS.len() as u8).prop_map(V::X),
        3 => any::<i16>().prop_map(V::M),
        1 => any::<u32>().prop_map(V::B),
    ]
}

/// Finite values only (no NaN, no infinities), with ties and large spreads.
pub fn v_finite() -> impl Strategy<Value = V> {
    prop_oneof![
        5 => (-6i8..=6).prop_map(V::S),
        2 => prop_oneof![Just(4u8), Just(5), Just(6), Just(7), Just(8), Just(9), Just(10), Just(11), Just(12), Just(13), Just(14), Just(15), Just(17)].prop_map(V::X),
        4 => any::<i16>().prop_map(V::M),
    ]
}

/// Finite values or -inf.
pub fn v_finite_or_neg_inf() -> impl Strategy<Value = V> {
    prop_oneof![
        4 => v_finite(),
        1 => Just(V::X(IDX_NEG_INF)),
    ]
}

// ---------------------------------------------------------------------------
// Logits inputs
// ---------------------------------------------------------------------------

/// How token ids are assigned.
#[derive(Clone, Copy, Debug, Serialize, Deserialize, PartialEq)]
pub enum Ids {
    /// `Logits::dense`: ids 0..n.
    Dense,
    /// `Logits::sparse` with distinct, non-monotonic ids `salt*128 + position`.
    Sparse,
    /// As `Sparse`, shifted to the top of the u32 range.
    SparseHigh,
}

#[derive(Clone, Debug, Serialize, Deserialize, PartialEq)]
pub enum Input {
    /// Arbitrary scores.
    Raw { items: Vec<(V, u16)>, ids: Ids },
    /// A probability vector: `w_i / sum(w)` (non-negative, sums to 1 within
    /// f32 rounding). All-zero weights are replaced by a uniform vector.
    Prob { weights: Vec<(u16, u16)>, ids: Ids },
}

impl Input {
    pub fn len(&self) -> usize {
        match self {
            Input::Raw { items, .. } => items.len(),
            Input::Prob { weights, .. } => weights.len(),
        }
    }
    pub fn is_empty(&self) -> bool {
        self.len() == 0
    }
    pub fn ids_kind(&self) -> Ids {
        match self {
            Input::Raw { ids, .. } | Input::Prob { ids, .. } => *ids,
        }
    }
    pub fn scores(&self) -> Vec<f32> {
        match self {
            Input::Raw { items, .. } => items.iter().map(|(v, _)| v.f()).collect(),
            Input::Prob { weights, .. } => {
                let sum: f64 = weights.iter().map(|(w, _)| *w as f64).sum();
                if sum == 0.0 {
                    let n = weights.len().max(1);
                    weights.iter().map(|_| (1.0 / n as f64) as f32).collect()
                } else {
                    weights.iter().map(|(w, _)| (*w as f64 / sum) as f32).collect()
                }
            }
        }
    }
    pub fn token_ids(&self) -> Vec<u32> {
        let salts: Vec<u16> = match self {
            Input::Raw { items, .. } => items.iter().map(|(_, s)| *s).collect(),
            Input::Prob { weights, .. } => weights.iter().map(|(_, s)| *s).collect(),
        };
        match self.ids_kind() {
            Ids::Dense => (0..salts.len() as u32).collect(),
            Ids::Sparse => salts.iter().enumerate().map(|(i, s)| *s as u32 * 128 + i as u32).collect(),
            Ids::SparseHigh => salts
                .iter()
                .enumerate()
                .map(|(i, s)| u32::MAX - (*s as u32 * 128 + i as u32))
                .collect(),
        }
    }
    pub fn build(&self) -> Logits {
        match self.ids_kind() {
            Ids::Dense => Logits::dense(self.scores()),
            _ => Logits::sparse(self.scores(), self.token_ids()),
        }
    }
    pub fn pairs(&self) -> Vec<(u32, f32)> {
        self.token_ids().into_iter().zip(self.scores()).collect()
    }
}

pub fn ids_kind() -> impl Strategy<Value = Ids> {
    prop_oneof![2 => Just(Ids::Dense), 2 => Just(Ids::Sparse), 1 => Just(Ids::SparseHigh)]
}

/// Largest SIMD width for f32 that rten-simd can dispatch to (AVX-512).
pub const MAX_LANES: usize = 16;
/// Lengths 0..=4*lanes+3.
pub const MAX_LEN: usize = 4 * MAX_LANES + 3;

pub fn raw_input<S: Strategy<Value = V>>(
    val: impl Fn() -> S,
    min_len: usize,
    max_len: usize,
) -> impl Strategy<Value = Input> {
    (proptest::collection::vec((val(), any::<u16>()), min_len..=max_len), ids_kind())
        .prop_map(|(items, ids)| Input::Raw { items, ids })
}

pub fn prob_input(min_len: usize, max_len: usize) -> impl Strategy<Value = Input> {
    let w = prop_oneof![3 => 0u16..=8, 2 => any::<u16>(), 1 => Just(0u16)];
    (proptest::collection::vec((w, any::<u16>()), min_len..=max_len), ids_kind())
        .prop_map(|(weights, ids)| Input::Prob { weights, ids })
}

pub fn pairs_of(l: &Logits) -> Vec<(u32, f32)> {
    l.indices().iter().copied().zip(l.logits().iter().copied()).collect()
}

/// Render a pair list compactly for failure details.
pub fn show(p: &[(u32, f32)]) -> String {
    let mut s = String::from("[");
    for (i, (id, x)) in p.iter().enumerate() {
        if i > 0 {
            s.push_str(", ");
        }
        if i >= 24 {
            s.push_str(&format!("… {} more", p.len() - i));
            break;
        }
        if x.is_nan() {
            s.push_str(&format!("{id}:{}NaN", if x.is_sign_negative() { "-" } else { "+" }));
        } else {
            s.push_str(&format!("{id}:{x:?}"));
        }
    }
    s.push(']');
    s
}

/// Multiset key of a pair.
pub fn key(p: &(u32, f32)) -> (u32, u32) {
    (p.0, p.1.to_bits())
}

/// Is `sub` a sub-multiset of `sup` (by id and score bits)?
pub fn sub_multiset(sub: &[(u32, f32)], sup: &[(u32, f32)]) -> bool {
    let mut a: Vec<_> = sub.iter().map(key).collect();
    let mut b: Vec<_> = sup.iter().map(key).collect();
    a.sort();
    b.sort();
    let mut j = 0;
    for x in a {
        while j < b.len() && b[j] < x {
            j += 1;
        }
        if j >= b.len() || b[j] != x {
            return false;
        }
        j += 1;
    }
    true
}

/// Reference softmax in f64. `None` when probabilities are undefined: an
/// input is NaN or +inf, or every input is -inf, or the input is empty.
pub fn softmax64(x: &[f32]) -> Option<Vec<f64>> {
    if x.is_empty() || x.iter().any(|v| v.is_nan() || *v == f32::INFINITY) {
        return None;
    }
    let m = x.iter().copied().fold(f32::NEG_INFINITY, f32::max);
    if m == f32::NEG_INFINITY {
        return None;
    }
    let e: Vec<f64> = x.iter().map(|v| ((*v as f64) - (m as f64)).exp()).collect();
    let s: f64 = e.iter().sum();
    Some(e.into_iter().map(|v| v / s).collect())
}

/// Seeds `s` in `0..limit` for which the first `fastrand::Rng::with_seed(s).f32()`
/// draw is `<= lo_max` or `>= hi_min`: the boundary targets of a cumulative
/// distribution walk. Pure enumeration (no randomness of our own).
pub fn boundary_seeds(limit: u64) -> (Vec<u64>, Vec<u64>) {
    let mut zero = Vec::new();
    let mut top = Vec::new();
    let top_val = 1.0 - f32::EPSILON; // largest value f32() can return
    for s in 0..limit {
        let t = fastrand::Rng::with_seed(s).f32();
        if t == 0.0 {
            zero.push(s);
        } else if t >= top_val {
            top.push(s);
        }
    }
    (zero, top)
}

/// vcore records every case in a per-thread slot file under
/// `std::env::temp_dir()` before running it (crash attribution). On this
/// machine's ext4 `/tmp` that costs ~0.5 ms per case; on tmpfs ~50 us. Point
/// the temp dir at `/dev/shm` when it exists and the caller did not choose one.
/// Must be called before `Check::new` (which spawns the supervised child).
pub fn fast_slot_dir() {
    if std::env::var_os("TMPDIR").is_none() && std::path::Path::new("/dev/shm").is_dir() {
        std::env::set_var("TMPDIR", "/dev/shm");
    }
}

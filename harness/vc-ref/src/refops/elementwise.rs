//! Element-wise operators with numpy broadcasting.

use super::*;

fn same_kind(a: &T, b: &T, op: &str) -> Result<(), String> {
    if a.is_f() != b.is_f() {
        return Err(format!("{op}: mixed float/int operands"));
    }
    Ok(())
}

/// Broadcast binary op; result dtype `dt`.
pub fn binary(a: &T, b: &T, dt: DType, ff: &dyn Fn(f64, f64) -> f64, fi: &dyn Fn(i64, i64) -> i64) -> Result<T, String> {
    let shape = bshape(&a.shape, &b.shape)?;
    let n = numel(&shape);
    let to_float_out = dt.is_float();
    let mut of = Vec::new();
    let mut oi = Vec::new();
    for k in 0..n {
        let idx = unravel(k, &shape);
        let ka = bidx(&idx, &a.shape);
        let kb = bidx(&idx, &b.shape);
        if a.is_f() || b.is_f() {
            let v = ff(a.val(ka), b.val(kb));
            if to_float_out {
                of.push(v)
            } else {
                oi.push(v as i64)
            }
        } else {
            let v = fi(a.i[ka], b.i[kb]);
            if to_float_out {
                of.push(v as f64)
            } else {
                oi.push(v)
            }
        }
    }
    Ok(if to_float_out { T::new_f(dt, &shape, of) } else { T::new_i(dt, &shape, oi) })
}

fn wrap_i32(v: i64) -> i64 {
    v as i32 as i64
}

/// Python-style modulus: result has the sign of the divisor.
fn py_mod(a: i64, b: i64) -> i64 {
    let r = a % b;
    if r != 0 && ((r < 0) != (b < 0)) {
        r + b
    } else {
        r
    }
}

fn ipow(base: i64, exp: i64) -> i64 {
    let mut r: i64 = 1;
    for _ in 0..exp.max(0) {
        r = r.wrapping_mul(base);
    }
    r
}

pub fn arith(c: &Ctx) -> R {
    let (a, b) = (c.inp(0)?, c.inp(1)?);
    let op = c.node.op.as_str();
    let t = match op {
        "Add" => {
            same_kind(a, b, op)?;
            binary(a, b, a.dt, &|x, y| x + y, &|x, y| wrap_i32(x + y))?
        }
        "Sub" => {
            same_kind(a, b, op)?;
            binary(a, b, a.dt, &|x, y| x - y, &|x, y| wrap_i32(x - y))?
        }
        "Mul" => {
            same_kind(a, b, op)?;
            binary(a, b, a.dt, &|x, y| x * y, &|x, y| wrap_i32(x * y))?
        }
        "Div" => {
            same_kind(a, b, op)?;
            // integer division truncates toward zero (C semantics, as in the
            // ONNX reference implementation: true division cast back to int)
            binary(a, b, a.dt, &|x, y| x / y, &|x, y| x / y)?
        }
        "Pow" => {
            // result has the type of the base; exponent may be another type
            if a.is_f() {
                binary(a, b, a.dt, &|x, y| x.powf(y), &|_, _| unreachable!())?
            } else if b.is_f() {
                // int base, float exponent: computed in float, cast to base type
                binary(a, b, a.dt, &|x, y| x.powf(y).trunc(), &|_, _| unreachable!())?
            } else {
                binary(a, b, a.dt, &|_, _| unreachable!(), &|x, y| wrap_i32(ipow(x, y)))?
            }
        }
        "Mod" => {
            same_kind(a, b, op)?;
            let fmod = c.i("fmod").unwrap_or(0) != 0;
            if a.is_f() && !fmod {
                return Err("Mod: fmod=0 is not defined for floating point inputs".into());
            }
            if fmod {
                // C fmod: sign of the dividend
                binary(a, b, a.dt, &|x, y| libm::fmod(x, y), &|x, y| x % y)?
            } else {
                binary(a, b, a.dt, &|_, _| unreachable!(), &py_mod)?
            }
        }
        _ => unreachable!(),
    };
    one(t)
}

pub fn compare(c: &Ctx) -> R {
    let (a, b) = (c.inp(0)?, c.inp(1)?);
    same_kind(a, b, &c.node.op)?;
    let t = match c.node.op.as_str() {
        "Equal" => binary(a, b, DType::Bool, &|x, y| (x == y) as i64 as f64, &|x, y| (x == y) as i64)?,
        "Greater" => binary(a, b, DType::Bool, &|x, y| (x > y) as i64 as f64, &|x, y| (x > y) as i64)?,
        "GreaterOrEqual" => binary(a, b, DType::Bool, &|x, y| (x >= y) as i64 as f64, &|x, y| (x >= y) as i64)?,
        "Less" => binary(a, b, DType::Bool, &|x, y| (x < y) as i64 as f64, &|x, y| (x < y) as i64)?,
        "LessOrEqual" => binary(a, b, DType::Bool, &|x, y| (x <= y) as i64 as f64, &|x, y| (x <= y) as i64)?,
        _ => unreachable!(),
    };
    one(t)
}

pub fn logical(c: &Ctx) -> R {
    let (a, b) = (c.inp(0)?, c.inp(1)?);
    if a.dt != DType::Bool || b.dt != DType::Bool {
        return Err("logical op on non-bool".into());
    }
    let t = match c.node.op.as_str() {
        "And" => binary(a, b, DType::Bool, &|_, _| unreachable!(), &|x, y| ((x != 0) && (y != 0)) as i64)?,
        "Or" => binary(a, b, DType::Bool, &|_, _| unreachable!(), &|x, y| ((x != 0) || (y != 0)) as i64)?,
        "Xor" => binary(a, b, DType::Bool, &|_, _| unreachable!(), &|x, y| ((x != 0) != (y != 0)) as i64)?,
        _ => unreachable!(),
    };
    one(t)
}

pub fn not(c: &Ctx) -> R {
    let a = c.inp(0)?;
    one(T::new_i(DType::Bool, &a.shape, a.i.iter().map(|v| (*v == 0) as i64).collect()))
}

pub fn variadic(c: &Ctx) -> R {
    let n = c.n_in();
    if n == 0 {
        return Err("variadic op without inputs".into());
    }
    let op = c.node.op.as_str();
    let mut acc = c.inp(0)?.clone();
    // cond = sum of |terms| for Sum/Mean
    let mut cond: Option<T> = if acc.is_f() && (op == "Sum" || op == "Mean") {
        Some(T::new_f(acc.dt, &acc.shape, acc.f.iter().map(|v| v.abs()).collect()))
    } else {
        None
    };
    for k in 1..n {
        let b = c.inp(k)?;
        same_kind(&acc, b, op)?;
        acc = match op {
            "Max" => binary(&acc, b, acc.dt, &|x, y| if y > x { y } else { x }, &|x, y| x.max(y))?,
            "Min" => binary(&acc, b, acc.dt, &|x, y| if y < x { y } else { x }, &|x, y| x.min(y))?,
            "Sum" | "Mean" => binary(&acc, b, acc.dt, &|x, y| x + y, &|x, y| wrap_i32(x + y))?,
            _ => unreachable!(),
        };
        if let Some(cd) = &cond {
            cond = Some(binary(cd, b, acc.dt, &|x, y| x + y.abs(), &|_, _| unreachable!())?);
        }
    }
    if op == "Mean" {
        if !acc.is_f() {
            return Err("Mean is defined for float tensors".into());
        }
        for v in acc.f.iter_mut() {
            *v /= n as f64;
        }
    }
    match cond {
        Some(cd) => Ok(vec![Expect::cond(acc, cd.f)]),
        None => one(acc),
    }
}

pub fn where_(c: &Ctx) -> R {
    let (cond, x, y) = (c.inp(0)?, c.inp(1)?, c.inp(2)?);
    if x.is_f() != y.is_f() {
        return Err("Where: X and Y differ in type".into());
    }
    let s1 = bshape(&cond.shape, &x.shape)?;
    let shape = bshape(&s1, &y.shape)?;
    let n = numel(&shape);
    let mut of = Vec::new();
    let mut oi = Vec::new();
    for k in 0..n {
        let idx = unravel(k, &shape);
        let sel = cond.i[bidx(&idx, &cond.shape)] != 0;
        let (kx, ky) = (bidx(&idx, &x.shape), bidx(&idx, &y.shape));
        if x.is_f() {
            of.push(if sel { x.f[kx] } else { y.f[ky] });
        } else {
            oi.push(if sel { x.i[kx] } else { y.i[ky] });
        }
    }
    Ok(vec![Expect::exact(T { dt: x.dt, shape, f: of, i: oi })])
}

pub fn clip(c: &Ctx) -> R {
    let x = c.inp(0)?;
    // opset < 11: attributes; opset >= 11: optional scalar inputs
    let (lo, hi): (Option<f64>, Option<f64>) = if c.opset < 11 {
        (c.f("min"), c.f("max"))
    } else {
        (c.opt(1).map(|t| t.val(0)), c.opt(2).map(|t| t.val(0)))
    };
    // spec: Y = min(max(X, min), max); when min > max every element becomes max
    let f = |v: f64| -> f64 {
        let mut r = v;
        if let Some(l) = lo {
            if r < l {
                r = l;
            }
        }
        if let Some(h) = hi {
            if r > h {
                r = h;
            }
        }
        r
    };
    let t = if x.is_f() {
        T::new_f(x.dt, &x.shape, x.f.iter().map(|v| f(*v)).collect())
    } else {
        T::new_i(x.dt, &x.shape, x.i.iter().map(|v| f(*v as f64) as i64).collect())
    };
    one(t)
}

pub fn prelu(c: &Ctx) -> R {
    let (x, slope) = (c.inp(0)?, c.inp(1)?);
    // slope is unidirectionally broadcast to x
    let shape = bshape(&x.shape, &slope.shape)?;
    if shape != x.shape {
        return Err("PRelu: slope is not broadcastable to x".into());
    }
    let t = binary(x, slope, x.dt, &|v, s| if v < 0.0 { v * s } else { v }, &|v, s| if v < 0 { wrap_i32(v * s) } else { v })?;
    one(t)
}

fn code_to_dtype(code: i64) -> Result<DType, String> {
    Ok(match code {
        1 => DType::F32,
        2 => DType::U8,
        3 => DType::I8,
        6 => DType::I32,
        7 => DType::I64,
        9 => DType::Bool,
        11 => DType::F64,
        o => return Err(format!("unsupported dtype code {o}")),
    })
}

pub fn cast(c: &Ctx) -> R {
    let x = c.inp(0)?;
    let to = code_to_dtype(c.i("to").ok_or("Cast: missing 'to'")?)?;
    let t = if to.is_float() {
        T::new_f(to, &x.shape, x.vals())
    } else if to == DType::Bool {
        T::new_i(to, &x.shape, x.vals().iter().map(|v| (*v != 0.0) as i64).collect())
    } else {
        // float -> int truncates toward zero (in-range values only are generated)
        let v: Vec<i64> = x.vals().iter().map(|v| v.trunc() as i64).collect();
        let v = match to {
            DType::U8 => v.iter().map(|v| *v as u8 as i64).collect(),
            DType::I8 => v.iter().map(|v| *v as i8 as i64).collect(),
            _ => v,
        };
        T::new_i(to, &x.shape, v)
    };
    one(t)
}

pub fn unary(c: &Ctx) -> R {
    let x = c.inp(0)?;
    let op = c.node.op.as_str();
    // ops defined for integers too
    if !x.is_f() {
        let g: Box<dyn Fn(i64) -> i64> = match op {
            "Abs" => Box::new(|v| wrap_i32(v.abs())),
            "Neg" => Box::new(|v| wrap_i32(-v)),
            "Sign" => Box::new(|v| v.signum()),
            "Relu" => Box::new(|v| v.max(0)),
            "Identity" => Box::new(|v| v),
            _ => return Err(format!("{op}: not defined for integer tensors in this reference")),
        };
        return one(T::new_i(x.dt, &x.shape, x.i.iter().map(|v| g(*v)).collect()));
    }
    let alpha = c.f("alpha");
    let beta = c.f("beta");
    let approx = c.s("approximate").unwrap_or("none").to_string();
    let g: Box<dyn Fn(f64) -> f64> = match op {
        "Abs" => Box::new(|v| v.abs()),
        "Neg" => Box::new(|v| -v),
        "Floor" => Box::new(|v| v.floor()),
        "Ceil" => Box::new(|v| v.ceil()),
        "Round" => Box::new(round_half_even),
        "Sqrt" => Box::new(|v| v.sqrt()),
        "Exp" => Box::new(|v| v.exp()),
        "Log" => Box::new(|v| v.ln()),
        "Sigmoid" => Box::new(|v| 1.0 / (1.0 + (-v).exp())),
        "Tanh" => Box::new(|v| v.tanh()),
        "Relu" => Box::new(|v| if v > 0.0 { v } else { 0.0 }),
        "LeakyRelu" => {
            let a = alpha.unwrap_or(0.01);
            Box::new(move |v| if v < 0.0 { a * v } else { v })
        }
        "Elu" => {
            let a = alpha.unwrap_or(1.0);
            Box::new(move |v| if v < 0.0 { a * (v.exp() - 1.0) } else { v })
        }
        "HardSigmoid" => {
            let a = alpha.unwrap_or(0.2);
            let b = beta.unwrap_or(0.5);
            Box::new(move |v| (a * v + b).min(1.0).max(0.0))
        }
        "HardSwish" => Box::new(|v| v * (v / 6.0 + 0.5).min(1.0).max(0.0)),
        "Softplus" => Box::new(|v| (v.exp() + 1.0).ln()),
        "Erf" => Box::new(libm::erf),
        "Sign" => Box::new(|v| if v > 0.0 { 1.0 } else if v < 0.0 { -1.0 } else { 0.0 }),
        "Reciprocal" => Box::new(|v| 1.0 / v),
        "Sin" => Box::new(|v| v.sin()),
        "Cos" => Box::new(|v| v.cos()),
        "Tan" => Box::new(|v| v.tan()),
        "Asin" => Box::new(|v| v.asin()),
        "Acos" => Box::new(|v| v.acos()),
        "Atan" => Box::new(|v| v.atan()),
        "Sinh" => Box::new(|v| v.sinh()),
        "Cosh" => Box::new(|v| v.cosh()),
        "Asinh" => Box::new(|v| v.asinh()),
        "Acosh" => Box::new(|v| v.acosh()),
        "Atanh" => Box::new(|v| v.atanh()),
        "Gelu" => {
            if approx == "tanh" {
                Box::new(|v| 0.5 * v * (1.0 + ((2.0 / std::f64::consts::PI).sqrt() * (v + 0.044715 * v * v * v)).tanh()))
            } else {
                Box::new(|v| 0.5 * v * (1.0 + libm::erf(v / std::f64::consts::SQRT_2)))
            }
        }
        "Identity" => Box::new(|v| v),
        _ => return Err(format!("unary: unknown op {op}")),
    };
    let t = T::new_f(x.dt, &x.shape, x.f.iter().map(|v| g(*v)).collect());
    // data movement / exactly representable results are compared exactly
    let exact = matches!(op, "Abs" | "Neg" | "Floor" | "Ceil" | "Round" | "Relu" | "Sign" | "Identity");
    Ok(vec![if exact { Expect::exact(t) } else { t.into() }])
}

//! MatMul, Gemm, Einsum.

use super::*;

/// numpy.matmul semantics for shapes; returns (a_shape2, b_shape2, out_shape,
/// squeeze_front, squeeze_back) after 1-D promotion.
pub fn matmul_shapes(a: &[usize], b: &[usize]) -> Result<(Vec<usize>, Vec<usize>, Vec<usize>, bool, bool), String> {
    if a.is_empty() || b.is_empty() {
        return Err("MatMul: scalar operand".into());
    }
    let (mut a2, mut b2) = (a.to_vec(), b.to_vec());
    let sq_a = a.len() == 1;
    let sq_b = b.len() == 1;
    if sq_a {
        a2.insert(0, 1);
    }
    if sq_b {
        b2.push(1);
    }
    let (ra, rb) = (a2.len(), b2.len());
    if a2[ra - 1] != b2[rb - 2] {
        return Err(format!("MatMul: inner dims {:?} x {:?}", a, b));
    }
    let batch = bshape(&a2[..ra - 2], &b2[..rb - 2])?;
    let mut out = batch;
    out.push(a2[ra - 2]);
    out.push(b2[rb - 1]);
    Ok((a2, b2, out, sq_a, sq_b))
}

/// Generic batched matmul over values fetched with `fa`/`fb` (already zero-point
/// corrected where relevant). Returns (full out shape before squeezing, values, sum|terms|).
pub fn matmul_core(ash: &[usize], bsh: &[usize], fa: &dyn Fn(usize) -> f64, fb: &dyn Fn(usize) -> f64) -> Result<(Vec<usize>, Vec<f64>, Vec<f64>), String> {
    let (a2, b2, out, sq_a, sq_b) = matmul_shapes(ash, bsh)?;
    let (ra, ro) = (a2.len(), out.len());
    let kk = a2[ra - 1];
    let mut vals = Vec::new();
    let mut cond = Vec::new();
    for idx in indices(&out) {
        let (i, j) = (idx[ro - 2], idx[ro - 1]);
        let batch = &idx[..ro - 2];
        let mut acc = 0.0;
        let mut acc_abs = 0.0;
        for k in 0..kk {
            let mut ia: Vec<usize> = batch.to_vec();
            ia.push(i);
            ia.push(k);
            let mut ib: Vec<usize> = batch.to_vec();
            ib.push(k);
            ib.push(j);
            let va = fa(bidx(&ia, &a2));
            let vb = fb(bidx(&ib, &b2));
            acc += va * vb;
            acc_abs += (va * vb).abs();
        }
        vals.push(acc);
        cond.push(acc_abs);
    }
    let mut shape = out.clone();
    if sq_b {
        shape.pop();
    }
    if sq_a {
        let p = shape.len() - if sq_b { 1 } else { 2 };
        shape.remove(p);
    }
    Ok((shape, vals, cond))
}

pub fn matmul(c: &Ctx) -> R {
    let (a, b) = (c.inp(0)?, c.inp(1)?);
    if a.is_f() != b.is_f() {
        return Err("MatMul: type mismatch".into());
    }
    let (shape, vals, cond) = matmul_core(&a.shape, &b.shape, &|k| a.val(k), &|k| b.val(k))?;
    if a.is_f() {
        Ok(vec![Expect::cond(T::new_f(a.dt, &shape, vals), cond)])
    } else {
        one(T::new_i(a.dt, &shape, vals.iter().map(|v| *v as i64 as i32 as i64).collect()))
    }
}

pub fn gemm(c: &Ctx) -> R {
    let (a, b) = (c.inp(0)?, c.inp(1)?);
    let alpha = c.f("alpha").unwrap_or(1.0);
    let beta = c.f("beta").unwrap_or(1.0);
    let ta = c.i("transA").unwrap_or(0) != 0;
    let tb = c.i("transB").unwrap_or(0) != 0;
    if a.rank() != 2 || b.rank() != 2 {
        return Err("Gemm: inputs must be 2-D".into());
    }
    let (m, k) = if ta { (a.shape[1], a.shape[0]) } else { (a.shape[0], a.shape[1]) };
    let (k2, n) = if tb { (b.shape[1], b.shape[0]) } else { (b.shape[0], b.shape[1]) };
    if k != k2 {
        return Err("Gemm: inner dims".into());
    }
    let cm = c.opt(2);
    if let Some(cm) = cm {
        // C is unidirectionally broadcastable to (M, N)
        if bshape(&cm.shape, &[m, n])? != vec![m, n] {
            return Err("Gemm: C not broadcastable to (M,N)".into());
        }
    }
    let mut vals = Vec::new();
    let mut cond = Vec::new();
    for i in 0..m {
        for j in 0..n {
            let mut acc = 0.0;
            let mut acc_abs = 0.0;
            for p in 0..k {
                let va = if ta { a.val(p * m + i) } else { a.val(i * k + p) };
                let vb = if tb { b.val(j * k + p) } else { b.val(p * n + j) };
                acc += va * vb;
                acc_abs += (va * vb).abs();
            }
            let mut r = alpha * acc;
            let mut ra = alpha.abs() * acc_abs;
            if let Some(cm) = cm {
                let cv = cm.val(bidx(&[i, j], &cm.shape));
                r += beta * cv;
                ra += (beta * cv).abs();
            }
            vals.push(r);
            cond.push(ra);
        }
    }
    if a.is_f() {
        Ok(vec![Expect::cond(T::new_f(a.dt, &[m, n], vals), cond)])
    } else {
        one(T::new_i(a.dt, &[m, n], vals.iter().map(|v| *v as i64).collect()))
    }
}

pub fn einsum(c: &Ctx) -> R {
    let eq: String = c.s("equation").ok_or("Einsum: equation")?.chars().filter(|ch| *ch != ' ').collect();
    let (lhs, rhs) = match eq.split_once("->") {
        Some((l, r)) => (l.to_string(), Some(r.to_string())),
        None => (eq.clone(), None),
    };
    let terms: Vec<Vec<char>> = lhs.split(',').map(|s| s.chars().collect()).collect();
    if terms.len() != c.n_in() {
        return Err("Einsum: operand count".into());
    }
    if eq.contains('.') {
        return Err("Einsum: ellipsis is outside the claimed domain".into());
    }
    // label sizes
    let mut labels: Vec<char> = Vec::new();
    let mut sizes: Vec<usize> = Vec::new();
    for (t, term) in terms.iter().enumerate() {
        let x = c.inp(t)?;
        if term.len() != x.rank() {
            return Err("Einsum: term rank".into());
        }
        for (d, l) in term.iter().enumerate() {
            match labels.iter().position(|q| q == l) {
                Some(p) => {
                    if sizes[p] != x.shape[d] {
                        return Err("Einsum: inconsistent label size".into());
                    }
                }
                None => {
                    labels.push(*l);
                    sizes.push(x.shape[d]);
                }
            }
        }
    }
    // implicit output: labels appearing exactly once, alphabetically
    let out_labels: Vec<char> = match rhs {
        Some(r) => r.chars().collect(),
        None => {
            let mut v: Vec<char> = labels.iter().copied().filter(|l| terms.iter().map(|t| t.iter().filter(|q| *q == l).count()).sum::<usize>() == 1).collect();
            v.sort();
            v
        }
    };
    let sum_labels: Vec<char> = labels.iter().copied().filter(|l| !out_labels.contains(l)).collect();
    let size_of = |l: char| sizes[labels.iter().position(|q| *q == l).unwrap()];
    let out_shape: Vec<usize> = out_labels.iter().map(|l| size_of(*l)).collect();
    let sum_shape: Vec<usize> = sum_labels.iter().map(|l| size_of(*l)).collect();
    let mut vals = Vec::new();
    let mut cond = Vec::new();
    for oidx in indices(&out_shape) {
        let mut acc = 0.0;
        let mut acc_abs = 0.0;
        for sidx in indices(&sum_shape) {
            let value_of = |l: char| -> usize {
                if let Some(p) = out_labels.iter().position(|q| *q == l) {
                    oidx[p]
                } else {
                    sidx[sum_labels.iter().position(|q| *q == l).unwrap()]
                }
            };
            let mut prod = 1.0;
            for (t, term) in terms.iter().enumerate() {
                let x = c.inp(t)?;
                let idx: Vec<usize> = term.iter().map(|l| value_of(*l)).collect();
                prod *= x.val(ravel(&idx, &x.shape));
            }
            acc += prod;
            acc_abs += prod.abs();
        }
        vals.push(acc);
        cond.push(acc_abs);
    }
    let x0 = c.inp(0)?;
    if x0.is_f() {
        Ok(vec![Expect::cond(T::new_f(x0.dt, &out_shape, vals), cond)])
    } else {
        one(T::new_i(x0.dt, &out_shape, vals.iter().map(|v| *v as i64).collect()))
    }
}

//! Quantisation operators and integer matmul / convolution.

use super::linalg::matmul_core;
use super::nn::conv_core;
use super::*;

fn sat(v: f64, dt: DType) -> i64 {
    let (lo, hi) = match dt {
        DType::U8 => (0.0, 255.0),
        DType::I8 => (-128.0, 127.0),
        _ => (i32::MIN as f64, i32::MAX as f64),
    };
    v.max(lo).min(hi) as i64
}

fn is_pow2(v: f64) -> bool {
    v > 0.0 && v.log2().fract() == 0.0
}

/// a tie of round() that a different but legitimate float evaluation order
/// (x/scale vs x*(1/scale), f32 vs f64) could resolve differently
fn near_tie(q: f64, exact_div: bool) -> bool {
    let fr = q - q.floor();
    !exact_div && (fr - 0.5).abs() < 1e-3 * (1.0 + q.abs() / 64.0)
}

pub fn quantize_linear(c: &Ctx) -> R {
    let (x, scale) = (c.inp(0)?, c.inp(1)?);
    let zp = c.opt(2);
    let out_dt = match (zp, c.i("output_dtype")) {
        (Some(z), _) => z.dt,
        (None, Some(2)) | (None, None) | (None, Some(0)) => DType::U8,
        (None, Some(3)) => DType::I8,
        (None, Some(o)) => return Err(format!("QuantizeLinear: output_dtype {o}")),
    };
    // opset 13+: default axis 1, per-axis when scale is 1-D
    let axis = norm_axis(c.i("axis").unwrap_or(1), x.rank().max(1)).unwrap_or(0);
    let per_axis = scale.rank() == 1 && scale.n() > 1;
    if let Some(z) = zp {
        if z.shape != scale.shape {
            return Err("QuantizeLinear: scale / zero_point shapes differ".into());
        }
    }
    if per_axis && scale.n() != x.shape[axis] {
        return Err("QuantizeLinear: per-axis scale length".into());
    }
    let mut out = Vec::new();
    let mut slack = Vec::new();
    for (k, idx) in indices(&x.shape).iter().enumerate() {
        let j = if per_axis { idx[axis] } else { 0 };
        let s = scale.val(j);
        let z = zp.map(|z| z.val(j)).unwrap_or(0.0);
        let q = x.f[k] / s;
        out.push(sat(round_half_even(q) + z, out_dt));
        slack.push(near_tie(q, is_pow2(s)) as u8);
    }
    Ok(vec![Expect { t: T::new_i(out_dt, &x.shape, out), tol: TolKind::IntSlack(slack) }])
}

pub fn dequantize_linear(c: &Ctx) -> R {
    let (x, scale) = (c.inp(0)?, c.inp(1)?);
    let zp = c.opt(2);
    let axis = norm_axis(c.i("axis").unwrap_or(1), x.rank().max(1)).unwrap_or(0);
    let per_axis = scale.rank() == 1 && scale.n() > 1;
    if per_axis && scale.n() != x.shape[axis] {
        return Err("DequantizeLinear: per-axis scale length".into());
    }
    let mut out = Vec::new();
    for (k, idx) in indices(&x.shape).iter().enumerate() {
        let j = if per_axis { idx[axis] } else { 0 };
        let z = zp.map(|z| z.val(j)).unwrap_or(0.0);
        out.push((x.val(k) - z) * scale.val(j));
    }
    one(T::new_f(scale.dt, &x.shape, out))
}

pub fn dynamic_quantize_linear(c: &Ctx) -> R {
    let x = c.inp(0)?;
    if x.n() == 0 {
        return Err("DynamicQuantizeLinear: empty input".into());
    }
    let mx = x.f.iter().cloned().fold(0.0f64, f64::max);
    let mn = x.f.iter().cloned().fold(0.0f64, f64::min);
    if mx == mn {
        return Err("DynamicQuantizeLinear: all-zero input (scale 0) is outside the claimed domain".into());
    }
    // the scale is an f32 output and every later step uses it: round it to f32
    let scale = ((mx - mn) / 255.0) as f32 as f64;
    let izp = -mn / scale;
    let zp = round_half_even(izp.max(0.0).min(255.0));
    let zp_slack = near_tie(izp, false);
    let mut out = Vec::new();
    let mut slack = Vec::new();
    for v in &x.f {
        let q = v / scale;
        out.push(sat(round_half_even(q) + zp, DType::U8));
        // the zero point and the element are rounded separately
        slack.push(zp_slack as u8 + near_tie(q, false) as u8);
    }
    Ok(vec![
        Expect { t: T::new_i(DType::U8, &x.shape, out), tol: TolKind::IntSlack(slack) },
        T::new_f(DType::F32, &[], vec![scale]).into(),
        Expect { t: T::new_i(DType::U8, &[], vec![zp as i64]), tol: TolKind::IntSlack(vec![zp_slack as u8]) },
    ])
}

pub fn matmul_integer(c: &Ctx) -> R {
    let (a, b) = (c.inp(0)?, c.inp(1)?);
    let (azp, bzp) = (c.opt(2), c.opt(3));
    if a.rank() < 1 || b.rank() < 1 {
        return Err("MatMulInteger: rank".into());
    }
    // a_zero_point: scalar, or one value per row of A; b_zero_point: scalar or per column of B
    let a2: Vec<usize> = if a.rank() == 1 { vec![1, a.shape[0]] } else { a.shape.clone() };
    let b2: Vec<usize> = if b.rank() == 1 { vec![b.shape[0], 1] } else { b.shape.clone() };
    let (m, k) = (a2[a2.len() - 2], a2[a2.len() - 1]);
    let n = b2[b2.len() - 1];
    let za = |flat: usize| -> f64 {
        match azp {
            None => 0.0,
            Some(z) if z.n() == 1 => z.val(0),
            Some(z) => z.val((flat / k) % m),
        }
    };
    let zb = |flat: usize| -> f64 {
        match bzp {
            None => 0.0,
            Some(z) if z.n() == 1 => z.val(0),
            Some(z) => z.val(flat % n),
        }
    };
    if let Some(z) = azp {
        if !(z.n() == 1 || (z.rank() == 1 && z.n() == m)) {
            return Err("MatMulInteger: a_zero_point shape".into());
        }
    }
    if let Some(z) = bzp {
        if !(z.n() == 1 || (z.rank() == 1 && z.n() == n)) {
            return Err("MatMulInteger: b_zero_point shape".into());
        }
    }
    let (shape, vals, _) = matmul_core(&a.shape, &b.shape, &|p| a.val(p) - za(p), &|p| b.val(p) - zb(p))?;
    one(T::new_i(DType::I32, &shape, vals.iter().map(|v| *v as i64).collect()))
}

pub fn conv_integer(c: &Ctx) -> R {
    let (x, w) = (c.inp(0)?, c.inp(1)?);
    let (xzp, wzp) = (c.opt(2), c.opt(3));
    if let Some(z) = xzp {
        if z.n() != 1 {
            return Err("ConvInteger: x_zero_point must be a scalar".into());
        }
    }
    let m = w.shape[0];
    if let Some(z) = wzp {
        if !(z.n() == 1 || (z.rank() == 1 && z.n() == m)) {
            return Err("ConvInteger: w_zero_point shape".into());
        }
    }
    let per_out = numel(&w.shape[1..]);
    let xz = xzp.map(|z| z.val(0)).unwrap_or(0.0);
    let wz = |flat: usize| -> f64 {
        match wzp {
            None => 0.0,
            Some(z) if z.n() == 1 => z.val(0),
            Some(z) => z.val(flat / per_out),
        }
    };
    // padding contributes (x_zero_point - x_zero_point) = 0: padded cells are skipped by conv_core
    let (shape, vals, _) = conv_core(c, &x.shape, &w.shape, &|p| x.val(p) - xz, &|p| w.val(p) - wz(p), None)?;
    one(T::new_i(DType::I32, &shape, vals.iter().map(|v| *v as i64).collect()))
}

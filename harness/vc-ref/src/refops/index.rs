//! Gather / Scatter family and OneHot.

use super::*;

fn wrap_index(i: i64, size: usize, what: &str) -> Result<usize, String> {
    let s = size as i64;
    if i < -s || i >= s {
        return Err(format!("{what}: index {i} out of range for size {size}"));
    }
    Ok(if i < 0 { (i + s) as usize } else { i as usize })
}

pub fn gather(c: &Ctx) -> R {
    let (data, ind) = (c.inp(0)?, c.inp(1)?);
    let axis = norm_axis(c.i("axis").unwrap_or(0), data.rank())?;
    let q = ind.rank();
    let mut shape: Vec<usize> = data.shape[..axis].to_vec();
    shape.extend_from_slice(&ind.shape);
    shape.extend_from_slice(&data.shape[axis + 1..]);
    let mut src = Vec::new();
    for idx in indices(&shape) {
        let ii = &idx[axis..axis + q];
        let j = wrap_index(ind.i[ravel(ii, &ind.shape)], data.shape[axis], "Gather")?;
        let mut d: Vec<usize> = idx[..axis].to_vec();
        d.push(j);
        d.extend_from_slice(&idx[axis + q..]);
        src.push(ravel(&d, &data.shape));
    }
    Ok(vec![Expect::exact(data.take(&shape, &src))])
}

pub fn gather_elements(c: &Ctx) -> R {
    let (data, ind) = (c.inp(0)?, c.inp(1)?);
    let axis = norm_axis(c.i("axis").unwrap_or(0), data.rank())?;
    if ind.rank() != data.rank() {
        return Err("GatherElements: rank mismatch".into());
    }
    let mut src = Vec::new();
    for (k, idx) in indices(&ind.shape).into_iter().enumerate() {
        let mut d = idx.clone();
        d[axis] = wrap_index(ind.i[k], data.shape[axis], "GatherElements")?;
        src.push(ravel(&d, &data.shape));
    }
    Ok(vec![Expect::exact(data.take(&ind.shape, &src))])
}

pub fn gather_nd(c: &Ctx) -> R {
    let (data, ind) = (c.inp(0)?, c.inp(1)?);
    let b = c.i("batch_dims").unwrap_or(0) as usize;
    let q = ind.rank();
    if q == 0 {
        return Err("GatherND: indices must have rank >= 1".into());
    }
    let last = ind.shape[q - 1];
    if b + last > data.rank() {
        return Err("GatherND: index tuple too long".into());
    }
    let mut shape: Vec<usize> = ind.shape[..q - 1].to_vec();
    shape.extend_from_slice(&data.shape[b + last..]);
    let outer = &ind.shape[..q - 1];
    let mut src = Vec::new();
    for idx in indices(&shape) {
        let oi = &idx[..q - 1];
        let mut d: Vec<usize> = oi[..b].to_vec();
        for t in 0..last {
            let mut ii = oi.to_vec();
            ii.push(t);
            d.push(wrap_index(ind.i[ravel(&ii, &ind.shape)], data.shape[b + t], "GatherND")?);
        }
        d.extend_from_slice(&idx[outer.len()..]);
        src.push(ravel(&d, &data.shape));
    }
    Ok(vec![Expect::exact(data.take(&shape, &src))])
}

fn apply_reduction(out: &mut T, k: usize, upd: &T, ku: usize, red: &str) -> Result<(), String> {
    if out.is_f() {
        let (o, u) = (out.f[k], upd.f[ku]);
        out.f[k] = match red {
            "none" => u,
            "add" => o + u,
            "mul" => o * u,
            "max" => o.max(u),
            "min" => o.min(u),
            r => return Err(format!("unknown reduction {r}")),
        };
    } else {
        let (o, u) = (out.i[k], upd.i[ku]);
        out.i[k] = match red {
            "none" => u,
            "add" => (o + u) as i32 as i64,
            "mul" => (o * u) as i32 as i64,
            "max" => o.max(u),
            "min" => o.min(u),
            r => return Err(format!("unknown reduction {r}")),
        };
    }
    Ok(())
}

pub fn scatter_elements(c: &Ctx) -> R {
    let (data, ind, upd) = (c.inp(0)?, c.inp(1)?, c.inp(2)?);
    let axis = norm_axis(c.i("axis").unwrap_or(0), data.rank())?;
    let red = c.s("reduction").unwrap_or("none");
    if ind.shape != upd.shape || ind.rank() != data.rank() {
        return Err("ScatterElements: indices/updates shape mismatch".into());
    }
    let mut out = data.clone();
    let mut cond: Vec<f64> = data.vals().iter().map(|v| v.abs()).collect();
    for (k, idx) in indices(&ind.shape).into_iter().enumerate() {
        let mut d = idx.clone();
        d[axis] = wrap_index(ind.i[k], data.shape[axis], "ScatterElements")?;
        let dst = ravel(&d, &data.shape);
        apply_reduction(&mut out, dst, upd, k, red)?;
        cond[dst] += upd.val(k).abs();
    }
    if out.is_f() && red == "add" {
        Ok(vec![Expect::cond(out, cond)])
    } else if red == "none" || red == "max" || red == "min" {
        Ok(vec![Expect::exact(out)])
    } else {
        one(out)
    }
}

pub fn scatter_nd(c: &Ctx) -> R {
    let (data, ind, upd) = (c.inp(0)?, c.inp(1)?, c.inp(2)?);
    let red = c.s("reduction").unwrap_or("none");
    let q = ind.rank();
    if q == 0 {
        return Err("ScatterND: indices rank 0".into());
    }
    let last = ind.shape[q - 1];
    if last > data.rank() {
        return Err("ScatterND: index tuple too long".into());
    }
    let mut ushape: Vec<usize> = ind.shape[..q - 1].to_vec();
    ushape.extend_from_slice(&data.shape[last..]);
    if ushape != upd.shape {
        return Err(format!("ScatterND: updates shape {:?}, expected {:?}", upd.shape, ushape));
    }
    let mut out = data.clone();
    let mut cond: Vec<f64> = data.vals().iter().map(|v| v.abs()).collect();
    for (ku, idx) in indices(&upd.shape).into_iter().enumerate() {
        let oi = &idx[..q - 1];
        let mut d = Vec::new();
        for t in 0..last {
            let mut ii = oi.to_vec();
            ii.push(t);
            d.push(wrap_index(ind.i[ravel(&ii, &ind.shape)], data.shape[t], "ScatterND")?);
        }
        d.extend_from_slice(&idx[q - 1..]);
        let dst = ravel(&d, &data.shape);
        apply_reduction(&mut out, dst, upd, ku, red)?;
        cond[dst] += upd.val(ku).abs();
    }
    if out.is_f() && red == "add" {
        Ok(vec![Expect::cond(out, cond)])
    } else if red == "none" || red == "max" || red == "min" {
        Ok(vec![Expect::exact(out)])
    } else {
        one(out)
    }
}

pub fn one_hot(c: &Ctx) -> R {
    let (ind, depth, values) = (c.inp(0)?, c.inp(1)?, c.inp(2)?);
    let depth = depth.val(0) as i64;
    if depth < 1 || values.n() != 2 {
        return Err("OneHot: bad depth/values".into());
    }
    let out_rank = ind.rank() + 1;
    let axis = norm_axis(c.i("axis").unwrap_or(-1), out_rank)?;
    let mut shape = ind.shape.clone();
    shape.insert(axis, depth as usize);
    let mut src = Vec::new();
    for idx in indices(&shape) {
        let mut ii = idx.clone();
        let pos = ii.remove(axis) as i64;
        let mut v = ind.val(ravel(&ii, &ind.shape)) as i64;
        // indices in [-depth, depth-1]; negative ones count from the end;
        // anything outside produces the off value everywhere
        if v < 0 {
            v += depth;
        }
        src.push(if v == pos { 1 } else { 0 });
    }
    Ok(vec![Expect::exact(values.take(&shape, &src))])
}

//! Softmax, convolution, pooling, normalisation, resize.

use super::reduce::groups;
use super::*;

pub fn softmax(c: &Ctx) -> R {
    let x = c.inp(0)?;
    let log = c.node.op == "LogSoftmax";
    let rank = x.rank();
    // opset >= 13: along one axis (default -1). opset < 13: input coerced to
    // 2-D at `axis` (default 1), softmax over the flattened trailing part.
    let axes: Vec<usize> = if c.opset >= 13 {
        vec![norm_axis(c.i("axis").unwrap_or(-1), rank)?]
    } else {
        let a = norm_axis(c.i("axis").unwrap_or(1), rank)?;
        (a..rank).collect()
    };
    let (_, g) = groups(&x.shape, &axes);
    let mut out = vec![0.0; x.n()];
    for m in &g {
        let mx = m.iter().map(|k| x.f[*k]).fold(f64::NEG_INFINITY, f64::max);
        let s: f64 = m.iter().map(|k| (x.f[*k] - mx).exp()).sum();
        for k in m {
            out[*k] = if log { x.f[*k] - mx - s.ln() } else { (x.f[*k] - mx).exp() / s };
        }
    }
    one(T::new_f(x.dt, &x.shape, out))
}

/// Resolve explicit / automatic padding for conv and pooling.
/// Returns (pads_begin, pads_end).
pub fn resolve_pads(c: &Ctx, in_sp: &[usize], k: &[usize], s: &[usize], d: &[usize]) -> Result<(Vec<i64>, Vec<i64>), String> {
    let n = in_sp.len();
    match c.s("auto_pad").unwrap_or("NOTSET") {
        "NOTSET" => {
            let p = c.ints("pads").unwrap_or_else(|| vec![0; 2 * n]);
            if p.len() != 2 * n {
                return Err("pads length".into());
            }
            Ok((p[..n].to_vec(), p[n..].to_vec()))
        }
        "VALID" => Ok((vec![0; n], vec![0; n])),
        mode @ ("SAME_UPPER" | "SAME_LOWER") => {
            let mut b = Vec::new();
            let mut e = Vec::new();
            for i in 0..n {
                let out = (in_sp[i] + s[i] - 1) / s[i];
                let eff = (k[i] - 1) * d[i] + 1;
                let total = ((out - 1) * s[i] + eff).saturating_sub(in_sp[i]) as i64;
                let small = total / 2;
                let big = total - small;
                if mode == "SAME_UPPER" {
                    b.push(small);
                    e.push(big);
                } else {
                    b.push(big);
                    e.push(small);
                }
            }
            Ok((b, e))
        }
        o => Err(format!("auto_pad {o}")),
    }
}

/// The generic N-d convolution over already zero-point-corrected values.
/// Returns (out shape, values, sum|terms|).
pub fn conv_core(
    c: &Ctx,
    xs: &[usize],
    ws: &[usize],
    fx: &dyn Fn(usize) -> f64,
    fw: &dyn Fn(usize) -> f64,
    bias: Option<&T>,
) -> Result<(Vec<usize>, Vec<f64>, Vec<f64>), String> {
    if xs.len() < 3 || ws.len() != xs.len() {
        return Err("Conv: ranks".into());
    }
    let nsp = xs.len() - 2;
    let group = c.i("group").unwrap_or(1) as usize;
    let (n, cin, m) = (xs[0], xs[1], ws[0]);
    if cin != ws[1] * group || m % group != 0 {
        return Err("Conv: channel/group mismatch".into());
    }
    let k: Vec<usize> = ws[2..].to_vec();
    if let Some(ks) = c.ints("kernel_shape") {
        if ks.iter().map(|v| *v as usize).collect::<Vec<_>>() != k {
            return Err("Conv: kernel_shape differs from the weight shape".into());
        }
    }
    let s: Vec<usize> = c.ints("strides").map(|v| v.iter().map(|a| *a as usize).collect()).unwrap_or(vec![1; nsp]);
    let d: Vec<usize> = c.ints("dilations").map(|v| v.iter().map(|a| *a as usize).collect()).unwrap_or(vec![1; nsp]);
    let in_sp = &xs[2..];
    let (pb, pe) = resolve_pads(c, in_sp, &k, &s, &d)?;
    let mut out_sp = Vec::new();
    for i in 0..nsp {
        let eff = ((k[i] - 1) * d[i] + 1) as i64;
        let span = in_sp[i] as i64 + pb[i] + pe[i] - eff;
        if span < 0 {
            return Err("Conv: kernel larger than padded input".into());
        }
        out_sp.push((span / s[i] as i64 + 1) as usize);
    }
    let mut oshape = vec![n, m];
    oshape.extend_from_slice(&out_sp);
    let cg = cin / group;
    let mg = m / group;
    let mut vals = Vec::new();
    let mut cond = Vec::new();
    for idx in indices(&oshape) {
        let (b, oc) = (idx[0], idx[1]);
        let g = oc / mg;
        let mut acc = 0.0;
        let mut acc_abs = 0.0;
        for ic in 0..cg {
            for kidx in indices(&k) {
                let mut xi = vec![b, g * cg + ic];
                let mut inside = true;
                for i in 0..nsp {
                    let p = (idx[2 + i] * s[i] + kidx[i] * d[i]) as i64 - pb[i];
                    if p < 0 || p >= in_sp[i] as i64 {
                        inside = false;
                        break;
                    }
                    xi.push(p as usize);
                }
                if !inside {
                    continue;
                }
                let mut wi = vec![oc, ic];
                wi.extend_from_slice(&kidx);
                let t = fx(ravel(&xi, xs)) * fw(ravel(&wi, ws));
                acc += t;
                acc_abs += t.abs();
            }
        }
        if let Some(bt) = bias {
            acc += bt.val(oc);
            acc_abs += bt.val(oc).abs();
        }
        vals.push(acc);
        cond.push(acc_abs);
    }
    Ok((oshape, vals, cond))
}

pub fn conv(c: &Ctx) -> R {
    let (x, w) = (c.inp(0)?, c.inp(1)?);
    let bias = c.opt(2);
    let (shape, vals, cond) = conv_core(c, &x.shape, &w.shape, &|k| x.f[k], &|k| w.f[k], bias)?;
    Ok(vec![Expect::cond(T::new_f(x.dt, &shape, vals), cond)])
}

pub fn conv_transpose(c: &Ctx) -> R {
    let (x, w) = (c.inp(0)?, c.inp(1)?);
    let bias = c.opt(2);
    let (xs, ws) = (&x.shape, &w.shape);
    if xs.len() < 3 || ws.len() != xs.len() {
        return Err("ConvTranspose: ranks".into());
    }
    let nsp = xs.len() - 2;
    let group = c.i("group").unwrap_or(1) as usize;
    let (n, cin) = (xs[0], xs[1]);
    if ws[0] != cin || cin % group != 0 {
        return Err("ConvTranspose: channels".into());
    }
    let mg = ws[1];
    let m = mg * group;
    let cg = cin / group;
    let k: Vec<usize> = ws[2..].to_vec();
    let s: Vec<usize> = c.ints("strides").map(|v| v.iter().map(|a| *a as usize).collect()).unwrap_or(vec![1; nsp]);
    let d: Vec<usize> = c.ints("dilations").map(|v| v.iter().map(|a| *a as usize).collect()).unwrap_or(vec![1; nsp]);
    let op: Vec<usize> = c.ints("output_padding").map(|v| v.iter().map(|a| *a as usize).collect()).unwrap_or(vec![0; nsp]);
    if c.s("auto_pad").unwrap_or("NOTSET") != "NOTSET" || c.ints("output_shape").is_some() {
        return Err("ConvTranspose: auto_pad/output_shape are outside the claimed domain".into());
    }
    let p = c.ints("pads").unwrap_or_else(|| vec![0; 2 * nsp]);
    let (pb, pe) = (p[..nsp].to_vec(), p[nsp..].to_vec());
    let in_sp = &xs[2..];
    let mut out_sp = Vec::new();
    for i in 0..nsp {
        let o = (s[i] * (in_sp[i] - 1) + op[i] + (k[i] - 1) * d[i] + 1) as i64 - pb[i] - pe[i];
        if o < 1 {
            return Err("ConvTranspose: empty output".into());
        }
        out_sp.push(o as usize);
    }
    let mut oshape = vec![n, m];
    oshape.extend_from_slice(&out_sp);
    let total = numel(&oshape);
    let mut vals = vec![0.0; total];
    let mut cond = vec![0.0; total];
    for xi in indices(xs) {
        let (b, ic) = (xi[0], xi[1]);
        let g = ic / cg;
        let xv = x.f[ravel(&xi, xs)];
        for om in 0..mg {
            for kidx in indices(&k) {
                let mut oi = vec![b, g * mg + om];
                let mut inside = true;
                for i in 0..nsp {
                    let pos = (xi[2 + i] * s[i] + kidx[i] * d[i]) as i64 - pb[i];
                    if pos < 0 || pos >= out_sp[i] as i64 {
                        inside = false;
                        break;
                    }
                    oi.push(pos as usize);
                }
                if !inside {
                    continue;
                }
                let mut wi = vec![ic, om];
                wi.extend_from_slice(&kidx);
                let t = xv * w.f[ravel(&wi, ws)];
                let o = ravel(&oi, &oshape);
                vals[o] += t;
                cond[o] += t.abs();
            }
        }
    }
    if let Some(bt) = bias {
        for (o, idx) in indices(&oshape).iter().enumerate() {
            vals[o] += bt.val(idx[1]);
            cond[o] += bt.val(idx[1]).abs();
        }
    }
    Ok(vec![Expect::cond(T::new_f(x.dt, &oshape, vals), cond)])
}

pub fn pool(c: &Ctx) -> R {
    let x = c.inp(0)?;
    let is_max = c.node.op == "MaxPool";
    let xs = &x.shape;
    if xs.len() < 3 {
        return Err("pool: rank".into());
    }
    let nsp = xs.len() - 2;
    let k: Vec<usize> = c.ints("kernel_shape").ok_or("kernel_shape is required")?.iter().map(|v| *v as usize).collect();
    let s: Vec<usize> = c.ints("strides").map(|v| v.iter().map(|a| *a as usize).collect()).unwrap_or(vec![1; nsp]);
    let d: Vec<usize> = c.ints("dilations").map(|v| v.iter().map(|a| *a as usize).collect()).unwrap_or(vec![1; nsp]);
    let ceil_mode = c.i("ceil_mode").unwrap_or(0) != 0;
    let include_pad = c.i("count_include_pad").unwrap_or(0) != 0;
    let in_sp = &xs[2..];
    let (pb, pe) = resolve_pads(c, in_sp, &k, &s, &d)?;
    let same = matches!(c.s("auto_pad"), Some("SAME_UPPER" | "SAME_LOWER"));
    let mut out_sp = Vec::new();
    for i in 0..nsp {
        let eff = ((k[i] - 1) * d[i] + 1) as i64;
        let span = in_sp[i] as i64 + pb[i] + pe[i] - eff;
        if span < 0 {
            return Err("pool: kernel larger than padded input".into());
        }
        let mut o = if same {
            ((in_sp[i] + s[i] - 1) / s[i]) as i64
        } else if ceil_mode {
            (span + s[i] as i64 - 1) / s[i] as i64 + 1
        } else {
            span / s[i] as i64 + 1
        };
        // a window must start inside the input or its leading padding
        if ceil_mode && !same && (o - 1) * s[i] as i64 >= in_sp[i] as i64 + pb[i] {
            o -= 1;
        }
        out_sp.push(o as usize);
    }
    let mut oshape = vec![xs[0], xs[1]];
    oshape.extend_from_slice(&out_sp);
    let mut vals = Vec::new();
    let mut cond = Vec::new();
    for idx in indices(&oshape) {
        let mut best = f64::NEG_INFINITY;
        let mut sum = 0.0;
        let mut sum_abs = 0.0;
        let mut count_in = 0usize;
        let mut count_padded = 0usize;
        for kidx in indices(&k) {
            let mut xi = vec![idx[0], idx[1]];
            let mut inside = true;
            let mut in_padded = true;
            for i in 0..nsp {
                let p = (idx[2 + i] * s[i] + kidx[i] * d[i]) as i64 - pb[i];
                if p < -pb[i] || p >= in_sp[i] as i64 + pe[i] {
                    in_padded = false;
                }
                if p < 0 || p >= in_sp[i] as i64 {
                    inside = false;
                } else {
                    xi.push(p as usize);
                }
            }
            if in_padded {
                count_padded += 1;
            }
            if inside {
                let v = x.f[ravel(&xi, xs)];
                best = best.max(v);
                sum += v;
                sum_abs += v.abs();
                count_in += 1;
            }
        }
        if is_max {
            if count_in == 0 {
                return Err("MaxPool: window entirely in padding".into());
            }
            vals.push(best);
            cond.push(0.0);
        } else {
            let div = if include_pad { count_padded } else { count_in };
            if div == 0 {
                return Err("AveragePool: empty window".into());
            }
            vals.push(sum / div as f64);
            cond.push(sum_abs / div as f64);
        }
    }
    let t = T::new_f(x.dt, &oshape, vals);
    Ok(vec![if is_max { Expect::exact(t) } else { Expect::cond(t, cond) }])
}

pub fn global_pool(c: &Ctx) -> R {
    let x = c.inp(0)?;
    if x.rank() < 3 {
        return Err("global pool: rank".into());
    }
    let axes: Vec<usize> = (2..x.rank()).collect();
    let (kept, g) = groups(&x.shape, &axes);
    let is_max = c.node.op == "GlobalMaxPool";
    let mut vals = Vec::new();
    let mut cond = Vec::new();
    for m in &g {
        if m.is_empty() {
            return Err("global pool: empty".into());
        }
        let v: Vec<f64> = m.iter().map(|k| x.f[*k]).collect();
        if is_max {
            vals.push(v.iter().cloned().fold(f64::NEG_INFINITY, f64::max));
            cond.push(0.0);
        } else {
            vals.push(v.iter().sum::<f64>() / v.len() as f64);
            cond.push(v.iter().map(|a| a.abs()).sum::<f64>() / v.len() as f64);
        }
    }
    let t = T::new_f(x.dt, &kept, vals);
    Ok(vec![if is_max { Expect::exact(t) } else { Expect::cond(t, cond) }])
}

/// y = (x - mean) / sqrt(var + eps) over each group, then `* scale + bias`
/// supplied per element by closures. Returns values and condition magnitudes.
fn normalise(x: &T, g: &[Vec<usize>], eps: f64, scale: &dyn Fn(usize) -> f64, bias: &dyn Fn(usize) -> f64) -> (Vec<f64>, Vec<f64>) {
    let mut out = vec![0.0; x.n()];
    let mut cond = vec![0.0; x.n()];
    for m in g {
        let n = m.len() as f64;
        let mean = m.iter().map(|k| x.f[*k]).sum::<f64>() / n;
        let mean_abs = m.iter().map(|k| x.f[*k].abs()).sum::<f64>() / n;
        let var = m.iter().map(|k| (x.f[*k] - mean).powi(2)).sum::<f64>() / n;
        let inv = 1.0 / (var + eps).sqrt();
        for k in m {
            let (sc, bi) = (scale(*k), bias(*k));
            out[*k] = (x.f[*k] - mean) * inv * sc + bi;
            // cancellation in (x - mean) is amplified by inv*scale
            cond[*k] = (x.f[*k].abs() + mean_abs) * inv * sc.abs() + bi.abs();
        }
    }
    (out, cond)
}

pub fn layer_norm(c: &Ctx) -> R {
    let x = c.inp(0)?;
    let scale = c.inp(1)?;
    let bias = c.opt(2);
    let axis = norm_axis(c.i("axis").unwrap_or(-1), x.rank())?;
    let eps = c.f("epsilon").unwrap_or(1e-5);
    let axes: Vec<usize> = (axis..x.rank()).collect();
    let (_, g) = groups(&x.shape, &axes);
    // scale / bias broadcast (unidirectionally) to x
    if bshape(&x.shape, &scale.shape)? != x.shape {
        return Err("LayerNormalization: scale not broadcastable".into());
    }
    let sc = |k: usize| scale.val(bidx(&unravel(k, &x.shape), &scale.shape));
    let bi = |k: usize| bias.map(|b| b.val(bidx(&unravel(k, &x.shape), &b.shape))).unwrap_or(0.0);
    let (out, cond) = normalise(x, &g, eps, &sc, &bi);
    if c.n_out() != 1 {
        return Err("LayerNormalization: only output Y is in the claimed domain".into());
    }
    Ok(vec![Expect::cond(T::new_f(x.dt, &x.shape, out), cond)])
}

pub fn instance_norm(c: &Ctx) -> R {
    let (x, scale, bias) = (c.inp(0)?, c.inp(1)?, c.inp(2)?);
    if x.rank() < 3 {
        return Err("InstanceNormalization: rank".into());
    }
    let eps = c.f("epsilon").unwrap_or(1e-5);
    let axes: Vec<usize> = (2..x.rank()).collect();
    let (_, g) = groups(&x.shape, &axes);
    let ch = |k: usize| unravel(k, &x.shape)[1];
    let (out, cond) = normalise(x, &g, eps, &|k| scale.val(ch(k)), &|k| bias.val(ch(k)));
    Ok(vec![Expect::cond(T::new_f(x.dt, &x.shape, out), cond)])
}

pub fn batch_norm(c: &Ctx) -> R {
    let (x, scale, bias, mean, var) = (c.inp(0)?, c.inp(1)?, c.inp(2)?, c.inp(3)?, c.inp(4)?);
    if x.rank() < 2 {
        return Err("BatchNormalization: rank".into());
    }
    let eps = c.f("epsilon").unwrap_or(1e-5);
    let mut out = Vec::new();
    let mut cond = Vec::new();
    for (k, idx) in indices(&x.shape).iter().enumerate() {
        let ch = idx[1];
        let inv = 1.0 / (var.val(ch) + eps).sqrt();
        out.push((x.f[k] - mean.val(ch)) * inv * scale.val(ch) + bias.val(ch));
        cond.push((x.f[k].abs() + mean.val(ch).abs()) * inv * scale.val(ch).abs() + bias.val(ch).abs());
    }
    Ok(vec![Expect::cond(T::new_f(x.dt, &x.shape, out), cond)])
}

pub fn lp_norm(c: &Ctx) -> R {
    let x = c.inp(0)?;
    let axis = norm_axis(c.i("axis").unwrap_or(-1), x.rank())?;
    let p = c.i("p").unwrap_or(2);
    let (_, g) = groups(&x.shape, &[axis]);
    let mut out = vec![0.0; x.n()];
    for m in &g {
        let norm = if p == 1 { m.iter().map(|k| x.f[*k].abs()).sum::<f64>() } else { m.iter().map(|k| x.f[*k] * x.f[*k]).sum::<f64>().sqrt() };
        if norm == 0.0 {
            return Err("LpNormalization: zero norm is outside the claimed domain".into());
        }
        for k in m {
            out[*k] = x.f[*k] / norm;
        }
    }
    one(T::new_f(x.dt, &x.shape, out))
}

// ---------------------------------------------------------------------------
// Resize
// ---------------------------------------------------------------------------

/// Original-space coordinate of output position `o` — evaluated in several
/// arithmetic variants (f64 / f32, division / multiplication by the inverse
/// scale). All of them are faithful readings of the specification's formula.
fn orig_coords(mode: &str, o: usize, scale: f64, n_in: usize, n_out: usize) -> Result<Vec<f64>, String> {
    let (of, s) = (o as f64, scale);
    let (o32, s32) = (o as f32, scale as f32);
    let inv32 = 1.0f32 / s32;
    let ratio32 = n_in as f32 / n_out as f32;
    Ok(match mode {
        "half_pixel" => vec![(of + 0.5) / s - 0.5, ((o32 + 0.5) / s32 - 0.5) as f64, ((o32 + 0.5) * inv32 - 0.5) as f64, ((o32 + 0.5) * ratio32 - 0.5) as f64],
        "pytorch_half_pixel" => {
            if n_out > 1 {
                vec![(of + 0.5) / s - 0.5, ((o32 + 0.5) / s32 - 0.5) as f64, ((o32 + 0.5) * inv32 - 0.5) as f64, ((o32 + 0.5) * ratio32 - 0.5) as f64]
            } else {
                vec![0.0]
            }
        }
        "asymmetric" => vec![of / s, (o32 / s32) as f64, (o32 * inv32) as f64, (o32 * ratio32) as f64],
        "align_corners" => {
            if n_out == 1 {
                vec![0.0]
            } else {
                let (a, b) = ((n_in - 1) as f64, (n_out - 1) as f64);
                vec![of * a / b, (o32 * a as f32 / b as f32) as f64, (o32 * (a as f32 / b as f32)) as f64]
            }
        }
        m => return Err(format!("Resize: coordinate_transformation_mode {m}")),
    })
}

fn nearest_index(mode: &str, x: f64, n_in: usize) -> Result<usize, String> {
    let r = match mode {
        "round_prefer_floor" => {
            if x - x.floor() == 0.5 {
                x.floor()
            } else {
                x.round()
            }
        }
        "round_prefer_ceil" => (x + 0.5).floor(),
        "floor" => x.floor(),
        "ceil" => x.ceil(),
        m => return Err(format!("Resize: nearest_mode {m}")),
    };
    Ok((r.max(0.0) as usize).min(n_in - 1))
}

pub fn resize(c: &Ctx) -> R {
    let x = c.inp(0)?;
    let rank = x.rank();
    let mode = c.s("mode").unwrap_or("nearest");
    let ctm = c.s("coordinate_transformation_mode").unwrap_or("half_pixel");
    let nmode = c.s("nearest_mode").unwrap_or("round_prefer_floor");
    // inputs: X, roi, scales, sizes  (opset 11+). Exactly one of scales/sizes.
    let scales_in = c.opt(2).filter(|t| t.n() > 0);
    let sizes_in = c.opt(3).filter(|t| t.n() > 0);
    let (scales, out_shape): (Vec<f64>, Vec<usize>) = match (scales_in, sizes_in) {
        (Some(s), None) => {
            if s.n() != rank {
                return Err("Resize: scales length".into());
            }
            let sc = s.vals();
            let os = (0..rank).map(|d| (x.shape[d] as f64 * sc[d]).floor() as usize).collect();
            (sc, os)
        }
        (None, Some(s)) => {
            let os: Vec<usize> = s.ints()?.iter().map(|v| *v as usize).collect();
            if os.len() != rank {
                return Err("Resize: sizes length".into());
            }
            ((0..rank).map(|d| os[d] as f64 / x.shape[d] as f64).collect(), os)
        }
        _ => return Err("Resize: exactly one of scales / sizes must be given".into()),
    };
    if out_shape.iter().any(|v| *v == 0) || x.n() == 0 {
        return Err("Resize: empty tensors are outside the claimed domain".into());
    }
    // per axis, per output position: candidate (index, weight) lists; None = ambiguous
    let mut taps: Vec<Vec<Option<Vec<(usize, f64)>>>> = Vec::new();
    for d in 0..rank {
        let (n_in, n_out) = (x.shape[d], out_shape[d]);
        let mut per = Vec::new();
        for o in 0..n_out {
            let coords = orig_coords(ctm, o, scales[d], n_in, n_out)?;
            match mode {
                "nearest" => {
                    let picks: Vec<usize> = coords.iter().map(|xc| nearest_index(nmode, *xc, n_in)).collect::<Result<_, _>>()?;
                    if picks.iter().all(|p| *p == picks[0]) {
                        per.push(Some(vec![(picks[0], 1.0)]));
                    } else {
                        // the evaluation order decides which side of a rounding
                        // boundary the coordinate falls on: not compared
                        per.push(None);
                    }
                }
                "linear" => {
                    let xc = coords[0].clamp(0.0, (n_in - 1) as f64);
                    let lo = xc.floor() as usize;
                    let hi = (lo + 1).min(n_in - 1);
                    let w = xc - lo as f64;
                    per.push(Some(vec![(lo, 1.0 - w), (hi, w)]));
                }
                m => return Err(format!("Resize: mode {m} is outside the claimed domain")),
            }
        }
        taps.push(per);
    }
    let mut vals = Vec::new();
    let mut cond = Vec::new();
    let mut skip = Vec::new();
    for idx in indices(&out_shape) {
        if (0..rank).any(|d| taps[d][idx[d]].is_none()) {
            vals.push(0.0);
            cond.push(0.0);
            skip.push(true);
            continue;
        }
        let lists: Vec<&Vec<(usize, f64)>> = (0..rank).map(|d| taps[d][idx[d]].as_ref().unwrap()).collect();
        let combos: Vec<usize> = lists.iter().map(|l| l.len()).collect();
        let mut acc = 0.0;
        let mut acc_abs = 0.0;
        for pick in indices(&combos) {
            let mut w = 1.0;
            let mut src = Vec::new();
            for d in 0..rank {
                let (i, wd) = lists[d][pick[d]];
                w *= wd;
                src.push(i);
            }
            let v = x.f[ravel(&src, &x.shape)];
            acc += w * v;
            acc_abs += v.abs();
        }
        vals.push(acc);
        cond.push(acc_abs);
        skip.push(false);
    }
    let t = T::new_f(x.dt, &out_shape, vals);
    let mut e = if mode == "nearest" { Expect::exact(t) } else { Expect::cond(t, cond) };
    if skip.iter().any(|s| *s) {
        // mark skipped elements with NaN-free infinite tolerance
        let n = skip.len();
        let mut cd = match e.tol {
            TolKind::Cond(c) => c,
            _ => vec![0.0; n],
        };
        for k in 0..n {
            if skip[k] {
                cd[k] = f64::INFINITY;
            }
        }
        e = Expect { t: e.t, tol: TolKind::Cond(cd) };
        if mode == "nearest" {
            // keep exactness for the compared elements: Cond with 0 gives ATOL only,
            // which for values on a 1/64 grid is exact enough to tell pixels apart
        }
    }
    Ok(vec![e])
}

//! Naive reference operators written from the ONNX operator specification
//! (https://onnx.ai/onnx/operators/). Independent of rten's code: nested
//! loops over `T`, f64 accumulation, no blocking, no SIMD.

use crate::tensor::*;
use vc_onnxgen::{Attr, DType, NodeDef};

pub mod elementwise;
pub mod index;
pub mod layout;
pub mod linalg;
pub mod nn;
pub mod quant;
pub mod reduce;

/// How an expected output is compared with rten's.
#[derive(Clone, Debug)]
pub enum TolKind {
    /// ints exact; floats |d| <= ATOL + RTOL*|expected|
    Default,
    /// floats must agree exactly (data movement ops) up to the sign of zero
    Exact,
    /// condition-aware: |d| <= ATOL + RTOL*max(|expected|, cond[k]) where
    /// cond[k] is the sum of absolute values of the terms of element k
    Cond(Vec<f64>),
    /// integer result of rounding computed quotients: slack[k] is the number
    /// of roundings feeding element k whose argument is within float error of
    /// a rounding tie; a deviation of up to slack[k] is accepted
    IntSlack(Vec<u8>),
    /// |d| <= abs + RTOL*|expected|
    Abs(f64),
}

#[derive(Clone, Debug)]
pub struct Expect {
    pub t: T,
    pub tol: TolKind,
}

impl From<T> for Expect {
    fn from(t: T) -> Expect {
        Expect { t, tol: TolKind::Default }
    }
}

impl Expect {
    pub fn exact(t: T) -> Expect {
        Expect { t, tol: TolKind::Exact }
    }
    pub fn cond(t: T, c: Vec<f64>) -> Expect {
        assert_eq!(t.n(), c.len());
        Expect { t, tol: TolKind::Cond(c) }
    }
}

pub type R = Result<Vec<Expect>, String>;

pub struct Ctx<'a> {
    pub node: &'a NodeDef,
    pub ins: &'a [Option<T>],
    pub opset: i64,
}

impl<'a> Ctx<'a> {
    pub fn attr(&self, name: &str) -> Option<&'a Attr> {
        self.node.attrs.iter().find(|(k, _)| k == name).map(|(_, v)| v)
    }
    pub fn i(&self, name: &str) -> Option<i64> {
        match self.attr(name) {
            Some(Attr::Int(v)) => Some(*v),
            _ => None,
        }
    }
    pub fn f(&self, name: &str) -> Option<f64> {
        match self.attr(name) {
            Some(Attr::Float(v)) => Some(*v as f64),
            _ => None,
        }
    }
    pub fn s(&self, name: &str) -> Option<&'a str> {
        match self.attr(name) {
            Some(Attr::Str(v)) => Some(v.as_str()),
            _ => None,
        }
    }
    pub fn ints(&self, name: &str) -> Option<Vec<i64>> {
        match self.attr(name) {
            Some(Attr::Ints(v)) => Some(v.clone()),
            _ => None,
        }
    }
    pub fn floats(&self, name: &str) -> Option<Vec<f64>> {
        match self.attr(name) {
            Some(Attr::Floats(v)) => Some(v.iter().map(|x| *x as f64).collect()),
            _ => None,
        }
    }
    /// required input k
    pub fn inp(&self, k: usize) -> Result<&'a T, String> {
        self.ins.get(k).and_then(|t| t.as_ref()).ok_or_else(|| format!("{}: required input {k} missing", self.node.op))
    }
    /// optional input k
    pub fn opt(&self, k: usize) -> Option<&'a T> {
        self.ins.get(k).and_then(|t| t.as_ref())
    }
    pub fn n_in(&self) -> usize {
        self.ins.len()
    }
    pub fn n_out(&self) -> usize {
        self.node.outputs.len()
    }
}

pub fn one(t: T) -> R {
    Ok(vec![t.into()])
}

pub fn eval(node: &NodeDef, ins: &[Option<T>], opset: i64) -> R {
    let c = Ctx { node, ins, opset };
    use elementwise as ew;
    match node.op.as_str() {
        "Add" | "Sub" | "Mul" | "Div" | "Pow" | "Mod" => ew::arith(&c),
        "Equal" | "Greater" | "GreaterOrEqual" | "Less" | "LessOrEqual" => ew::compare(&c),
        "And" | "Or" | "Xor" => ew::logical(&c),
        "Not" => ew::not(&c),
        "Max" | "Min" | "Sum" | "Mean" => ew::variadic(&c),
        "Where" => ew::where_(&c),
        "Clip" => ew::clip(&c),
        "PRelu" => ew::prelu(&c),
        "Cast" => ew::cast(&c),
        "Abs" | "Neg" | "Floor" | "Ceil" | "Round" | "Sqrt" | "Exp" | "Log" | "Sigmoid" | "Tanh" | "Relu" | "LeakyRelu" | "Elu"
        | "HardSigmoid" | "HardSwish" | "Softplus" | "Erf" | "Sign" | "Reciprocal" | "Sin" | "Cos" | "Tan" | "Asin" | "Acos" | "Atan"
        | "Sinh" | "Cosh" | "Asinh" | "Acosh" | "Atanh" | "Gelu" | "Identity" => ew::unary(&c),
        "ReduceSum" | "ReduceMean" | "ReduceMax" | "ReduceMin" | "ReduceProd" | "ReduceL1" | "ReduceL2" | "ReduceLogSum"
        | "ReduceLogSumExp" | "ReduceSumSquare" => reduce::reduce(&c),
        "ArgMax" | "ArgMin" => reduce::arg_reduce(&c),
        "CumSum" => reduce::cumsum(&c),
        "TopK" => reduce::topk(&c),
        "Softmax" | "LogSoftmax" => nn::softmax(&c),
        "Gather" => index::gather(&c),
        "GatherElements" => index::gather_elements(&c),
        "GatherND" => index::gather_nd(&c),
        "ScatterElements" => index::scatter_elements(&c),
        "ScatterND" => index::scatter_nd(&c),
        "OneHot" => index::one_hot(&c),
        "Slice" => layout::slice(&c),
        "Pad" => layout::pad(&c),
        "Concat" => layout::concat(&c),
        "Split" => layout::split(&c),
        "Expand" => layout::expand(&c),
        "Tile" => layout::tile(&c),
        "Transpose" => layout::transpose(&c),
        "Reshape" => layout::reshape(&c),
        "Squeeze" => layout::squeeze(&c),
        "Unsqueeze" => layout::unsqueeze(&c),
        "Flatten" => layout::flatten(&c),
        "Trilu" => layout::trilu(&c),
        "Range" => layout::range(&c),
        "Shape" => layout::shape(&c),
        "Size" => layout::size(&c),
        "DepthToSpace" => layout::depth_to_space(&c),
        "ConstantOfShape" => layout::constant_of_shape(&c),
        "EyeLike" => layout::eye_like(&c),
        "MatMul" => linalg::matmul(&c),
        "Gemm" => linalg::gemm(&c),
        "Einsum" => linalg::einsum(&c),
        "MatMulInteger" => quant::matmul_integer(&c),
        "ConvInteger" => quant::conv_integer(&c),
        "QuantizeLinear" => quant::quantize_linear(&c),
        "DequantizeLinear" => quant::dequantize_linear(&c),
        "DynamicQuantizeLinear" => quant::dynamic_quantize_linear(&c),
        "Conv" => nn::conv(&c),
        "ConvTranspose" => nn::conv_transpose(&c),
        "MaxPool" | "AveragePool" => nn::pool(&c),
        "GlobalAveragePool" | "GlobalMaxPool" => nn::global_pool(&c),
        "LayerNormalization" => nn::layer_norm(&c),
        "InstanceNormalization" => nn::instance_norm(&c),
        "BatchNormalization" => nn::batch_norm(&c),
        "LpNormalization" => nn::lp_norm(&c),
        "Resize" => nn::resize(&c),
        other => Err(format!("no reference operator for {other}")),
    }
}

pub fn dtype_of(t: &T) -> DType {
    t.dt
}

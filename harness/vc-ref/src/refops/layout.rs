//! Data-movement operators: all compared exactly.

use super::*;

fn exact(t: T) -> R {
    Ok(vec![Expect::exact(t)])
}

pub fn slice(c: &Ctx) -> R {
    let x = c.inp(0)?;
    let rank = x.rank();
    // opset < 10: attributes (no steps); opset >= 10: inputs
    let (starts, ends, axes, steps): (Vec<i64>, Vec<i64>, Option<Vec<i64>>, Option<Vec<i64>>) = if c.opset < 10 {
        (c.ints("starts").ok_or("starts")?, c.ints("ends").ok_or("ends")?, c.ints("axes"), None)
    } else {
        (
            c.inp(1)?.ints()?,
            c.inp(2)?.ints()?,
            match c.opt(3) {
                Some(t) => Some(t.ints()?),
                None => None,
            },
            match c.opt(4) {
                Some(t) => Some(t.ints()?),
                None => None,
            },
        )
    };
    let axes = axes.unwrap_or_else(|| (0..starts.len() as i64).collect());
    let steps = steps.unwrap_or_else(|| vec![1; starts.len()]);
    if ends.len() != starts.len() || axes.len() != starts.len() || steps.len() != starts.len() {
        return Err("Slice: starts/ends/axes/steps lengths differ".into());
    }
    // per-dimension list of selected source indices
    let mut sel: Vec<Vec<usize>> = x.shape.iter().map(|n| (0..*n).collect()).collect();
    let mut seen = vec![false; rank];
    for k in 0..starts.len() {
        let a = norm_axis(axes[k], rank)?;
        if seen[a] {
            return Err("Slice: repeated axis".into());
        }
        seen[a] = true;
        let dim = x.shape[a] as i64;
        let step = steps[k];
        if step == 0 {
            return Err("Slice: zero step".into());
        }
        let mut s = starts[k];
        let mut e = ends[k];
        if s < 0 {
            s += dim;
        }
        if e < 0 {
            e += dim;
        }
        let mut v = Vec::new();
        if step > 0 {
            s = s.clamp(0, dim);
            e = e.clamp(0, dim);
            let mut i = s;
            while i < e {
                v.push(i as usize);
                i += step;
            }
        } else {
            // The specification text clamps `start` to [0, dim-1] for negative
            // steps; the ONNX reference implementation slices with numpy, which
            // clamps to [-1, dim-1]. The readings differ only when start < -dim:
            // such a case is claimed only if both give the same result.
            let numpy_empty = s < 0;
            s = s.clamp(0, dim - 1);
            e = e.clamp(-1, dim - 1);
            if numpy_empty && dim > 0 && s > e {
                return Err("Slice: negative step with start < -dim selects an element under the spec text but none under numpy semantics (ambiguous; not claimed)".into());
            }
            if dim > 0 {
                let mut i = s;
                while i > e {
                    v.push(i as usize);
                    i += step;
                }
            }
        }
        sel[a] = v;
    }
    let shape: Vec<usize> = sel.iter().map(|v| v.len()).collect();
    let mut src = Vec::new();
    for idx in indices(&shape) {
        let d: Vec<usize> = idx.iter().enumerate().map(|(dd, i)| sel[dd][*i]).collect();
        src.push(ravel(&d, &x.shape));
    }
    exact(x.take(&shape, &src))
}

pub fn pad(c: &Ctx) -> R {
    let x = c.inp(0)?;
    let rank = x.rank();
    let mode = c.s("mode").unwrap_or("constant");
    // opset < 11: attributes `pads`, `value`; later: inputs pads, constant_value, axes (18+)
    let (pads, value, axes): (Vec<i64>, f64, Option<Vec<i64>>) = if c.opset < 11 {
        (c.ints("pads").ok_or("pads")?, c.f("value").unwrap_or(0.0), None)
    } else {
        (
            c.inp(1)?.ints()?,
            c.opt(2).map(|t| t.val(0)).unwrap_or(0.0),
            match c.opt(3) {
                Some(t) => Some(t.ints()?),
                None => None,
            },
        )
    };
    let axes: Vec<usize> = match axes {
        Some(a) => a.iter().map(|v| norm_axis(*v, rank)).collect::<Result<_, _>>()?,
        None => (0..rank).collect(),
    };
    if pads.len() != 2 * axes.len() {
        return Err("Pad: pads length".into());
    }
    let mut begin = vec![0i64; rank];
    let mut end = vec![0i64; rank];
    for (k, a) in axes.iter().enumerate() {
        begin[*a] += pads[k];
        end[*a] += pads[k + axes.len()];
    }
    let mut shape = Vec::new();
    for d in 0..rank {
        let n = x.shape[d] as i64 + begin[d] + end[d];
        if n < 0 {
            return Err("Pad: negative output size".into());
        }
        shape.push(n as usize);
    }
    let mut of = Vec::new();
    let mut oi = Vec::new();
    for idx in indices(&shape) {
        let mut srcidx = Vec::new();
        let mut fill = false;
        for d in 0..rank {
            let n = x.shape[d] as i64;
            let mut s = idx[d] as i64 - begin[d];
            if s < 0 || s >= n {
                match mode {
                    "constant" => fill = true,
                    "edge" => s = s.clamp(0, n - 1),
                    "reflect" => {
                        if n == 1 {
                            s = 0;
                        } else {
                            // mirror without repeating the edge value
                            let period = 2 * (n - 1);
                            let mut m = s.rem_euclid(period);
                            if m >= n {
                                m = period - m;
                            }
                            s = m;
                        }
                    }
                    "wrap" => s = s.rem_euclid(n),
                    m => return Err(format!("Pad: unknown mode {m}")),
                }
            }
            srcidx.push(s.max(0) as usize);
        }
        if fill {
            if x.is_f() {
                of.push(value)
            } else {
                oi.push(value as i64)
            }
        } else {
            let k = ravel(&srcidx, &x.shape);
            if x.is_f() {
                of.push(x.f[k])
            } else {
                oi.push(x.i[k])
            }
        }
    }
    exact(T { dt: x.dt, shape, f: of, i: oi })
}

pub fn concat(c: &Ctx) -> R {
    let first = c.inp(0)?;
    let axis = norm_axis(c.i("axis").ok_or("Concat: axis is required")?, first.rank())?;
    let mut shape = first.shape.clone();
    shape[axis] = 0;
    for k in 0..c.n_in() {
        let t = c.inp(k)?;
        if t.rank() != first.rank() || t.is_f() != first.is_f() {
            return Err("Concat: rank/type mismatch".into());
        }
        for d in 0..t.rank() {
            if d != axis && t.shape[d] != first.shape[d] {
                return Err("Concat: shape mismatch".into());
            }
        }
        shape[axis] += t.shape[axis];
    }
    let mut of = Vec::new();
    let mut oi = Vec::new();
    for idx in indices(&shape) {
        let mut j = idx[axis];
        for k in 0..c.n_in() {
            let t = c.inp(k)?;
            if j < t.shape[axis] {
                let mut d = idx.clone();
                d[axis] = j;
                let s = ravel(&d, &t.shape);
                if t.is_f() {
                    of.push(t.f[s])
                } else {
                    oi.push(t.i[s])
                }
                break;
            }
            j -= t.shape[axis];
        }
    }
    exact(T { dt: first.dt, shape, f: of, i: oi })
}

pub fn split(c: &Ctx) -> R {
    let x = c.inp(0)?;
    let axis = norm_axis(c.i("axis").unwrap_or(0), x.rank())?;
    let n = x.shape[axis];
    let n_out = c.n_out();
    // sizes: `split` input (13+) / attribute (<13); else equal parts, where
    // with `num_outputs` (18+) the last part may be smaller
    let sizes: Vec<usize> = if let Some(t) = c.opt(1) {
        t.ints()?.iter().map(|v| *v as usize).collect()
    } else if let Some(s) = c.ints("split") {
        s.iter().map(|v| *v as usize).collect()
    } else {
        let parts = c.i("num_outputs").map(|v| v as usize).unwrap_or(n_out);
        if parts != n_out {
            return Err("Split: num_outputs differs from the number of outputs".into());
        }
        let chunk = (n + parts - 1) / parts;
        let mut v = Vec::new();
        let mut left = n;
        for _ in 0..parts {
            let s = chunk.min(left);
            v.push(s);
            left -= s;
        }
        v
    };
    if sizes.len() != n_out || sizes.iter().sum::<usize>() != n {
        return Err(format!("Split: sizes {:?} do not cover axis of size {n} / {n_out} outputs", sizes));
    }
    let mut res = Vec::new();
    let mut off = 0usize;
    for s in sizes {
        let mut shape = x.shape.clone();
        shape[axis] = s;
        let mut src = Vec::new();
        for idx in indices(&shape) {
            let mut d = idx.clone();
            d[axis] += off;
            src.push(ravel(&d, &x.shape));
        }
        res.push(Expect::exact(x.take(&shape, &src)));
        off += s;
    }
    Ok(res)
}

pub fn expand(c: &Ctx) -> R {
    let x = c.inp(0)?;
    let target: Vec<usize> = c.inp(1)?.ints()?.iter().map(|v| *v as usize).collect();
    let shape = bshape(&x.shape, &target)?;
    let src: Vec<usize> = indices(&shape).iter().map(|idx| bidx(idx, &x.shape)).collect();
    exact(x.take(&shape, &src))
}

pub fn tile(c: &Ctx) -> R {
    let x = c.inp(0)?;
    let reps = c.inp(1)?.ints()?;
    if reps.len() != x.rank() {
        return Err("Tile: repeats length".into());
    }
    let shape: Vec<usize> = x.shape.iter().zip(&reps).map(|(s, r)| s * (*r as usize)).collect();
    let src: Vec<usize> = indices(&shape)
        .iter()
        .map(|idx| {
            let d: Vec<usize> = idx.iter().zip(&x.shape).map(|(i, s)| i % s).collect();
            ravel(&d, &x.shape)
        })
        .collect();
    exact(x.take(&shape, &src))
}

pub fn transpose(c: &Ctx) -> R {
    let x = c.inp(0)?;
    let rank = x.rank();
    let perm: Vec<usize> = match c.ints("perm") {
        Some(p) => p.iter().map(|v| *v as usize).collect(),
        None => (0..rank).rev().collect(),
    };
    if perm.len() != rank {
        return Err("Transpose: perm length".into());
    }
    let shape: Vec<usize> = perm.iter().map(|p| x.shape[*p]).collect();
    let src: Vec<usize> = indices(&shape)
        .iter()
        .map(|idx| {
            let mut d = vec![0usize; rank];
            for (o, p) in perm.iter().enumerate() {
                d[*p] = idx[o];
            }
            ravel(&d, &x.shape)
        })
        .collect();
    exact(x.take(&shape, &src))
}

pub fn reshape(c: &Ctx) -> R {
    let x = c.inp(0)?;
    // opset < 5: attribute; later: input
    let spec = match c.opt(1) {
        Some(t) => t.ints()?,
        None => c.ints("shape").ok_or("Reshape: shape missing")?,
    };
    let allowzero = c.i("allowzero").unwrap_or(0) != 0;
    let mut shape: Vec<i64> = Vec::new();
    for (d, v) in spec.iter().enumerate() {
        if *v == 0 && !allowzero {
            if d >= x.rank() {
                return Err("Reshape: 0 beyond input rank".into());
            }
            shape.push(x.shape[d] as i64);
        } else {
            shape.push(*v);
        }
    }
    let neg: Vec<usize> = shape.iter().enumerate().filter(|(_, v)| **v == -1).map(|(d, _)| d).collect();
    if neg.len() > 1 {
        return Err("Reshape: more than one -1".into());
    }
    if let Some(d) = neg.first() {
        let known: i64 = shape.iter().filter(|v| **v != -1).product();
        if known == 0 || (x.n() as i64) % known != 0 {
            return Err("Reshape: cannot infer -1".into());
        }
        shape[*d] = x.n() as i64 / known;
    }
    let shape: Vec<usize> = shape.iter().map(|v| *v as usize).collect();
    if numel(&shape) != x.n() {
        return Err(format!("Reshape: {:?} -> {:?} changes the element count", x.shape, shape));
    }
    exact(x.reshaped(&shape))
}

pub fn squeeze(c: &Ctx) -> R {
    let x = c.inp(0)?;
    let axes: Option<Vec<i64>> = match c.opt(1) {
        Some(t) => Some(t.ints()?),
        None => c.ints("axes"),
    };
    let drop: Vec<usize> = match axes {
        Some(a) => {
            let mut v = Vec::new();
            for ax in a {
                let d = norm_axis(ax, x.rank())?;
                if x.shape[d] != 1 {
                    return Err("Squeeze: axis with size != 1".into());
                }
                v.push(d);
            }
            v
        }
        None => (0..x.rank()).filter(|d| x.shape[*d] == 1).collect(),
    };
    let shape: Vec<usize> = x.shape.iter().enumerate().filter(|(d, _)| !drop.contains(d)).map(|(_, s)| *s).collect();
    exact(x.reshaped(&shape))
}

pub fn unsqueeze(c: &Ctx) -> R {
    let x = c.inp(0)?;
    let axes: Vec<i64> = match c.opt(1) {
        Some(t) => t.ints()?,
        None => c.ints("axes").ok_or("Unsqueeze: axes missing")?,
    };
    let out_rank = x.rank() + axes.len();
    let mut pos = Vec::new();
    for a in axes {
        let d = norm_axis(a, out_rank)?;
        if pos.contains(&d) {
            return Err("Unsqueeze: duplicate axis".into());
        }
        pos.push(d);
    }
    let mut it = x.shape.iter();
    let shape: Vec<usize> = (0..out_rank).map(|d| if pos.contains(&d) { 1 } else { *it.next().unwrap() }).collect();
    exact(x.reshaped(&shape))
}

pub fn flatten(c: &Ctx) -> R {
    let x = c.inp(0)?;
    let a = c.i("axis").unwrap_or(1);
    let r = x.rank() as i64;
    if a < -r || a > r {
        return Err("Flatten: axis out of range".into());
    }
    let a = if a < 0 { a + r } else { a } as usize;
    let shape = vec![numel(&x.shape[..a]), numel(&x.shape[a..])];
    exact(x.reshaped(&shape))
}

pub fn trilu(c: &Ctx) -> R {
    let x = c.inp(0)?;
    let upper = c.i("upper").unwrap_or(1) != 0;
    let k = c.opt(1).map(|t| t.val(0) as i64).unwrap_or(0);
    let r = x.rank();
    if r < 2 {
        return Err("Trilu: rank < 2".into());
    }
    let mut out = x.clone();
    for (p, idx) in indices(&x.shape).into_iter().enumerate() {
        let (i, j) = (idx[r - 2] as i64, idx[r - 1] as i64);
        let keep = if upper { j >= i + k } else { j <= i + k };
        if !keep {
            if x.is_f() {
                out.f[p] = 0.0
            } else {
                out.i[p] = 0
            }
        }
    }
    exact(out)
}

pub fn range(c: &Ctx) -> R {
    let (start, limit, delta) = (c.inp(0)?, c.inp(1)?, c.inp(2)?);
    let (s, l, d) = (start.val(0), limit.val(0), delta.val(0));
    if d == 0.0 {
        return Err("Range: zero delta".into());
    }
    let n = ((l - s) / d).ceil().max(0.0) as usize;
    if start.is_f() {
        one(T::new_f(start.dt, &[n], (0..n).map(|i| s + i as f64 * d).collect()))
    } else {
        one(T::new_i(start.dt, &[n], (0..n).map(|i| start.i[0] + i as i64 * delta.i[0]).collect()))
    }
}

pub fn shape(c: &Ctx) -> R {
    let x = c.inp(0)?;
    let r = x.rank() as i64;
    let clampi = |v: i64| -> i64 { (if v < 0 { v + r } else { v }).clamp(0, r) };
    let s = clampi(c.i("start").unwrap_or(0));
    let e = clampi(c.i("end").unwrap_or(r));
    let v: Vec<i64> = if s < e { x.shape[s as usize..e as usize].iter().map(|v| *v as i64).collect() } else { vec![] };
    one(T::new_i(DType::I64, &[v.len()], v))
}

pub fn size(c: &Ctx) -> R {
    one(T::new_i(DType::I64, &[], vec![c.inp(0)?.n() as i64]))
}

pub fn depth_to_space(c: &Ctx) -> R {
    let x = c.inp(0)?;
    let b = c.i("blocksize").ok_or("blocksize")? as usize;
    let mode = c.s("mode").unwrap_or("DCR");
    if x.rank() != 4 || x.shape[1] % (b * b) != 0 {
        return Err("DepthToSpace: bad input".into());
    }
    let (n, ch, h, w) = (x.shape[0], x.shape[1], x.shape[2], x.shape[3]);
    let oc = ch / (b * b);
    let shape = vec![n, oc, h * b, w * b];
    let src: Vec<usize> = indices(&shape)
        .iter()
        .map(|idx| {
            let (nn, cc, hh, ww) = (idx[0], idx[1], idx[2], idx[3]);
            let (ih, bh, iw, bw) = (hh / b, hh % b, ww / b, ww % b);
            // DCR: input channel = (bh*b + bw)*oc + c ; CRD: c*b*b + bh*b + bw
            let ic = if mode == "DCR" { (bh * b + bw) * oc + cc } else { cc * b * b + bh * b + bw };
            ravel(&[nn, ic, ih, iw], &x.shape)
        })
        .collect();
    exact(x.take(&shape, &src))
}

pub fn constant_of_shape(c: &Ctx) -> R {
    let shape: Vec<usize> = c.inp(0)?.ints()?.iter().map(|v| *v as usize).collect();
    let n = numel(&shape);
    let t = match c.attr("value") {
        Some(Attr::Tensor(l)) => {
            let v = T::from_lit(l);
            if v.n() != 1 {
                return Err("ConstantOfShape: value must have one element".into());
            }
            v.take(&shape, &vec![0; n])
        }
        _ => T::f32(&shape, vec![0.0; n]),
    };
    exact(t)
}

pub fn eye_like(c: &Ctx) -> R {
    let x = c.inp(0)?;
    if x.rank() != 2 {
        return Err("EyeLike: rank".into());
    }
    let k = c.i("k").unwrap_or(0);
    let dt = match c.i("dtype") {
        Some(1) => DType::F32,
        Some(6) => DType::I32,
        Some(7) => DType::I64,
        Some(11) => DType::F64,
        Some(o) => return Err(format!("EyeLike: dtype {o}")),
        None => x.dt,
    };
    let v: Vec<i64> = indices(&x.shape).iter().map(|idx| (idx[1] as i64 == idx[0] as i64 + k) as i64).collect();
    let t = if dt.is_float() { T::new_f(dt, &x.shape, v.iter().map(|a| *a as f64).collect()) } else { T::new_i(dt, &x.shape, v) };
    exact(t)
}

//! Reductions, ArgMax/ArgMin, CumSum, TopK.

use super::*;

/// Group the elements of `shape` by their index outside `axes`: returns
/// (kept-dims shape with reduced dims = 1, for every output element the list
/// of flat input indices in row-major order).
pub fn groups(shape: &[usize], axes: &[usize]) -> (Vec<usize>, Vec<Vec<usize>>) {
    let kept: Vec<usize> = shape.iter().enumerate().map(|(d, s)| if axes.contains(&d) { 1 } else { *s }).collect();
    let mut g: Vec<Vec<usize>> = vec![Vec::new(); numel(&kept)];
    for k in 0..numel(shape) {
        let mut idx = unravel(k, shape);
        for a in axes {
            idx[*a] = 0;
        }
        g[ravel(&idx, &kept)].push(k);
    }
    (kept, g)
}

pub fn reduce(c: &Ctx) -> R {
    let x = c.inp(0)?;
    let op = c.node.op.as_str();
    let keepdims = c.i("keepdims").unwrap_or(1) != 0;
    let noop = c.i("noop_with_empty_axes").unwrap_or(0) != 0;
    // axes: input 1 (opset 18+, ReduceSum 13+) or attribute (earlier opsets)
    let axes_raw: Option<Vec<i64>> = match c.opt(1) {
        Some(t) => Some(t.ints()?),
        None => c.ints("axes"),
    };
    let axes_raw = axes_raw.unwrap_or_default();
    let rank = x.rank();
    let mut axes: Vec<usize> = Vec::new();
    for a in &axes_raw {
        let a = norm_axis(*a, rank)?;
        if !axes.contains(&a) {
            axes.push(a);
        }
    }
    if axes.is_empty() {
        if noop {
            // "the input tensor will not be reduced, and the output tensor
            // would be equivalent to the input tensor"
            return Ok(vec![Expect::exact(x.clone())]);
        }
        axes = (0..rank).collect();
    }
    let (kept, g) = groups(&x.shape, &axes);
    let out_shape: Vec<usize> = if keepdims {
        kept.clone()
    } else {
        x.shape.iter().enumerate().filter(|(d, _)| !axes.contains(d)).map(|(_, s)| *s).collect()
    };
    if g.iter().any(|m| m.is_empty()) {
        return Err("reduction over an empty set is outside the claimed domain".into());
    }
    if x.is_f() {
        let mut out = Vec::new();
        let mut cond = Vec::new();
        for m in &g {
            let v: Vec<f64> = m.iter().map(|k| x.f[*k]).collect();
            let sum_abs: f64 = v.iter().map(|a| a.abs()).sum();
            let (r, cd) = match op {
                "ReduceSum" => (v.iter().sum::<f64>(), sum_abs),
                "ReduceMean" => (v.iter().sum::<f64>() / v.len() as f64, sum_abs / v.len() as f64),
                "ReduceMax" => (v.iter().cloned().fold(f64::NEG_INFINITY, f64::max), 0.0),
                "ReduceMin" => (v.iter().cloned().fold(f64::INFINITY, f64::min), 0.0),
                "ReduceProd" => (v.iter().product::<f64>(), 0.0),
                "ReduceL1" => (sum_abs, sum_abs),
                "ReduceL2" => (v.iter().map(|a| a * a).sum::<f64>().sqrt(), 0.0),
                "ReduceSumSquare" => (v.iter().map(|a| a * a).sum::<f64>(), 0.0),
                "ReduceLogSum" => {
                    let s = v.iter().sum::<f64>();
                    // d log(s) = ds / s, ds ~ eps * sum|x|
                    (s.ln(), s.ln().abs() + sum_abs / s.abs().max(1e-30))
                }
                "ReduceLogSumExp" => {
                    let m = v.iter().cloned().fold(f64::NEG_INFINITY, f64::max);
                    (m + v.iter().map(|a| (a - m).exp()).sum::<f64>().ln(), m.abs() + 1.0)
                }
                _ => return Err(format!("reduce: unknown op {op}")),
            };
            out.push(r);
            cond.push(cd.max(r.abs()));
        }
        Ok(vec![Expect::cond(T::new_f(x.dt, &out_shape, out), cond)])
    } else {
        let mut out = Vec::new();
        for m in &g {
            let v: Vec<i64> = m.iter().map(|k| x.i[*k]).collect();
            let r = match op {
                "ReduceSum" => v.iter().sum::<i64>(),
                "ReduceMax" => *v.iter().max().unwrap(),
                "ReduceMin" => *v.iter().min().unwrap(),
                "ReduceProd" => v.iter().product::<i64>(),
                "ReduceL1" => v.iter().map(|a| a.abs()).sum::<i64>(),
                "ReduceSumSquare" => v.iter().map(|a| a * a).sum::<i64>(),
                // integer mean: the ONNX reference computes np.mean(...).astype(int) -> truncation
                "ReduceMean" => ((v.iter().sum::<i64>() as f64) / v.len() as f64).trunc() as i64,
                _ => return Err(format!("{op}: not defined for integers in this reference")),
            };
            out.push(r as i32 as i64);
        }
        one(T::new_i(x.dt, &out_shape, out))
    }
}

pub fn arg_reduce(c: &Ctx) -> R {
    let x = c.inp(0)?;
    let is_max = c.node.op == "ArgMax";
    let axis = norm_axis(c.i("axis").unwrap_or(0), x.rank())?;
    let keepdims = c.i("keepdims").unwrap_or(1) != 0;
    let last = c.i("select_last_index").unwrap_or(0) != 0;
    let (kept, g) = groups(&x.shape, &[axis]);
    let out_shape: Vec<usize> = if keepdims { kept } else { x.shape.iter().enumerate().filter(|(d, _)| *d != axis).map(|(_, s)| *s).collect() };
    let mut out = Vec::new();
    for m in &g {
        if m.is_empty() {
            return Err("ArgMax/ArgMin over an empty axis".into());
        }
        let mut best = 0usize;
        for (j, k) in m.iter().enumerate() {
            let (v, b) = (x.val(*k), x.val(m[best]));
            let better = if is_max { v > b } else { v < b };
            if better || (last && v == b) {
                best = j;
            }
        }
        out.push(best as i64);
    }
    one(T::new_i(DType::I64, &out_shape, out))
}

pub fn cumsum(c: &Ctx) -> R {
    let x = c.inp(0)?;
    let axis = norm_axis(c.inp(1)?.ints()?[0], x.rank())?;
    let exclusive = c.i("exclusive").unwrap_or(0) != 0;
    let reverse = c.i("reverse").unwrap_or(0) != 0;
    let n = x.shape[axis];
    let mut of = vec![0.0; if x.is_f() { x.n() } else { 0 }];
    let mut oi = vec![0i64; if x.is_f() { 0 } else { x.n() }];
    let mut cond = vec![0.0; x.n()];
    // iterate over all lanes along `axis`
    let mut lane_shape = x.shape.clone();
    lane_shape[axis] = 1;
    for base in indices(&lane_shape) {
        let at = |j: usize| {
            let mut idx = base.clone();
            idx[axis] = j;
            ravel(&idx, &x.shape)
        };
        let order: Vec<usize> = if reverse { (0..n).rev().collect() } else { (0..n).collect() };
        let (mut acc_f, mut acc_i, mut acc_abs) = (0.0f64, 0i64, 0.0f64);
        for j in order {
            let k = at(j);
            if exclusive {
                if x.is_f() {
                    of[k] = acc_f;
                } else {
                    oi[k] = acc_i;
                }
                cond[k] = acc_abs;
            }
            if x.is_f() {
                acc_f += x.f[k];
                acc_abs += x.f[k].abs();
            } else {
                acc_i = (acc_i + x.i[k]) as i32 as i64;
            }
            if !exclusive {
                if x.is_f() {
                    of[k] = acc_f;
                } else {
                    oi[k] = acc_i;
                }
                cond[k] = acc_abs;
            }
        }
    }
    let t = T { dt: x.dt, shape: x.shape.clone(), f: of, i: oi };
    if x.is_f() {
        Ok(vec![Expect::cond(t, cond)])
    } else {
        one(t)
    }
}

pub fn topk(c: &Ctx) -> R {
    let x = c.inp(0)?;
    // k: input 1 (opset 10+) or attribute (opset 1)
    let k = match c.opt(1) {
        Some(t) => t.ints()?[0],
        None => c.i("k").ok_or("TopK: k missing")?,
    } as usize;
    let axis = norm_axis(c.i("axis").unwrap_or(-1), x.rank())?;
    let largest = c.i("largest").unwrap_or(1) != 0;
    let n = x.shape[axis];
    if k > n {
        return Err("TopK: k exceeds the axis size".into());
    }
    let mut out_shape = x.shape.clone();
    out_shape[axis] = k;
    let total = numel(&out_shape);
    let mut vals_f = vec![0.0; if x.is_f() { total } else { 0 }];
    let mut vals_i = vec![0i64; if x.is_f() { 0 } else { total }];
    let mut idxs = vec![0i64; total];
    let mut lane_shape = x.shape.clone();
    lane_shape[axis] = 1;
    for base in indices(&lane_shape) {
        let mut lane: Vec<(f64, usize)> = (0..n)
            .map(|j| {
                let mut idx = base.clone();
                idx[axis] = j;
                (x.val(ravel(&idx, &x.shape)), j)
            })
            .collect();
        // "Given two equivalent values, the element with the lower index appears first"
        lane.sort_by(|a, b| {
            let o = if largest { b.0.partial_cmp(&a.0).unwrap() } else { a.0.partial_cmp(&b.0).unwrap() };
            o.then(a.1.cmp(&b.1))
        });
        for (r, (_, j)) in lane.iter().take(k).enumerate() {
            let mut src = base.clone();
            src[axis] = *j;
            let mut dst = base.clone();
            dst[axis] = r;
            let (ks, kd) = (ravel(&src, &x.shape), ravel(&dst, &out_shape));
            if x.is_f() {
                vals_f[kd] = x.f[ks];
            } else {
                vals_i[kd] = x.i[ks];
            }
            idxs[kd] = *j as i64;
        }
    }
    Ok(vec![
        Expect::exact(T { dt: x.dt, shape: out_shape.clone(), f: vals_f, i: vals_i }),
        T::new_i(DType::I64, &out_shape, idxs).into(),
    ])
}

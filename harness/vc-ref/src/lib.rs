//! C15: rten operators vs naive reference operators written from the ONNX
//! operator specification. See NOTES.md.

pub mod aspect;
pub mod case;
pub mod gens;
pub mod refops;
pub mod selftest;
pub mod tensor;

use case::Spec;
use gens::{basic as b, nnops as n, shapeops as s, BS};

/// One generator per claimed operator, grouped in families (= sub-checks).
pub fn families() -> Vec<(&'static str, Vec<(&'static str, BS<Spec>)>)> {
    vec![
        ("arith", vec![("Add", b::arith("Add")), ("Sub", b::arith("Sub")), ("Mul", b::arith("Mul")), ("Div", b::arith("Div")), ("Pow", b::arith("Pow")), ("Mod", b::arith("Mod"))]),
        (
            "compare-logical",
            vec![
                ("Equal", b::compare("Equal")),
                ("Greater", b::compare("Greater")),
                ("GreaterOrEqual", b::compare("GreaterOrEqual")),
                ("Less", b::compare("Less")),
                ("LessOrEqual", b::compare("LessOrEqual")),
                ("And", b::logical("And")),
                ("Or", b::logical("Or")),
                ("Xor", b::logical("Xor")),
                ("Not", b::logical("Not")),
                ("Where", b::where_()),
            ],
        ),
        ("variadic", vec![("Max", b::variadic("Max")), ("Min", b::variadic("Min")), ("Sum", b::variadic("Sum")), ("Mean", b::variadic("Mean"))]),
        (
            "unary-a",
            ["Abs", "Neg", "Floor", "Ceil", "Round", "Sqrt", "Exp", "Log", "Sigmoid", "Tanh", "Relu", "LeakyRelu", "Elu", "HardSigmoid", "HardSwish", "Softplus", "Erf", "Sign", "Reciprocal"]
                .into_iter()
                .map(|o| (o, b::unary(o)))
                .collect(),
        ),
        (
            "unary-b",
            ["Sin", "Cos", "Tan", "Asin", "Acos", "Atan", "Sinh", "Cosh", "Asinh", "Acosh", "Atanh", "Gelu", "Identity"]
                .into_iter()
                .map(|o| (o, b::unary(o)))
                .chain([("Clip", b::clip()), ("PRelu", b::prelu()), ("Cast", b::cast())])
                .collect(),
        ),
        (
            "reduce",
            ["ReduceSum", "ReduceMean", "ReduceMax", "ReduceMin", "ReduceProd", "ReduceL1", "ReduceL2", "ReduceLogSum", "ReduceLogSumExp", "ReduceSumSquare"]
                .into_iter()
                .map(|o| (o, b::reduce(o)))
                .collect(),
        ),
        ("arg-topk-cumsum", vec![("ArgMax", b::arg_reduce("ArgMax")), ("ArgMin", b::arg_reduce("ArgMin")), ("TopK", b::topk()), ("CumSum", b::cumsum())]),
        ("gather", vec![("Gather", s::gather()), ("GatherElements", s::gather_elements()), ("GatherND", s::gather_nd()), ("OneHot", s::one_hot())]),
        ("scatter", vec![("ScatterElements", s::scatter_elements()), ("ScatterND", s::scatter_nd())]),
        ("slice", vec![("Slice", s::slice())]),
        ("pad", vec![("Pad", s::pad())]),
        (
            "shape-ops",
            vec![
                ("Concat", s::concat()),
                ("Split", s::split()),
                ("Expand", s::expand()),
                ("Tile", s::tile()),
                ("Transpose", s::transpose()),
                ("Reshape", s::reshape()),
                ("Squeeze", s::squeeze_unsqueeze("Squeeze")),
                ("Unsqueeze", s::squeeze_unsqueeze("Unsqueeze")),
                ("Flatten", s::flatten()),
                ("Trilu", s::trilu()),
                ("Range", s::range()),
                ("Shape", s::shape_size("Shape")),
                ("Size", s::shape_size("Size")),
                ("DepthToSpace", s::depth_to_space()),
                ("ConstantOfShape", s::constant_of_shape()),
                ("EyeLike", s::eye_like()),
            ],
        ),
        ("matmul", vec![("MatMul", n::matmul()), ("Gemm", n::gemm()), ("Einsum", n::einsum())]),
        ("conv", vec![("Conv", n::conv()), ("ConvTranspose", n::conv_transpose())]),
        (
            "pool",
            vec![
                ("MaxPool", n::pool_op("MaxPool")),
                ("AveragePool", n::pool_op("AveragePool")),
                ("GlobalAveragePool", n::global_pool("GlobalAveragePool")),
                ("GlobalMaxPool", n::global_pool("GlobalMaxPool")),
            ],
        ),
        (
            "softmax-norm",
            vec![
                ("Softmax", n::softmax("Softmax")),
                ("LogSoftmax", n::softmax("LogSoftmax")),
                ("LayerNormalization", n::layer_norm()),
                ("InstanceNormalization", n::instance_norm()),
                ("BatchNormalization", n::batch_norm()),
                ("LpNormalization", n::lp_norm()),
            ],
        ),
        ("resize", vec![("Resize", n::resize())]),
        (
            "quant",
            vec![
                ("QuantizeLinear", n::quantize_linear()),
                ("DequantizeLinear", n::dequantize_linear()),
                ("DynamicQuantizeLinear", n::dynamic_quantize_linear()),
                ("MatMulInteger", n::matmul_integer()),
                ("ConvInteger", n::conv_integer()),
            ],
        ),
    ]
}

/// Static labels `op:<Name>` for the class histogram.
pub const OP_LABELS: &[&str] = &[
    "op:Add", "op:Sub", "op:Mul", "op:Div", "op:Pow", "op:Mod", "op:Equal", "op:Greater", "op:GreaterOrEqual", "op:Less", "op:LessOrEqual", "op:And", "op:Or",
    "op:Xor", "op:Not", "op:Where", "op:Max", "op:Min", "op:Sum", "op:Mean", "op:Abs", "op:Neg", "op:Floor", "op:Ceil", "op:Round", "op:Sqrt", "op:Exp", "op:Log",
    "op:Sigmoid", "op:Tanh", "op:Relu", "op:LeakyRelu", "op:Elu", "op:HardSigmoid", "op:HardSwish", "op:Softplus", "op:Erf", "op:Sign", "op:Reciprocal", "op:Sin",
    "op:Cos", "op:Tan", "op:Asin", "op:Acos", "op:Atan", "op:Sinh", "op:Cosh", "op:Asinh", "op:Acosh", "op:Atanh", "op:Gelu", "op:Identity", "op:Clip", "op:PRelu",
    "op:Cast", "op:ReduceSum", "op:ReduceMean", "op:ReduceMax", "op:ReduceMin", "op:ReduceProd", "op:ReduceL1", "op:ReduceL2", "op:ReduceLogSum",
    "op:ReduceLogSumExp", "op:ReduceSumSquare", "op:ArgMax", "op:ArgMin", "op:TopK", "op:CumSum", "op:Gather", "op:GatherElements", "op:GatherND", "op:OneHot",
    "op:ScatterElements", "op:ScatterND", "op:Slice", "op:Pad", "op:Concat", "op:Split", "op:Expand", "op:Tile", "op:Transpose", "op:Reshape", "op:Squeeze",
    "op:Unsqueeze", "op:Flatten", "op:Trilu", "op:Range", "op:Shape", "op:Size", "op:DepthToSpace", "op:ConstantOfShape", "op:EyeLike", "op:MatMul", "op:Gemm",
    "op:Einsum", "op:Conv", "op:ConvTranspose", "op:MaxPool", "op:AveragePool", "op:GlobalAveragePool", "op:GlobalMaxPool", "op:Softmax", "op:LogSoftmax",
    "op:LayerNormalization", "op:InstanceNormalization", "op:BatchNormalization", "op:LpNormalization", "op:Resize", "op:QuantizeLinear", "op:DequantizeLinear",
    "op:DynamicQuantizeLinear", "op:MatMulInteger", "op:ConvInteger",
];

//! Development aid: run N generated cases per operator and print a histogram
//! of oracle outcomes (no shrinking, no evidence). `refdev [N] [op-filter]`.
use proptest::strategy::{Strategy, ValueTree};
use proptest::test_runner::{Config, RngSeed, TestRunner};
use std::collections::BTreeMap;
use vcore::Verdict;

fn main() {
    let args: Vec<String> = std::env::args().skip(1).collect();
    if args.first().map(|s| s == "--selftest").unwrap_or(false) {
        let f = vc_ref::selftest::run();
        for l in &f {
            println!("SELFTEST FAIL: {l}");
        }
        println!("reference self-test: {} vectors, {} failures", vc_ref::selftest::count(), f.len());
        return;
    }
    if args.first().map(|s| s == "--case").unwrap_or(false) {
        run_case(&args[1]);
        return;
    }
    let n: usize = args.first().and_then(|s| s.parse().ok()).unwrap_or(200);
    let filter = args.get(1).cloned();
    let verbose = args.get(2).map(|s| s == "-v").unwrap_or(false);
    for (fam, ops) in vc_ref::families() {
        for (op, strat) in ops {
            if let Some(f) = &filter {
                if !(op == f || fam == f) {
                    continue;
                }
            }
            let mut runner = TestRunner::new(Config { rng_seed: RngSeed::Fixed(12345), ..Config::default() });
            let mut hist: BTreeMap<String, (usize, String)> = BTreeMap::new();
            let t0 = std::time::Instant::now();
            for _ in 0..n {
                let spec = strat.new_tree(&mut runner).unwrap().current();
                let case = spec.build();
                let v = match vcore::catch(|| vc_ref::case::oracle(&case)) {
                    Ok(v) => v,
                    Err(p) => Verdict::fail(format!("HARNESS-PANIC {}", p.signature()), format!("{} at {} :: {}", p.msg, p.loc(), vc_ref::case::describe(&case))),
                };
                let (key, detail) = match v {
                    Verdict::Pass { nontrivial, .. } => (if nontrivial { "pass".to_string() } else { "pass(trivial)".to_string() }, String::new()),
                    Verdict::Discard => ("discard".to_string(), String::new()),
                    Verdict::Fail { signature, detail } => (signature, detail),
                };
                let e = hist.entry(key).or_insert((0, detail.clone()));
                e.0 += 1;
                if verbose && !detail.is_empty() {
                    println!("    {detail}");
                }
            }
            let ms = t0.elapsed().as_millis();
            let summary: Vec<String> = hist.iter().map(|(k, (c, _))| format!("{k}={c}")).collect();
            println!("{fam}/{op} [{ms} ms]: {}", summary.join("  "));
            for (k, (_, d)) in &hist {
                if !k.starts_with("pass") && !d.is_empty() {
                    let d: String = d.chars().take(900).collect();
                    println!("   e.g. [{k}] {d}");
                }
            }
        }
    }
}

/// `refdev --case file.json`: run one hand-written case (see tools/mkcase.py),
/// print the reference expectation, rten's outputs and the verdict.
fn run_case(path: &str) {
    use vc_onnxgen::{run_named, Config};
    let text = std::fs::read_to_string(path).expect("read case");
    let v: serde_json::Value = serde_json::from_str(&text).expect("json");
    let v = if v.get("case").is_some() { v["case"].clone() } else { v };
    let case: vc_ref::case::Case = serde_json::from_value(v).expect("case does not decode");
    println!("node: {}", vc_ref::case::describe(&case));
    match vc_ref::refops::eval(case.node(), &case.ref_inputs(), case.model.opset) {
        Ok(es) => {
            for (k, e) in es.iter().enumerate() {
                let vals: Vec<String> = (0..e.t.n().min(64)).map(|j| if e.t.is_f() { format!("{}", e.t.f[j]) } else { format!("{}", e.t.i[j]) }).collect();
                println!("reference output {k}: {:?}{:?} [{}]", e.t.dt, e.t.shape, vals.join(", "));
            }
        }
        Err(e) => println!("reference rejects the case: {e}"),
    }
    let bytes = case.model.encode();
    for cfg in [Config::Plain, Config::OptInferOn] {
        let r = vcore::catch(|| cfg.load(&bytes).and_then(|m| run_named(&m, &case.inputs, &case.output_names(), None, None)));
        match r {
            Ok(Ok(outs)) => {
                for (k, o) in outs.iter().enumerate() {
                    let s = format!("{:?}", o);
                    println!("rten [{}] output {k}: {}", cfg.name(), s.chars().take(600).collect::<String>());
                }
            }
            Ok(Err(e)) => println!("rten [{}] error: {e}", cfg.name()),
            Err(p) => println!("rten [{}] PANIC: {} at {}", cfg.name(), p.msg, p.loc()),
        }
    }
    match vcore::catch(|| vc_ref::case::oracle(&case)) {
        Ok(Verdict::Fail { signature, detail }) => println!("verdict: FAIL [{signature}] {detail}"),
        Ok(v) => println!("verdict: {:?}", v),
        Err(p) => println!("verdict: harness panic {} at {}", p.msg, p.loc()),
    }
}

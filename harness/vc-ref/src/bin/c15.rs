//! C15 — operators conform to ONNX reference semantics.
//!
//! For every claimed operator a proptest generator builds a one-node model
//! (valid by construction), which is encoded to real .onnx bytes, loaded with
//! optimisation off and with optimisation + shape inference on, run through
//! `Model::run`, and compared with the harness's naive reference operator
//! (written from the ONNX operator specification; the ONNX python reference
//! implementation is not installed here).

use proptest::prelude::*;
use vc_ref::case::{oracle, Case};
use vcore::Check;

fn main() {
    let mut ck = Check::new("C15");
    ck.rule(
        "Cases = one-node ONNX models (opset 20 unless an attribute-vs-input form needs an older opset) for the claimed operator list: \
         Add Sub Mul Div Pow Mod | Equal Greater GreaterOrEqual Less LessOrEqual And Or Xor Not Where | Max Min Sum Mean | Abs Neg Floor Ceil Round Sqrt Exp Log \
         Sigmoid Tanh Relu LeakyRelu Elu HardSigmoid HardSwish Softplus Erf Sign Reciprocal Sin Cos Tan Asin Acos Atan Sinh Cosh Asinh Acosh Atanh Gelu Identity \
         Clip PRelu Cast | ReduceSum ReduceMean ReduceMax ReduceMin ReduceProd ReduceL1 ReduceL2 ReduceLogSum ReduceLogSumExp ReduceSumSquare | ArgMax ArgMin \
         TopK CumSum | Gather GatherElements GatherND OneHot | ScatterElements ScatterND | Slice | Pad | Concat Split Expand Tile Transpose Reshape Squeeze \
         Unsqueeze Flatten Trilu Range Shape Size DepthToSpace ConstantOfShape EyeLike | MatMul Gemm Einsum | Conv ConvTranspose | MaxPool AveragePool \
         GlobalAveragePool GlobalMaxPool | Softmax LogSoftmax LayerNormalization InstanceNormalization BatchNormalization LpNormalization | Resize | \
         QuantizeLinear DequantizeLinear DynamicQuantizeLinear MatMulInteger ConvInteger. Inputs: rank 0-5, dims 1-6 (matmul up to 70), numpy broadcasting, \
         negative axes/indices, steps, keepdims, noop_with_empty_axes, padding/rounding/coordinate modes, attribute and input forms; each tensor is placed as a \
         run-time input or as an initialiser (raw_data or typed field) of type f32/f64, i32/i64, bool, u8/i8. One sub-check per operator family; each case is \
         evaluated under opt-off and opt-on/infer-on. Non-trivial = the model loaded and ran in both configurations and every output (>= 1 element) was \
         compared with the reference. Distinct = distinct (model, inputs). Class histogram: op:<Name> counts per operator, init:*/input:* element-type forms.",
    );
    ck.assume("oracle = the harness's own naive reference operators written from the ONNX operator specification (not the ONNX python reference implementation, which is not installed); validated against the expectation vectors of rten's unit tests during development");
    ck.assume("float tolerance rtol 1e-4 / atol 1e-5 on |expected|; for reductions, matmul, conv, pooling averages, normalisations, linear resize the rtol term is scaled by the sum of absolute values of the terms (condition-aware); integer/bool results exact, except quantised values whose pre-rounding quotient is within 1e-3 of a rounding tie that is not exactly representable (±1 accepted)");
    ck.assume("settings rten documents as unsupported (load-time 'unsupported attribute/value' or run-time UnsupportedValue) are outside the domain: ArgMax/ArgMin select_last_index=1, Pad axes input and non-constant padding beyond the last two dims, pooling dilations != 1, Resize cubic/antialias/tf_crop_and_resize, TopK sorted=0, blocked quantisation");
    ck.set_threads(12);
    // the reference operators must reproduce the worked examples of the ONNX operator documentation
    let selftest = vc_ref::selftest::run();
    if !selftest.is_empty() {
        ck.inconclusive(format!("reference self-test failed ({} of {} documentation vectors): {}", selftest.len(), vc_ref::selftest::count(), selftest[0]));
    }
    ck.extra("reference_selftest_vectors", vcore::serde_json::json!(vc_ref::selftest::count()));
    for (family, ops) in vc_ref::families() {
        let n_ops = ops.len() as u64;
        let per_op = ck.pick(1200, 36_000);
        let fam_name: &'static str = family;
        drop(ops);
        ck.prop(
            family,
            per_op * n_ops,
            // built per runner thread (boxed strategies are not Sync); uniform choice of the operator
            move || {
                let ops = vc_ref::families().into_iter().find(|(f, _)| *f == fam_name).unwrap().1;
                let strategies: Vec<BoxedStrategy<Case>> = ops.into_iter().map(|(_, s)| s.prop_map(|sp| sp.build()).boxed()).collect();
                proptest::strategy::Union::new(strategies)
            },
            |c: &Case| oracle(c),
        );
    }
    ck.finish();
}

//! One-node test cases: description (`Spec`), the self-contained saved form
//! (`Case` = encoded-model description + run-time inputs) and the oracle that
//! compares rten with the reference operators.

use crate::refops::{self, Expect, TolKind};
use crate::tensor::T;
use serde::{Deserialize, Serialize};
use vc_onnxgen::{run_named, Attr, Config, DType, Dim, GraphDef, ModelDef, NodeDef, TVal, TensorLit, ValueInfo};
use vcore::Verdict;

/// Default float tolerance of C15 (DESIGN.md §6 C15).
pub const RTOL: f64 = 1e-4;
pub const ATOL: f64 = 1e-5;

/// One operator input as the generator describes it.
#[derive(Clone, Debug)]
pub enum In {
    /// omitted optional input (empty name)
    None,
    /// graph input supplied at run time; `dtype` is what the model declares,
    /// the value passed is of `dtype.runtime()`
    Run(TensorLit),
    /// initialiser (may be I64 / Bool / F64: exercises the load-time mapping)
    Init(TensorLit),
}

#[derive(Clone, Debug)]
pub struct Spec {
    pub op: &'static str,
    pub attrs: Vec<(String, Attr)>,
    pub ins: Vec<In>,
    pub n_out: usize,
    pub opset: i64,
}

impl Spec {
    pub fn new(op: &'static str, ins: Vec<In>) -> Spec {
        Spec { op, attrs: vec![], ins, n_out: 1, opset: 20 }
    }
    pub fn a(mut self, k: &str, v: Attr) -> Spec {
        self.attrs.push((k.to_string(), v));
        self
    }
    pub fn ai(self, k: &str, v: i64) -> Spec {
        self.a(k, Attr::Int(v))
    }
    pub fn af(self, k: &str, v: f32) -> Spec {
        self.a(k, Attr::Float(v))
    }
    pub fn astr(self, k: &str, v: &str) -> Spec {
        self.a(k, Attr::Str(v.to_string()))
    }
    pub fn aints(self, k: &str, v: &[i64]) -> Spec {
        self.a(k, Attr::Ints(v.to_vec()))
    }
    /// optional attribute
    pub fn ai_opt(self, k: &str, v: Option<i64>) -> Spec {
        match v {
            Some(v) => self.ai(k, v),
            None => self,
        }
    }
    pub fn af_opt(self, k: &str, v: Option<f32>) -> Spec {
        match v {
            Some(v) => self.af(k, v),
            None => self,
        }
    }
    pub fn outs(mut self, n: usize) -> Spec {
        self.n_out = n;
        self
    }
    pub fn opset(mut self, v: i64) -> Spec {
        self.opset = v;
        self
    }
    /// drop trailing omitted inputs (ONNX allows leaving them off)
    pub fn trim(mut self) -> Spec {
        while matches!(self.ins.last(), Some(In::None)) {
            self.ins.pop();
        }
        self
    }
    pub fn build(&self) -> Case {
        let mut g = GraphDef::default();
        let mut names = Vec::new();
        let mut inputs = Vec::new();
        for (k, i) in self.ins.iter().enumerate() {
            let name = format!("x{k}");
            match i {
                In::None => names.push(String::new()),
                In::Run(l) => {
                    g.inputs.push(ValueInfo::new(&name, l.dtype, l.dims.iter().map(|d| Dim::Fixed(*d)).collect()));
                    inputs.push((name.clone(), lit_to_tval(l)));
                    names.push(name);
                }
                In::Init(l) => {
                    g.initializers.push((name.clone(), l.clone()));
                    names.push(name);
                }
            }
        }
        let outs: Vec<String> = (0..self.n_out).map(|k| format!("y{k}")).collect();
        let mut node = NodeDef::new(
            self.op,
            "n0",
            &names.iter().map(|s| s.as_str()).collect::<Vec<_>>(),
            &outs.iter().map(|s| s.as_str()).collect::<Vec<_>>(),
        );
        node.attrs = self.attrs.clone();
        g.nodes.push(node);
        for o in &outs {
            g.outputs.push(ValueInfo::untyped(o));
        }
        let mut model = ModelDef::new(g);
        model.opset = self.opset;
        Case { model, inputs }
    }
}

pub fn lit_to_tval(l: &TensorLit) -> TVal {
    let shape: Vec<usize> = l.dims.iter().map(|d| *d as usize).collect();
    match l.dtype.runtime() {
        DType::F32 => TVal::F32 { shape, data: l.f.clone() },
        DType::I32 => TVal::I32 {
            shape,
            data: l.i.iter().map(|v| if l.dtype == DType::Bool { (*v != 0) as i32 } else { *v as i32 }).collect(),
        },
        DType::I8 => TVal::I8 { shape, data: l.i.iter().map(|v| *v as i8).collect() },
        DType::U8 => TVal::U8 { shape, data: l.i.iter().map(|v| *v as u8).collect() },
        _ => unreachable!(),
    }
}

/// Saved / replayable form of a case: the model description (encoded to real
/// .onnx bytes by the oracle) and the run-time inputs. Self-contained: its
/// meaning does not depend on generator code.
#[derive(Clone, Debug, PartialEq, Serialize, Deserialize)]
pub struct Case {
    pub model: ModelDef,
    pub inputs: Vec<(String, TVal)>,
}

impl Case {
    pub fn node(&self) -> &NodeDef {
        &self.model.graph.nodes[0]
    }
    /// The operator inputs as reference tensors (None = omitted).
    pub fn ref_inputs(&self) -> Vec<Option<T>> {
        let g = &self.model.graph;
        self.node()
            .inputs
            .iter()
            .map(|name| {
                if name.is_empty() {
                    return None;
                }
                if let Some((_, v)) = self.inputs.iter().find(|(n, _)| n == name) {
                    let declared = g.inputs.iter().find(|vi| &vi.name == name).and_then(|vi| vi.dtype).expect("typed graph input");
                    return Some(T::from_tval(v, declared));
                }
                let (_, l) = g.initializers.iter().find(|(n, _)| n == name).expect("input is neither run-time nor initialiser");
                Some(T::from_lit(l))
            })
            .collect()
    }
    pub fn output_names(&self) -> Vec<String> {
        self.model.graph.outputs.iter().map(|o| o.name.clone()).collect()
    }
}

fn digits_collapsed(e: &str) -> String {
    let mut out = String::new();
    let mut last_digit = false;
    let mut in_quote = false;
    for c in e.chars().take(90) {
        if c == '"' {
            in_quote = !in_quote;
            continue;
        }
        if in_quote {
            continue;
        }
        if c.is_ascii_digit() {
            if !last_digit {
                out.push('#');
            }
            last_digit = true;
        } else {
            out.push(c);
            last_digit = false;
        }
    }
    out
}

/// Compare one output with its expectation.
/// Err((kind, message)); kind ∈ {"dtype","shape","value"}.
pub fn check_output(exp: &Expect, got: &TVal) -> Result<(), (&'static str, String)> {
    let want_dt = exp.t.dt.runtime();
    let got_dt = match got {
        TVal::F32 { .. } => DType::F32,
        TVal::I32 { .. } => DType::I32,
        TVal::I8 { .. } => DType::I8,
        TVal::U8 { .. } => DType::U8,
        TVal::Other(s) => return Err(("dtype", format!("non-tensor output {s}"))),
    };
    if want_dt != got_dt {
        return Err(("dtype", format!("expected element type {:?} (ONNX {:?}), rten returned {:?}", want_dt, exp.t.dt, got_dt)));
    }
    if exp.t.shape != got.shape() {
        return Err(("shape", format!("expected shape {:?}, rten returned {:?}", exp.t.shape, got.shape())));
    }
    match got {
        TVal::F32 { data, .. } => {
            for (k, g) in data.iter().enumerate() {
                let e = exp.t.f[k];
                let e32 = e as f32;
                if e.is_nan() || g.is_nan() {
                    if e.is_nan() != g.is_nan() {
                        return Err(("value", format!("element {k}: expected {e:e}, got {g:e} (NaN mismatch)")));
                    }
                    continue;
                }
                if e32.is_infinite() || g.is_infinite() {
                    if e32 != *g {
                        // an overflow in f32 where f64 is still finite but huge is accepted
                        return Err(("value", format!("element {k}: expected {e:e}, got {g:e}")));
                    }
                    continue;
                }
                let bound = match &exp.tol {
                    TolKind::Default | TolKind::IntSlack(_) => ATOL + RTOL * e.abs(),
                    TolKind::Cond(c) => ATOL + RTOL * c[k].abs().max(e.abs()),
                    TolKind::Abs(a) => *a + RTOL * e.abs(),
                    TolKind::Exact => 0.0,
                };
                let d = (*g as f64 - e).abs();
                if d > bound {
                    return Err(("value", format!("element {k} of {:?}: expected {e:e}, got {g:e} (|diff| {d:.3e} > bound {bound:.3e})", exp.t.shape)));
                }
            }
            Ok(())
        }
        _ => {
            let gv: Vec<i64> = match got {
                TVal::I32 { data, .. } => data.iter().map(|v| *v as i64).collect(),
                TVal::I8 { data, .. } => data.iter().map(|v| *v as i64).collect(),
                TVal::U8 { data, .. } => data.iter().map(|v| *v as i64).collect(),
                _ => unreachable!(),
            };
            for (k, g) in gv.iter().enumerate() {
                let e = exp.t.i[k];
                if *g != e {
                    if let TolKind::IntSlack(s) = &exp.tol {
                        if (*g - e).abs() <= s[k] as i64 {
                            continue;
                        }
                    }
                    return Err(("value", format!("element {k} of {:?}: expected {e}, got {g}", exp.t.shape)));
                }
            }
            Ok(())
        }
    }
}

fn static_label(labels: &'static [&'static str], s: &str) -> Option<&'static str> {
    labels.iter().copied().find(|l| *l == s)
}

/// The C15 oracle for one case.
pub fn oracle(c: &Case) -> Verdict {
    let node = c.node();
    let op = node.op.clone();
    let ins = c.ref_inputs();
    let expect = match refops::eval(node, &ins, c.model.opset) {
        Ok(e) => e,
        // the generators build valid cases by construction; a rejected case is a
        // harness bug and must be loud, never a silent pass
        Err(e) => panic!("reference operator {op} rejected a generated case: {e}"),
    };
    let bytes = c.model.encode();
    let outs = c.output_names();
    assert_eq!(outs.len(), expect.len(), "reference returned {} outputs for {} graph outputs", expect.len(), outs.len());
    let asp = crate::aspect::aspect(c, &ins);
    let sig = |kind: &str| -> String {
        if asp.is_empty() {
            format!("op:{op}:{kind}")
        } else {
            format!("op:{op}:{asp}:{kind}")
        }
    };
    for cfg in [Config::Plain, Config::OptInferOn] {
        let model = match vcore::catch(|| cfg.load(&bytes)) {
            Ok(Ok(m)) => m,
            Ok(Err(e)) => {
                return Verdict::fail(
                    sig(&format!("load-error:{}", digits_collapsed(&e))),
                    format!("{} [{}]: model is valid ONNX per the spec but fails to load: {e}; node {}", op, cfg.name(), describe(c)),
                )
            }
            Err(p) => {
                return Verdict::fail(sig(&format!("load-{}", p.signature())), format!("{} [{}]: load panicked: {} at {}; node {}", op, cfg.name(), p.msg, p.loc(), describe(c)))
            }
        };
        let got = match vcore::catch(|| run_named(&model, &c.inputs, &outs, None, None)) {
            Ok(Ok(o)) => o,
            Ok(Err(e)) => {
                return Verdict::fail(
                    sig(&format!("run-error:{}", digits_collapsed(&e))),
                    format!("{} [{}]: run fails: {e}; expected output shape(s) {:?}; node {}", op, cfg.name(), expect.iter().map(|e| e.t.shape.clone()).collect::<Vec<_>>(), describe(c)),
                )
            }
            Err(p) => {
                return Verdict::fail(sig(&p.signature()), format!("{} [{}]: run panicked: {} at {}; node {}", op, cfg.name(), p.msg, p.loc(), describe(c)))
            }
        };
        for (k, (e, g)) in expect.iter().zip(&got).enumerate() {
            if let Err((kind, why)) = check_output(e, g) {
                return Verdict::fail(sig(kind), format!("{} [{}] output {k}: {why}; node {}", op, cfg.name(), describe(c)));
            }
        }
    }
    let nontrivial = expect.iter().any(|e| e.t.n() >= 1);
    let mut labels: Vec<&'static str> = Vec::new();
    if let Some(l) = static_label(crate::OP_LABELS, &format!("op:{op}")) {
        labels.push(l);
    } else {
        labels.push("op:unlisted");
    }
    let g = &c.model.graph;
    for (_, l) in &g.initializers {
        labels.push(match l.dtype {
            DType::I64 => "init:i64->i32",
            DType::Bool => "init:bool->i32",
            DType::F64 => "init:f64->f32",
            DType::F32 => "init:f32",
            DType::I32 => "init:i32",
            DType::U8 => "init:u8",
            DType::I8 => "init:i8",
        });
    }
    for vi in &g.inputs {
        labels.push(match vi.dtype {
            Some(DType::I64) => "input:declared-i64",
            Some(DType::Bool) => "input:declared-bool",
            Some(DType::F32) => "input:f32",
            Some(DType::F64) => "input:declared-f64",
            Some(DType::I32) => "input:i32",
            Some(DType::U8) => "input:u8",
            Some(DType::I8) => "input:i8",
            _ => "input:other",
        });
    }
    if c.model.opset != 20 {
        labels.push("opset:non-default");
    }
    if expect.iter().any(|e| e.t.n() == 0) {
        labels.push("output:empty");
    }
    labels.sort();
    labels.dedup();
    Verdict::pass_l(nontrivial, labels)
}

/// Short human-readable description of the node and its inputs.
pub fn describe(c: &Case) -> String {
    let node = c.node();
    let mut s = format!("{}(opset {}", node.op, c.model.opset);
    for (k, v) in &node.attrs {
        let vs = match v {
            Attr::Int(i) => format!("{i}"),
            Attr::Float(f) => format!("{f}"),
            Attr::Str(x) => format!("{x:?}"),
            Attr::Ints(x) => format!("{x:?}"),
            Attr::Floats(x) => format!("{x:?}"),
            Attr::Tensor(t) => format!("tensor{:?}", t.dims),
            Attr::Graph(_) => "graph".into(),
        };
        s.push_str(&format!(", {k}={vs}"));
    }
    s.push(')');
    for (k, t) in c.ref_inputs().iter().enumerate() {
        match t {
            None => s.push_str(&format!(" in{k}=<omitted>")),
            Some(t) => {
                let vals: Vec<String> = (0..t.n().min(24)).map(|j| if t.is_f() { format!("{}", t.f[j]) } else { format!("{}", t.i[j]) }).collect();
                let is_init = c.model.graph.initializers.iter().any(|(n, _)| n == &node.inputs[k]);
                s.push_str(&format!(
                    " in{k}={:?}{:?}{}[{}{}]",
                    t.dt,
                    t.shape,
                    if is_init { "(init)" } else { "" },
                    vals.join(","),
                    if t.n() > 24 { ",…" } else { "" }
                ));
            }
        }
    }
    s
}

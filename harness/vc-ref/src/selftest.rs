//! Reference self-test: the naive reference operators evaluated on the worked
//! examples of the ONNX operator documentation (onnx.ai/onnx/operators, the
//! `Examples` sections / backend node tests). Independent of rten. Run with
//! `refdev --selftest`; C15 also runs it first and refuses to continue
//! (inconclusive) if the reference disagrees with the documentation.

use crate::refops::eval;
use crate::tensor::T;
use vc_onnxgen::{Attr, DType, NodeDef};

fn f(shape: &[usize], v: &[f64]) -> Option<T> {
    Some(T::new_f(DType::F32, shape, v.to_vec()))
}
fn i(shape: &[usize], v: &[i64]) -> Option<T> {
    Some(T::new_i(DType::I64, shape, v.to_vec()))
}
fn u8t(shape: &[usize], v: &[i64]) -> Option<T> {
    Some(T::new_i(DType::U8, shape, v.to_vec()))
}

struct V {
    name: &'static str,
    op: &'static str,
    attrs: Vec<(&'static str, Attr)>,
    ins: Vec<Option<T>>,
    n_out: usize,
    opset: i64,
    /// expected outputs (shape, values)
    want: Vec<(Vec<usize>, Vec<f64>)>,
}

fn v(name: &'static str, op: &'static str, attrs: Vec<(&'static str, Attr)>, ins: Vec<Option<T>>, want: Vec<(Vec<usize>, Vec<f64>)>) -> V {
    V { name, op, attrs, ins, n_out: want.len(), opset: 20, want }
}

fn ints(v: &[i64]) -> Attr {
    Attr::Ints(v.to_vec())
}
fn s(v: &str) -> Attr {
    Attr::Str(v.to_string())
}

fn vectors() -> Vec<V> {
    let x34: Vec<f64> = (0..12).map(|k| k as f64).collect();
    vec![
        v("slice", "Slice", vec![], vec![f(&[2, 4], &[1., 2., 3., 4., 5., 6., 7., 8.]), i(&[2], &[1, 0]), i(&[2], &[2, 3]), i(&[2], &[0, 1]), i(&[2], &[1, 2])], vec![(vec![1, 2], vec![5., 7.])]),
        v("slice_neg_end_clamp", "Slice", vec![], vec![f(&[2, 4], &[1., 2., 3., 4., 5., 6., 7., 8.]), i(&[2], &[0, 1]), i(&[2], &[-1, 1000])], vec![(vec![1, 3], vec![2., 3., 4.])]),
        v("slice_neg_step", "Slice", vec![], vec![f(&[4], &[1., 2., 3., 4.]), i(&[1], &[-1]), i(&[1], &[i64::MIN]), i(&[1], &[0]), i(&[1], &[-1])], vec![(vec![4], vec![4., 3., 2., 1.])]),
        v("gather_0", "Gather", vec![("axis", Attr::Int(0))], vec![f(&[3, 2], &[1.0, 1.2, 2.3, 3.4, 4.5, 5.7]), i(&[2, 2], &[0, 1, 1, 2])], vec![(vec![2, 2, 2], vec![1.0, 1.2, 2.3, 3.4, 2.3, 3.4, 4.5, 5.7])]),
        v("gather_1", "Gather", vec![("axis", Attr::Int(1))], vec![f(&[3, 3], &[1.0, 1.2, 1.9, 2.3, 3.4, 3.9, 4.5, 5.7, 5.9]), i(&[1, 2], &[0, 2])], vec![(vec![3, 1, 2], vec![1.0, 1.9, 2.3, 3.9, 4.5, 5.9])]),
        v("gather_elements", "GatherElements", vec![("axis", Attr::Int(1))], vec![f(&[2, 2], &[1., 2., 3., 4.]), i(&[2, 2], &[0, 0, 1, 0])], vec![(vec![2, 2], vec![1., 1., 4., 3.])]),
        v("gather_elements_0", "GatherElements", vec![("axis", Attr::Int(0))], vec![f(&[3, 3], &[1., 2., 3., 4., 5., 6., 7., 8., 9.]), i(&[2, 3], &[1, 2, 0, 2, 0, 0])], vec![(vec![2, 3], vec![4., 8., 3., 7., 2., 3.])]),
        v("gathernd_1", "GatherND", vec![], vec![f(&[2, 2], &[0., 1., 2., 3.]), i(&[2, 2], &[0, 0, 1, 1])], vec![(vec![2], vec![0., 3.])]),
        v("gathernd_2", "GatherND", vec![], vec![f(&[2, 2], &[0., 1., 2., 3.]), i(&[2, 1], &[1, 0])], vec![(vec![2, 2], vec![2., 3., 0., 1.])]),
        v("gathernd_batch", "GatherND", vec![("batch_dims", Attr::Int(1))], vec![f(&[2, 2, 2], &[0., 1., 2., 3., 4., 5., 6., 7.]), i(&[2, 1], &[1, 0])], vec![(vec![2, 2], vec![2., 3., 4., 5.])]),
        v(
            "scatter_elements",
            "ScatterElements",
            vec![("axis", Attr::Int(0))],
            vec![f(&[3, 3], &[0.; 9]), i(&[2, 3], &[1, 0, 2, 0, 2, 1]), f(&[2, 3], &[1.0, 1.1, 1.2, 2.0, 2.1, 2.2])],
            vec![(vec![3, 3], vec![2.0, 1.1, 0.0, 1.0, 0.0, 2.2, 0.0, 2.1, 1.2])],
        ),
        v("scatter_elements_axis1", "ScatterElements", vec![("axis", Attr::Int(1))], vec![f(&[1, 5], &[1., 2., 3., 4., 5.]), i(&[1, 2], &[1, 3]), f(&[1, 2], &[1.1, 2.1])], vec![(vec![1, 5], vec![1.0, 1.1, 3.0, 2.1, 5.0])]),
        v(
            "scatter_elements_dup_add",
            "ScatterElements",
            vec![("axis", Attr::Int(1)), ("reduction", s("add"))],
            vec![f(&[1, 5], &[1., 2., 3., 4., 5.]), i(&[1, 2], &[1, 1]), f(&[1, 2], &[1.1, 2.1])],
            vec![(vec![1, 5], vec![1.0, 5.2, 3.0, 4.0, 5.0])],
        ),
        v("scatternd", "ScatterND", vec![], vec![f(&[8], &[1., 2., 3., 4., 5., 6., 7., 8.]), i(&[4, 1], &[4, 3, 1, 7]), f(&[4], &[9., 10., 11., 12.])], vec![(vec![8], vec![1., 11., 3., 10., 9., 6., 7., 12.])]),
        v("cumsum", "CumSum", vec![], vec![f(&[5], &[1., 2., 3., 4., 5.]), i(&[], &[0])], vec![(vec![5], vec![1., 3., 6., 10., 15.])]),
        v("cumsum_excl", "CumSum", vec![("exclusive", Attr::Int(1))], vec![f(&[5], &[1., 2., 3., 4., 5.]), i(&[], &[0])], vec![(vec![5], vec![0., 1., 3., 6., 10.])]),
        v("cumsum_rev", "CumSum", vec![("reverse", Attr::Int(1))], vec![f(&[5], &[1., 2., 3., 4., 5.]), i(&[], &[0])], vec![(vec![5], vec![15., 14., 12., 9., 5.])]),
        v("cumsum_rev_excl", "CumSum", vec![("reverse", Attr::Int(1)), ("exclusive", Attr::Int(1))], vec![f(&[5], &[1., 2., 3., 4., 5.]), i(&[], &[0])], vec![(vec![5], vec![14., 12., 9., 5., 0.])]),
        v("cumsum_2d_axis1", "CumSum", vec![], vec![f(&[2, 3], &[1., 2., 3., 4., 5., 6.]), i(&[], &[-1])], vec![(vec![2, 3], vec![1., 3., 6., 4., 9., 15.])]),
        v("topk", "TopK", vec![("axis", Attr::Int(1))], vec![f(&[3, 4], &x34), i(&[1], &[3])], vec![(vec![3, 3], vec![3., 2., 1., 7., 6., 5., 11., 10., 9.]), (vec![3, 3], vec![3., 2., 1., 3., 2., 1., 3., 2., 1.])]),
        v("topk_smallest", "TopK", vec![("axis", Attr::Int(1)), ("largest", Attr::Int(0))], vec![f(&[3, 4], &[0., 1., 2., 3., 4., 5., 6., 7., 11., 10., 9., 8.]), i(&[1], &[3])], vec![(vec![3, 3], vec![0., 1., 2., 4., 5., 6., 8., 9., 10.]), (vec![3, 3], vec![0., 1., 2., 0., 1., 2., 3., 2., 1.])]),
        v("mod_int", "Mod", vec![], vec![i(&[6], &[-4, 7, 5, 4, -7, 8]), i(&[6], &[2, -3, 8, -2, 3, 5])], vec![(vec![6], vec![0., -2., 5., 0., 2., 3.])]),
        v("mod_int_fmod", "Mod", vec![("fmod", Attr::Int(1))], vec![i(&[6], &[-4, 7, 5, 4, -7, 8]), i(&[6], &[2, -3, 8, -2, 3, 5])], vec![(vec![6], vec![0., 1., 5., 0., -1., 3.])]),
        v("mod_float_fmod", "Mod", vec![("fmod", Attr::Int(1))], vec![f(&[6], &[-4.3, 7.2, 5.0, 4.3, -7.2, 8.0]), f(&[6], &[2.1, -3.4, 8.0, -2.1, 3.4, 5.0])], vec![(vec![6], vec![-0.1, 0.4, 5., 0.1, -0.4, 3.])]),
        v("pad_reflect", "Pad", vec![("mode", s("reflect"))], vec![f(&[3, 2], &[1.0, 1.2, 2.3, 3.4, 4.5, 5.7]), i(&[4], &[0, 2, 0, 0])], vec![(vec![3, 4], vec![1.0, 1.2, 1.0, 1.2, 2.3, 3.4, 2.3, 3.4, 4.5, 5.7, 4.5, 5.7])]),
        v("pad_edge", "Pad", vec![("mode", s("edge"))], vec![f(&[3, 2], &[1.0, 1.2, 2.3, 3.4, 4.5, 5.7]), i(&[4], &[0, 2, 0, 0])], vec![(vec![3, 4], vec![1.0, 1.0, 1.0, 1.2, 2.3, 2.3, 2.3, 3.4, 4.5, 4.5, 4.5, 5.7])]),
        v("pad_constant", "Pad", vec![], vec![f(&[3, 2], &[1.0, 1.2, 2.3, 3.4, 4.5, 5.7]), i(&[4], &[0, 2, 0, 0]), f(&[], &[0.0])], vec![(vec![3, 4], vec![0., 0., 1.0, 1.2, 0., 0., 2.3, 3.4, 0., 0., 4.5, 5.7])]),
        v("trilu_upper_pos", "Trilu", vec![], vec![i(&[4, 5], &[4, 7, 3, 7, 9, 1, 2, 8, 6, 9, 9, 4, 0, 8, 7, 4, 3, 4, 2, 4]), i(&[], &[1])], vec![(vec![4, 5], vec![0., 7., 3., 7., 9., 0., 0., 8., 6., 9., 0., 0., 0., 8., 7., 0., 0., 0., 0., 4.])]),
        v("trilu_lower_neg", "Trilu", vec![("upper", Attr::Int(0))], vec![i(&[4, 5], &[4, 7, 3, 7, 9, 1, 2, 8, 6, 9, 9, 4, 1, 8, 7, 4, 3, 4, 2, 4]), i(&[], &[-1])], vec![(vec![4, 5], vec![0., 0., 0., 0., 0., 1., 0., 0., 0., 0., 9., 4., 0., 0., 0., 4., 3., 4., 0., 0.])]),
        v("onehot", "OneHot", vec![("axis", Attr::Int(-1))], vec![i(&[4], &[0, -7, -8, 9]), i(&[], &[10]), f(&[2], &[1., 3.])], vec![(vec![4, 10], {
            let mut o = vec![1.; 40];
            o[0] = 3.;
            o[10 + 3] = 3.;
            o[20 + 2] = 3.;
            o[30 + 9] = 3.;
            o
        })]),
        v("range", "Range", vec![], vec![i(&[], &[10]), i(&[], &[4]), i(&[], &[-2])], vec![(vec![3], vec![10., 8., 6.])]),
        v("range_f", "Range", vec![], vec![f(&[], &[1.]), f(&[], &[5.]), f(&[], &[2.])], vec![(vec![2], vec![1., 3.])]),
        v("reshape_zero_neg", "Reshape", vec![], vec![f(&[2, 3, 4], &[0.; 24]), i(&[4], &[2, 0, 4, 1])], vec![(vec![2, 3, 4, 1], vec![0.; 24])]),
        v("reshape_neg", "Reshape", vec![], vec![f(&[2, 3, 4], &[0.; 24]), i(&[3], &[-1, 2, 3])], vec![(vec![4, 2, 3], vec![0.; 24])]),
        v("reshape_allowzero", "Reshape", vec![("allowzero", Attr::Int(1))], vec![f(&[0, 3, 4], &[]), i(&[3], &[3, 4, 0])], vec![(vec![3, 4, 0], vec![])]),
        v("depth_to_space_dcr", "DepthToSpace", vec![("blocksize", Attr::Int(2)), ("mode", s("DCR"))], vec![f(&[1, 8, 2, 3], &(0..48).map(|k| k as f64).collect::<Vec<_>>())], vec![(
            vec![1, 2, 4, 6],
            vec![
                0., 12., 1., 13., 2., 14., 24., 36., 25., 37., 26., 38., 3., 15., 4., 16., 5., 17., 27., 39., 28., 40., 29., 41., 6., 18., 7., 19., 8., 20., 30., 42., 31., 43., 32., 44., 9., 21., 10., 22., 11., 23., 33., 45., 34., 46.,
                35., 47.,
            ],
        )]),
        v("resize_up_nearest", "Resize", vec![("mode", s("nearest"))], vec![f(&[1, 1, 2, 2], &[1., 2., 3., 4.]), None, f(&[4], &[1., 1., 2., 3.])], vec![(vec![1, 1, 4, 6], vec![1., 1., 1., 2., 2., 2., 1., 1., 1., 2., 2., 2., 3., 3., 3., 4., 4., 4., 3., 3., 3., 4., 4., 4.])]),
        v("resize_down_nearest", "Resize", vec![("mode", s("nearest"))], vec![f(&[1, 1, 2, 4], &[1., 2., 3., 4., 5., 6., 7., 8.]), None, f(&[4], &[1., 1., 0.6, 0.6])], vec![(vec![1, 1, 1, 2], vec![1., 3.])]),
        v(
            "resize_up_linear",
            "Resize",
            vec![("mode", s("linear"))],
            vec![f(&[1, 1, 2, 2], &[1., 2., 3., 4.]), None, f(&[4], &[1., 1., 2., 2.])],
            vec![(vec![1, 1, 4, 4], vec![1., 1.25, 1.75, 2., 1.5, 1.75, 2.25, 2.5, 2.5, 2.75, 3.25, 3.5, 3., 3.25, 3.75, 4.])],
        ),
        v(
            "resize_up_linear_align_corners",
            "Resize",
            vec![("mode", s("linear")), ("coordinate_transformation_mode", s("align_corners"))],
            vec![f(&[1, 1, 2, 2], &[1., 2., 3., 4.]), None, f(&[4], &[1., 1., 2., 2.])],
            vec![(vec![1, 1, 4, 4], vec![1., 4. / 3., 5. / 3., 2., 5. / 3., 2., 7. / 3., 8. / 3., 7. / 3., 8. / 3., 3., 10. / 3., 3., 10. / 3., 11. / 3., 4.])],
        ),
        v("resize_down_linear", "Resize", vec![("mode", s("linear"))], vec![f(&[1, 1, 2, 4], &[1., 2., 3., 4., 5., 6., 7., 8.]), None, f(&[4], &[1., 1., 0.6, 0.6])], vec![(vec![1, 1, 1, 2], vec![2.6666665, 4.3333331])]),
        v(
            "resize_sizes_nearest_ceil_half_pixel",
            "Resize",
            vec![("mode", s("nearest")), ("coordinate_transformation_mode", s("half_pixel")), ("nearest_mode", s("ceil"))],
            vec![f(&[1, 1, 4, 4], &(1..=16).map(|k| k as f64).collect::<Vec<_>>()), None, None, i(&[4], &[1, 1, 8, 8])],
            vec![(vec![1, 1, 8, 8], {
                let row = |a: f64| vec![a, a + 1., a + 1., a + 2., a + 2., a + 3., a + 3., a + 3.];
                [row(1.), row(5.), row(5.), row(9.), row(9.), row(13.), row(13.), row(13.)].concat()
            })],
        ),
        v("quantize_linear", "QuantizeLinear", vec![], vec![f(&[6], &[0., 2., 3., 1000., -254., -1000.]), f(&[], &[2.]), u8t(&[], &[128])], vec![(vec![6], vec![128., 129., 130., 255., 1., 0.])]),
        v(
            "quantize_linear_axis",
            "QuantizeLinear",
            vec![("axis", Attr::Int(1))],
            vec![f(&[1, 3, 3, 2], &[-162., 10., -100., 232., -20., -50., -76., 0., 0., 252., 32., -44., 245., -485., -960., -270., -375., -470.]), f(&[3], &[2., 4., 5.]), u8t(&[3], &[84, 24, 196])],
            vec![(vec![1, 3, 3, 2], vec![3., 89., 34., 200., 74., 59., 5., 24., 24., 87., 32., 13., 245., 99., 4., 142., 121., 102.])],
        ),
        v("dequantize_linear", "DequantizeLinear", vec![], vec![u8t(&[4], &[0, 3, 128, 255]), f(&[], &[2.]), u8t(&[], &[128])], vec![(vec![4], vec![-256., -250., 0., 254.])]),
        v("dynamic_quantize_linear", "DynamicQuantizeLinear", vec![], vec![f(&[6], &[0., 2., -3., -2.5, 1.34, 0.5])], vec![(vec![6], vec![153., 255., 0., 26., 221., 179.]), (vec![], vec![0.0196078438]), (vec![], vec![153.])]),
        v("dynamic_quantize_linear_max_adjusted", "DynamicQuantizeLinear", vec![], vec![f(&[6], &[-1.0, -2.1, -1.3, -2.5, -3.34, -4.0])], vec![(vec![6], vec![191., 121., 172., 96., 42., 0.]), (vec![], vec![0.0156862754]), (vec![], vec![255.])]),
        v(
            "matmul_integer",
            "MatMulInteger",
            vec![],
            vec![u8t(&[4, 3], &[11, 7, 3, 10, 6, 2, 9, 5, 1, 8, 4, 0]), u8t(&[3, 2], &[1, 4, 2, 5, 3, 6]), u8t(&[], &[12]), u8t(&[], &[0])],
            vec![(vec![4, 2], vec![-38., -83., -44., -98., -50., -113., -56., -128.])],
        ),
        v(
            "conv_integer",
            "ConvInteger",
            vec![],
            vec![u8t(&[1, 1, 3, 3], &[2, 3, 4, 5, 6, 7, 8, 9, 10]), u8t(&[1, 1, 2, 2], &[1, 1, 1, 1]), u8t(&[], &[1])],
            vec![(vec![1, 1, 2, 2], vec![12., 16., 24., 28.])],
        ),
        v(
            "conv_integer_with_padding",
            "ConvInteger",
            vec![("pads", ints(&[1, 1, 1, 1]))],
            vec![u8t(&[1, 1, 3, 3], &[2, 3, 4, 5, 6, 7, 8, 9, 10]), u8t(&[1, 1, 2, 2], &[1, 1, 1, 1]), u8t(&[], &[1])],
            vec![(vec![1, 1, 4, 4], vec![1., 3., 5., 3., 5., 12., 16., 9., 11., 24., 28., 15., 7., 15., 17., 9.])],
        ),
        v(
            "conv_with_padding",
            "Conv",
            vec![("kernel_shape", ints(&[3, 3])), ("pads", ints(&[1, 1, 1, 1]))],
            vec![f(&[1, 1, 5, 5], &(0..25).map(|k| k as f64).collect::<Vec<_>>()), f(&[1, 1, 3, 3], &[1.; 9])],
            vec![(vec![1, 1, 5, 5], vec![12., 21., 27., 33., 24., 33., 54., 63., 72., 51., 63., 99., 108., 117., 81., 93., 144., 153., 162., 111., 72., 111., 117., 123., 84.])],
        ),
        v(
            "conv_strides_asymmetric_padding",
            "Conv",
            vec![("kernel_shape", ints(&[3, 3])), ("pads", ints(&[1, 0, 1, 0])), ("strides", ints(&[2, 2]))],
            vec![f(&[1, 1, 7, 5], &(0..35).map(|k| k as f64).collect::<Vec<_>>()), f(&[1, 1, 3, 3], &[1.; 9])],
            vec![(vec![1, 1, 4, 2], vec![21., 33., 99., 117., 189., 207., 171., 183.])],
        ),
        v(
            "conv_autopad_same",
            "Conv",
            vec![("auto_pad", s("SAME_LOWER")), ("kernel_shape", ints(&[3, 3])), ("strides", ints(&[2, 2]))],
            vec![f(&[1, 1, 5, 5], &(0..25).map(|k| k as f64).collect::<Vec<_>>()), f(&[1, 1, 3, 3], &[1.; 9])],
            vec![(vec![1, 1, 3, 3], vec![12., 27., 24., 63., 108., 81., 72., 117., 84.])],
        ),
        v(
            "convtranspose",
            "ConvTranspose",
            vec![],
            vec![f(&[1, 1, 3, 3], &[0., 1., 2., 3., 4., 5., 6., 7., 8.]), f(&[1, 2, 3, 3], &[1.; 18])],
            vec![(vec![1, 2, 5, 5], {
                let one = vec![0., 1., 3., 3., 2., 3., 8., 15., 12., 7., 9., 21., 36., 27., 15., 9., 20., 33., 24., 13., 6., 13., 21., 15., 8.];
                [one.clone(), one].concat()
            })],
        ),
        v(
            "maxpool_2d_ceil",
            "MaxPool",
            vec![("kernel_shape", ints(&[3, 3])), ("strides", ints(&[2, 2])), ("ceil_mode", Attr::Int(1))],
            vec![f(&[1, 1, 4, 4], &(1..=16).map(|k| k as f64).collect::<Vec<_>>())],
            vec![(vec![1, 1, 2, 2], vec![11., 12., 15., 16.])],
        ),
        v(
            "maxpool_2d_same_upper",
            "MaxPool",
            vec![("kernel_shape", ints(&[3, 3])), ("strides", ints(&[2, 2])), ("auto_pad", s("SAME_UPPER"))],
            vec![f(&[1, 1, 5, 5], &(1..=25).map(|k| k as f64).collect::<Vec<_>>())],
            vec![(vec![1, 1, 3, 3], vec![7., 9., 10., 17., 19., 20., 22., 24., 25.])],
        ),
        v(
            "averagepool_2d_ceil",
            "AveragePool",
            vec![("kernel_shape", ints(&[3, 3])), ("strides", ints(&[2, 2])), ("ceil_mode", Attr::Int(1))],
            vec![f(&[1, 1, 4, 4], &(1..=16).map(|k| k as f64).collect::<Vec<_>>())],
            vec![(vec![1, 1, 2, 2], vec![6., 7.5, 12., 13.5])],
        ),
        v(
            "averagepool_2d_precomputed_pads_count_include_pad",
            "AveragePool",
            vec![("kernel_shape", ints(&[5, 5])), ("pads", ints(&[2, 2, 2, 2])), ("count_include_pad", Attr::Int(1))],
            vec![f(&[1, 1, 5, 5], &(1..=25).map(|k| k as f64).collect::<Vec<_>>())],
            vec![(vec![1, 1, 5, 5], vec![2.5200, 3.6000, 4.8000, 4.0800, 3.2400, 4.5600, 6.4000, 8.4000, 7.0400, 5.5200, 7.2000, 10.0000, 13.0000, 10.8000, 8.4000, 6.9600, 9.6000, 12.4000, 10.2400, 7.9200, 6.1200, 8.4000, 10.8000, 8.8800, 6.8400])],
        ),
        v("argmax_keepdims", "ArgMax", vec![("axis", Attr::Int(1)), ("keepdims", Attr::Int(1))], vec![f(&[2, 2], &[2., 1., 3., 10.])], vec![(vec![2, 1], vec![0., 1.])]),
        v("argmax_ties_first", "ArgMax", vec![("axis", Attr::Int(1)), ("keepdims", Attr::Int(1))], vec![f(&[2, 2], &[2., 2., 3., 10.])], vec![(vec![2, 1], vec![0., 1.])]),
        v("argmax_ties_last", "ArgMax", vec![("axis", Attr::Int(1)), ("keepdims", Attr::Int(1)), ("select_last_index", Attr::Int(1))], vec![f(&[2, 2], &[2., 2., 3., 10.])], vec![(vec![2, 1], vec![1., 1.])]),
        v("reduce_sum_noop", "ReduceSum", vec![("keepdims", Attr::Int(1)), ("noop_with_empty_axes", Attr::Int(1))], vec![f(&[3, 2, 2], &x34), i(&[0], &[])], vec![(vec![3, 2, 2], x34.clone())]),
        v("reduce_sum_default_axes", "ReduceSum", vec![("keepdims", Attr::Int(1))], vec![f(&[3, 2, 2], &(1..=12).map(|k| k as f64).collect::<Vec<_>>()), i(&[0], &[])], vec![(vec![1, 1, 1], vec![78.])]),
        v("reduce_l2_keepdims0", "ReduceL2", vec![("keepdims", Attr::Int(0))], vec![f(&[3, 2, 2], &(1..=12).map(|k| k as f64).collect::<Vec<_>>()), i(&[1], &[2])], vec![(vec![3, 2], vec![2.23606798, 5., 7.81024968, 10.63014581, 13.45362405, 16.2788206])]),
        v("gemm_all", "Gemm", vec![("alpha", Attr::Float(0.25)), ("beta", Attr::Float(0.35)), ("transA", Attr::Int(1)), ("transB", Attr::Int(1))], vec![f(&[2, 1], &[1., 2.]), f(&[3, 2], &[1., 2., 3., 4., 5., 6.]), f(&[1, 3], &[1., 1., 1.])], vec![(vec![1, 3], vec![0.25 * 5. + 0.35, 0.25 * 11. + 0.35, 0.25 * 17. + 0.35])]),
        v("einsum_batch_diag", "Einsum", vec![("equation", s("ii->i"))], vec![f(&[3, 3], &[1., 2., 3., 4., 5., 6., 7., 8., 9.])], vec![(vec![3], vec![1., 5., 9.])]),
        v("einsum_inner", "Einsum", vec![("equation", s("i,i"))], vec![f(&[3], &[1., 2., 3.]), f(&[3], &[4., 5., 6.])], vec![(vec![], vec![32.])]),
        v("round", "Round", vec![], vec![f(&[9], &[0.1, 0.5, 0.9, 1.2, 1.5, 1.8, 2.3, 2.5, -1.5])], vec![(vec![9], vec![0., 0., 1., 1., 2., 2., 2., 2., -2.])]),
        v("softmax_axis", "Softmax", vec![("axis", Attr::Int(0))], vec![f(&[2, 2], &[0., 0., (3.0f64).ln(), 0.])], vec![(vec![2, 2], vec![0.25, 0.5, 0.75, 0.5])]),
        v("split_uneven_num_outputs", "Split", vec![("num_outputs", Attr::Int(3))], vec![f(&[7], &[1., 2., 3., 4., 5., 6., 7.])], vec![(vec![3], vec![1., 2., 3.]), (vec![3], vec![4., 5., 6.]), (vec![1], vec![7.])]),
        v("layer_norm", "LayerNormalization", vec![("epsilon", Attr::Float(0.0))], vec![f(&[1, 2], &[1., 3.]), f(&[2], &[2., 2.]), f(&[2], &[1., 1.])], vec![(vec![1, 2], vec![-1., 3.])]),
    ]
}

/// Returns the list of failures (empty = the reference agrees with every vector).
pub fn run() -> Vec<String> {
    let mut failures = Vec::new();
    for t in vectors() {
        let mut node = NodeDef::new(t.op, t.name, &vec!["x"; t.ins.len()], &vec!["y"; t.n_out]);
        node.attrs = t.attrs.iter().map(|(k, a)| (k.to_string(), a.clone())).collect();
        match eval(&node, &t.ins, t.opset) {
            Err(e) => failures.push(format!("{}: reference error {e}", t.name)),
            Ok(outs) => {
                for (k, (shape, vals)) in t.want.iter().enumerate() {
                    let got = &outs[k].t;
                    if &got.shape != shape {
                        failures.push(format!("{} output {k}: shape {:?}, documentation says {:?}", t.name, got.shape, shape));
                        continue;
                    }
                    for (j, w) in vals.iter().enumerate() {
                        let g = got.val(j);
                        // quantised values whose pre-rounding quotient is a float-precision tie
                        // (the documentation computes in f32): +-1 as in the oracle
                        let slack = match &outs[k].tol {
                            crate::refops::TolKind::IntSlack(s) => s[j] as f64,
                            _ => 0.0,
                        };
                        if slack > 0.0 && (g - w).abs() <= slack {
                            continue;
                        }
                        if (g - w).abs() > 1e-4 * (1.0 + w.abs()) {
                            failures.push(format!("{} output {k} element {j}: {g}, documentation says {w}", t.name));
                            break;
                        }
                    }
                }
            }
        }
    }
    failures
}

pub fn count() -> usize {
    vectors().len()
}

//! `T`: the reference tensor (shape + f64 or i64 payload) and index helpers.
//! Everything here is deliberately naive: flat row-major storage, explicit
//! index vectors, no strides tricks.

use vc_onnxgen::{DType, TVal, TensorLit};

/// Reference tensor. `dt` is the ONNX-level element type; exactly one of
/// `f` / `i` is populated (`f` iff `dt.is_float()`). Bool is stored as 0/1.
#[derive(Clone, Debug, PartialEq)]
pub struct T {
    pub dt: DType,
    pub shape: Vec<usize>,
    pub f: Vec<f64>,
    pub i: Vec<i64>,
}

pub fn numel(shape: &[usize]) -> usize {
    shape.iter().product()
}

impl T {
    pub fn new_f(dt: DType, shape: &[usize], f: Vec<f64>) -> T {
        assert!(dt.is_float());
        assert_eq!(numel(shape), f.len(), "T::new_f shape {:?} vs {} values", shape, f.len());
        T { dt, shape: shape.to_vec(), f, i: vec![] }
    }
    pub fn new_i(dt: DType, shape: &[usize], i: Vec<i64>) -> T {
        assert!(!dt.is_float());
        assert_eq!(numel(shape), i.len(), "T::new_i shape {:?} vs {} values", shape, i.len());
        T { dt, shape: shape.to_vec(), f: vec![], i }
    }
    pub fn f32(shape: &[usize], f: Vec<f64>) -> T {
        T::new_f(DType::F32, shape, f)
    }
    pub fn i64(shape: &[usize], i: Vec<i64>) -> T {
        T::new_i(DType::I64, shape, i)
    }
    pub fn bool(shape: &[usize], i: Vec<i64>) -> T {
        T::new_i(DType::Bool, shape, i)
    }
    pub fn is_f(&self) -> bool {
        self.dt.is_float()
    }
    pub fn n(&self) -> usize {
        numel(&self.shape)
    }
    pub fn rank(&self) -> usize {
        self.shape.len()
    }
    /// numeric value of element k whatever the payload kind
    pub fn val(&self, k: usize) -> f64 {
        if self.is_f() {
            self.f[k]
        } else {
            self.i[k] as f64
        }
    }
    pub fn vals(&self) -> Vec<f64> {
        (0..self.n()).map(|k| self.val(k)).collect()
    }
    pub fn ints(&self) -> Result<Vec<i64>, String> {
        if self.is_f() {
            Err("expected an integer tensor".into())
        } else {
            Ok(self.i.clone())
        }
    }
    /// New tensor of the same dtype whose element k is `self[src[k]]`.
    pub fn take(&self, shape: &[usize], src: &[usize]) -> T {
        assert_eq!(numel(shape), src.len());
        if self.is_f() {
            T::new_f(self.dt, shape, src.iter().map(|&s| self.f[s]).collect())
        } else {
            T::new_i(self.dt, shape, src.iter().map(|&s| self.i[s]).collect())
        }
    }
    /// Same data, different shape (same element count).
    pub fn reshaped(&self, shape: &[usize]) -> T {
        assert_eq!(numel(shape), self.n());
        T { dt: self.dt, shape: shape.to_vec(), f: self.f.clone(), i: self.i.clone() }
    }
    pub fn from_lit(l: &TensorLit) -> T {
        let shape: Vec<usize> = l.dims.iter().map(|d| *d as usize).collect();
        if l.dtype.is_float() {
            T::new_f(l.dtype, &shape, l.f.iter().map(|v| *v as f64).collect())
        } else if l.dtype == DType::Bool {
            T::new_i(l.dtype, &shape, l.i.iter().map(|v| (*v != 0) as i64).collect())
        } else {
            T::new_i(l.dtype, &shape, l.i.clone())
        }
    }
    /// A run-time value, seen as the ONNX type the graph input declares.
    pub fn from_tval(v: &TVal, declared: DType) -> T {
        match v {
            TVal::F32 { shape, data } => T::new_f(declared, shape, data.iter().map(|x| *x as f64).collect()),
            TVal::I32 { shape, data } => T::new_i(declared, shape, data.iter().map(|x| *x as i64).collect()),
            TVal::I8 { shape, data } => T::new_i(declared, shape, data.iter().map(|x| *x as i64).collect()),
            TVal::U8 { shape, data } => T::new_i(declared, shape, data.iter().map(|x| *x as i64).collect()),
            TVal::Other(s) => panic!("non-tensor input {s}"),
        }
    }
}

/// Row-major strides.
pub fn strides(shape: &[usize]) -> Vec<usize> {
    let mut s = vec![1usize; shape.len()];
    for d in (0..shape.len().saturating_sub(1)).rev() {
        s[d] = s[d + 1] * shape[d + 1];
    }
    s
}

pub fn unravel(mut k: usize, shape: &[usize]) -> Vec<usize> {
    let mut idx = vec![0usize; shape.len()];
    for d in (0..shape.len()).rev() {
        if shape[d] > 0 {
            idx[d] = k % shape[d];
            k /= shape[d];
        }
    }
    idx
}

pub fn ravel(idx: &[usize], shape: &[usize]) -> usize {
    debug_assert_eq!(idx.len(), shape.len());
    let mut k = 0usize;
    for d in 0..shape.len() {
        debug_assert!(idx[d] < shape[d], "index {:?} out of shape {:?}", idx, shape);
        k = k * shape[d] + idx[d];
    }
    k
}

/// All index vectors of a shape in row-major order.
pub fn indices(shape: &[usize]) -> Vec<Vec<usize>> {
    (0..numel(shape)).map(|k| unravel(k, shape)).collect()
}

/// Normalise a possibly negative axis against `rank`.
pub fn norm_axis(a: i64, rank: usize) -> Result<usize, String> {
    let r = rank as i64;
    if a < -r || a >= r {
        return Err(format!("axis {a} out of range for rank {rank}"));
    }
    Ok(if a < 0 { (a + r) as usize } else { a as usize })
}

/// Numpy (multidirectional) broadcast of two shapes.
pub fn bshape(a: &[usize], b: &[usize]) -> Result<Vec<usize>, String> {
    let r = a.len().max(b.len());
    let mut out = vec![0usize; r];
    for d in 0..r {
        let x = if d + a.len() >= r { a[d + a.len() - r] } else { 1 };
        let y = if d + b.len() >= r { b[d + b.len() - r] } else { 1 };
        out[d] = if x == y {
            x
        } else if x == 1 {
            y
        } else if y == 1 {
            x
        } else {
            return Err(format!("shapes {:?} and {:?} do not broadcast", a, b));
        };
    }
    Ok(out)
}

/// Flat index into a tensor of shape `shape` for output index `idx` of a
/// broadcast result (right-aligned; size-1 dims repeat).
pub fn bidx(idx: &[usize], shape: &[usize]) -> usize {
    let off = idx.len() - shape.len();
    let mut k = 0usize;
    for d in 0..shape.len() {
        let i = if shape[d] == 1 { 0 } else { idx[off + d] };
        k = k * shape[d] + i;
    }
    k
}

/// Round half to even (the ONNX rounding rule for Round and quantisation).
pub fn round_half_even(x: f64) -> f64 {
    if !x.is_finite() {
        return x;
    }
    let fl = x.floor();
    let d = x - fl;
    if d < 0.5 {
        fl
    } else if d > 0.5 {
        fl + 1.0
    } else if (fl / 2.0).floor() * 2.0 == fl {
        fl
    } else {
        fl + 1.0
    }
}

//! Root-cause refinement of failure signatures: `op:<Name>:<aspect>:<kind>`.
//!
//! Only features that identify a confirmed, separately recorded defect are
//! distinguished; every other failure keeps the plain `op:<Name>:<kind>`
//! signature and is therefore reported as a new violation.

use crate::case::Case;
use crate::tensor::*;
use vc_onnxgen::{Attr, DType};

fn attr<'a>(c: &'a Case, name: &str) -> Option<&'a Attr> {
    c.node().attrs.iter().find(|(k, _)| k == name).map(|(_, v)| v)
}
fn attr_s<'a>(c: &'a Case, name: &str) -> Option<&'a str> {
    match attr(c, name) {
        Some(Attr::Str(s)) => Some(s.as_str()),
        _ => None,
    }
}
fn attr_i(c: &Case, name: &str) -> Option<i64> {
    match attr(c, name) {
        Some(Attr::Int(v)) => Some(*v),
        _ => None,
    }
}
fn is_init(c: &Case, k: usize) -> bool {
    match c.node().inputs.get(k) {
        Some(n) if !n.is_empty() => c.model.graph.initializers.iter().any(|(name, _)| name == n),
        _ => false,
    }
}

pub fn aspect(c: &Case, ins: &[Option<T>]) -> String {
    let op = c.node().op.as_str();
    let inp = |k: usize| ins.get(k).and_then(|t| t.as_ref());
    match op {
        "Conv" | "ConvInteger" | "ConvTranspose" | "MaxPool" | "AveragePool" => {
            // (first, so that it stays attributed when another gap of the same node is repaired)
            if attr_s(c, "auto_pad") == Some("SAME_LOWER") {
                return "auto_pad=SAME_LOWER".into();
            }
            if matches!(op, "Conv" | "ConvInteger" | "ConvTranspose") && attr(c, "kernel_shape").is_none() {
                return "no-kernel_shape".into();
            }
            if matches!(op, "MaxPool" | "AveragePool") && attr(c, "strides").is_none() {
                return "no-strides".into();
            }
            if op == "ConvInteger" {
                return conv_integer_aspect(c, ins);
            }
            String::new()
        }
        "MatMulInteger" => matmul_integer_aspect(c, ins),
        "Cast" if attr_i(c, "to") == Some(9) => "to=bool".into(),
        "QuantizeLinear" if inp(2).is_none() && attr_i(c, "output_dtype").unwrap_or(0) == 0 => "no-zero_point".into(),
        "Sign" => match inp(0) {
            Some(x) if x.is_f() && x.f.iter().any(|v| *v == 0.0) => "float-zero".into(),
            _ => String::new(),
        },
        "Div" => match (inp(0), inp(1)) {
            // ReciprocalFusion rewrites `1 / x` (constant numerator with one element)
            (Some(a), Some(b)) if is_init(c, 0) && a.n() == 1 && a.is_f() && a.f[0] == 1.0 && a.rank() > b.rank() => "constant-one-numerator-of-higher-rank".into(),
            _ => String::new(),
        },
        "Pow" => match (inp(0), inp(1)) {
            (Some(b), Some(e)) if e.n() == 1 && e.rank() > b.rank() => "one-element-exponent-of-higher-rank".into(),
            _ => String::new(),
        },
        "ArgMax" | "ArgMin" => match inp(0) {
            Some(x) => {
                let axis = attr_i(c, "axis").unwrap_or(0);
                let axis = norm_axis(axis, x.rank()).unwrap_or(0);
                let (_, g) = crate::refops::reduce::groups(&x.shape, &[axis]);
                let tie = g.iter().any(|m| {
                    let v: Vec<f64> = m.iter().map(|k| x.val(*k)).collect();
                    let best = if op == "ArgMax" { v.iter().cloned().fold(f64::NEG_INFINITY, f64::max) } else { v.iter().cloned().fold(f64::INFINITY, f64::min) };
                    v.iter().filter(|a| **a == best).count() > 1
                });
                if tie {
                    "tie".into()
                } else {
                    String::new()
                }
            }
            None => String::new(),
        },
        "ScatterElements" => match (inp(0), inp(1)) {
            (Some(d), Some(i)) if d.rank() == i.rank() => {
                let axis = norm_axis(attr_i(c, "axis").unwrap_or(0), d.rank()).unwrap_or(0);
                if (0..d.rank()).any(|k| k != axis && i.shape[k] < d.shape[k]) {
                    "indices-narrower-than-data".into()
                } else {
                    String::new()
                }
            }
            _ => String::new(),
        },
        "Resize" => {
            if attr_s(c, "coordinate_transformation_mode") == Some("align_corners") {
                if let Ok(es) = crate::refops::eval(c.node(), ins, c.model.opset) {
                    let os = &es[0].t.shape;
                    if os.len() >= 2 && os[os.len() - 2..].iter().any(|o| *o == 1) {
                        return "align_corners-output-dim-1".into();
                    }
                }
            }
            String::new()
        }
        "Softmax" | "LogSoftmax" if c.model.opset < 13 => match inp(0) {
            // before opset 13 the input is coerced to 2-D at `axis` (default 1)
            Some(x) => {
                let a = norm_axis(attr_i(c, "axis").unwrap_or(1), x.rank()).unwrap_or(0);
                if a + 1 != x.rank() {
                    "opset<13-2d-coercion".into()
                } else {
                    String::new()
                }
            }
            None => String::new(),
        },
        "Einsum" => match attr_s(c, "equation") {
            Some(eq) => {
                let lhs = eq.split("->").next().unwrap_or("");
                let repeated = lhs.split(',').any(|t| {
                    let t: Vec<char> = t.chars().filter(|ch| *ch != ' ').collect();
                    (0..t.len()).any(|i| t[i + 1..].contains(&t[i]))
                });
                if repeated {
                    "repeated-index-in-operand".into()
                } else {
                    String::new()
                }
            }
            None => String::new(),
        },
        "ReduceMean" => match inp(1) {
            // ReduceMeanAxesFusion folds a constant `axes` input into the operator
            Some(axes) if axes.n() == 0 && is_init(c, 1) && attr_i(c, "noop_with_empty_axes").unwrap_or(0) != 0 => "constant-empty-axes+noop_with_empty_axes".into(),
            _ => String::new(),
        },
        _ => String::new(),
    }
}

fn nonzero(t: Option<&T>) -> bool {
    t.map(|z| z.vals().iter().any(|v| *v != 0.0)).unwrap_or(false)
}

/// MatMulInteger on the AVX2 / AVX-512 int8 kernels (root causes recorded by
/// the gemm checks C17 as zp-prepacked-ignored / zp-panel-index).
fn matmul_integer_aspect(c: &Case, ins: &[Option<T>]) -> String {
    let inp = |k: usize| ins.get(k).and_then(|t| t.as_ref());
    let (Some(a), Some(b)) = (inp(0), inp(1)) else { return String::new() };
    // rten shifts u8 B to i8 (and i8 A to u8) and adjusts the zero points:
    // the effective zero point of B is non-zero for u8 B even when none is given
    let b_eff_nonzero = nonzero(inp(3)) || b.dt == DType::U8;
    if is_init(c, 1) && b_eff_nonzero {
        return "int8-gemm:constant-B".into();
    }
    let rows: usize = if b.rank() == 2 { a.shape[..a.rank() - 1].iter().product() } else { a.shape[a.rank().saturating_sub(2)] };
    let cols = *b.shape.last().unwrap_or(&1);
    let a_vec = inp(2).map(|z| z.n() > 1).unwrap_or(false);
    let b_vec = inp(3).map(|z| z.n() > 1).unwrap_or(false);
    if (a_vec && rows >= 16) || (b_vec && cols >= 64) {
        return "int8-gemm:zero-point-vector-panels".into();
    }
    String::new()
}

/// ConvInteger: rten shifts u8 inputs to i8 and i8 kernels to u8, so the
/// zero points its kernels see are `x_zp - 128` (u8 input) and `w_zp + 128`
/// (i8 kernel).
fn conv_integer_aspect(c: &Case, ins: &[Option<T>]) -> String {
    let inp = |k: usize| ins.get(k).and_then(|t| t.as_ref());
    let (Some(x), Some(w)) = (inp(0), inp(1)) else { return String::new() };
    if x.rank() < 3 || w.rank() != x.rank() {
        return String::new();
    }
    let group = attr_i(c, "group").unwrap_or(1) as usize;
    let (batch, in_c, out_c) = (x.shape[0], x.shape[1], w.shape[0]);
    // depthwise convolutions take a separate code path that is not affected
    if in_c == out_c && group == in_c {
        return String::new();
    }
    let x_zp = inp(2).map(|z| z.val(0)).unwrap_or(0.0);
    let x_eff = if x.dt == DType::U8 { x_zp - 128.0 } else { x_zp };
    let w_eff_nonzero = match inp(3) {
        Some(z) => z.vals().iter().any(|v| (if w.dt == DType::I8 { v + 128.0 } else { *v }) != 0.0),
        None => w.dt == DType::I8,
    };
    let ctx = crate::refops::Ctx { node: c.node(), ins, opset: c.model.opset };
    let nsp = x.rank() - 2;
    let k: Vec<usize> = w.shape[2..].to_vec();
    let ints = |name: &str| -> Vec<usize> {
        match attr(c, name) {
            Some(Attr::Ints(v)) => v.iter().map(|a| *a as usize).collect(),
            _ => vec![1; nsp],
        }
    };
    let (s, d) = (ints("strides"), ints("dilations"));
    let Ok((pb, pe)) = crate::refops::nn::resolve_pads(&ctx, &x.shape[2..], &k, &s, &d) else { return String::new() };
    let has_padding = pb.iter().chain(pe.iter()).any(|v| *v > 0);
    if has_padding && x_eff != 0.0 {
        return "padding-cells-not-zero-point".into();
    }
    if batch > 1 && w_eff_nonzero {
        return "int8-gemm:prepacked-kernel".into();
    }
    let depth: usize = (in_c / group.max(1)) * k.iter().product::<usize>();
    if nsp == 2 && depth % 4 != 0 && pb[0] > 0 && pb[1] > 0 && w_eff_nonzero {
        return "int8-gemm:im2col-padded-rows".into();
    }
    String::new()
}

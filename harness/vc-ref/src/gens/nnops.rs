//! MatMul/Gemm/Einsum, convolution, pooling, normalisation, resize, quantisation generators.

use super::*;

/// sizes that cross typical kernel tile boundaries now and then
fn msize(p: &Pool, k: usize) -> usize {
    [1usize, 2, 3, 4, 5, 7, 8, 9, 16, 17, 33][p.pick(k, 11)]
}
fn small(p: &Pool, k: usize, hi: usize) -> usize {
    1 + p.pick(k, hi)
}

pub fn matmul() -> BS<Spec> {
    (bcast_pair(), pool(), fdt(), 0u8..5)
        .prop_map(|((ba, bb), p, fd, form)| {
            let (m, k, n) = (msize(&p, 0), msize(&p, 1), msize(&p, 2));
            let ba: Vec<usize> = ba.iter().take(2).map(|d| (*d).min(3)).collect();
            let bb: Vec<usize> = bb.iter().take(2).map(|d| (*d).min(3)).collect();
            // bcast_pair right-aligns; after truncation the two prefixes still broadcast
            let (ba, bb) = if super::super::tensor::bshape(&ba, &bb).is_ok() { (ba, bb) } else { (vec![], vec![]) };
            let (sa, sb): (Vec<usize>, Vec<usize>) = match form {
                0 => (vec![m, k], vec![k, n]),
                1 => (vec![k], vec![k, n]),
                2 => (vec![m, k], vec![k]),
                3 => (vec![k], vec![k]),
                _ => ([ba, vec![m, k]].concat(), [bb, vec![k, n]].concat()),
            };
            // smaller magnitudes keep the condition-aware bound meaningful
            Spec::new("MatMul", vec![tf(fd, &sa, p.fmap(numel(&sa), 0, |v| v / 4.0), p.pl(0)), tf(fd, &sb, p.fmap(numel(&sb), 1, |v| v / 4.0), p.pl(1))])
        })
        .boxed()
}

pub fn gemm() -> BS<Spec> {
    (pool(), fdt(), any::<u8>(), 0u8..7)
        .prop_map(|(p, fd, flags, cform)| {
            let (m, k, n) = (msize(&p, 0), msize(&p, 1), msize(&p, 2));
            let (ta, tb) = (flags & 1 != 0, flags & 2 != 0);
            let sa = if ta { vec![k, m] } else { vec![m, k] };
            let sb = if tb { vec![n, k] } else { vec![k, n] };
            let sc: Option<Vec<usize>> = match cform {
                0 => None,
                1 => Some(vec![]),
                2 => Some(vec![1]),
                3 => Some(vec![n]),
                4 => Some(vec![1, n]),
                5 => Some(vec![m, 1]),
                _ => Some(vec![m, n]),
            };
            let mut ins = vec![tf(fd, &sa, p.fmap(numel(&sa), 0, |v| v / 4.0), p.pl(0)), tf(fd, &sb, p.fmap(numel(&sb), 1, |v| v / 4.0), p.pl(1))];
            if let Some(sc) = &sc {
                ins.push(tf(fd, sc, p.fs(numel(sc), 2), p.pl(2)));
            }
            let mut spec = Spec::new("Gemm", ins);
            if ta || flags & 4 != 0 {
                spec = spec.ai("transA", ta as i64);
            }
            if tb || flags & 8 != 0 {
                spec = spec.ai("transB", tb as i64);
            }
            let coef = [0.5f32, 2.0, -1.0, 0.0, 1.0];
            if flags & 16 != 0 {
                spec = spec.af("alpha", coef[p.pick(3, 5)]);
            }
            if flags & 32 != 0 {
                spec = spec.af("beta", coef[p.pick(4, 5)]);
            }
            spec
        })
        .boxed()
}

const EQUATIONS: &[&str] = &[
    "ij,jk->ik",
    "ij,jk",
    "bij,bjk->bik",
    "ij->ji",
    "ij->",
    "ij->i",
    "ij->j",
    "i,i->",
    "i,j->ij",
    "ijk->kji",
    "ij,ij->ij",
    "ij,j->i",
    "abc,cd->abd",
    "bhqd,bhkd->bhqk",
    "bqhd,bkhd->bhqk",
    "ab,bc,cd->ad",
    "i,i,i->i",
    "ij,jk,kl->il",
    "bi,bj->bij",
    "ijk,ikl->ijl",
    "ji,jk->ik",
    "ik,jk->ij",
    "ba, ca -> bc",
    "ij",
    "ab,ab->",
    "abc->acb",
    "abcd,cd->ab",
    "ii->i",
    "ii",
    "ii->",
];

pub fn einsum() -> BS<Spec> {
    (0usize..EQUATIONS.len(), pool(), fdt())
        .prop_map(|(e, p, fd)| {
            let eq = EQUATIONS[e];
            let lhs: String = eq.split("->").next().unwrap().chars().filter(|c| *c != ' ').collect();
            let ins = lhs
                .split(',')
                .enumerate()
                .map(|(t, term)| {
                    let shape: Vec<usize> = term.chars().map(|c| 1 + p.pick(c as usize % 16, 4)).collect();
                    tf(fd, &shape, p.fmap(numel(&shape), t, |v| v / 4.0), p.pl(t))
                })
                .collect();
            Spec::new("Einsum", ins).astr("equation", eq)
        })
        .boxed()
}

// ---------------------------------------------------------------------------
// Conv / ConvTranspose / ConvInteger geometry
// ---------------------------------------------------------------------------

pub struct ConvGeom {
    pub xs: Vec<usize>,
    pub ws: Vec<usize>,
    pub attrs: Vec<(&'static str, Vec<i64>)>,
    pub auto_pad: Option<&'static str>,
    pub group: usize,
    pub m: usize,
    pub with_kernel_shape: bool,
}

/// Random convolution geometry (1-D or 2-D), valid by construction.
pub fn conv_geom(p: &Pool, nsp: usize, allow_missing_kernel_shape: bool) -> ConvGeom {
    let group = [1usize, 1, 2, 3][p.pick(0, 4)];
    let (cg, mg) = (small(p, 1, 3), small(p, 2, 3));
    let n = small(p, 3, 2);
    let mut k = Vec::new();
    let mut s = Vec::new();
    let mut d = Vec::new();
    let mut pb = Vec::new();
    let mut pe = Vec::new();
    let mut insz = Vec::new();
    let pad_mode = p.pick(4, 6); // 0,1: explicit pads; 2: no pads attr; 3: SAME_UPPER; 4: SAME_LOWER; 5: VALID
    for i in 0..nsp {
        let ki = small(p, 5 + i, 3);
        let si = small(p, 8 + i, 3);
        let di = small(p, 11 + i, 2);
        let (b, e) = if pad_mode <= 1 { (p.pick(14 + i, 3), p.pick(17 + i, 3)) } else { (0, 0) };
        let eff = (ki - 1) * di + 1;
        let min_in = eff.saturating_sub(b + e).max(1);
        let extra = p.pick(20 + i, 6);
        k.push(ki as i64);
        s.push(si as i64);
        d.push(di as i64);
        pb.push(b as i64);
        pe.push(e as i64);
        insz.push(min_in + extra);
    }
    let mut xs = vec![n, group * cg];
    xs.extend(&insz);
    let mut ws = vec![group * mg, cg];
    ws.extend(k.iter().map(|v| *v as usize));
    let mut attrs: Vec<(&'static str, Vec<i64>)> = Vec::new();
    let with_kernel_shape = !(allow_missing_kernel_shape && p.pick(23, 8) == 0);
    if with_kernel_shape {
        attrs.push(("kernel_shape", k.clone()));
    }
    if s.iter().any(|v| *v != 1) || p.flag(24) {
        attrs.push(("strides", s));
    }
    if d.iter().any(|v| *v != 1) || p.flag(25) {
        attrs.push(("dilations", d));
    }
    let auto_pad = match pad_mode {
        0 | 1 => {
            attrs.push(("pads", [pb, pe].concat()));
            if p.flag(26) {
                Some("NOTSET")
            } else {
                None
            }
        }
        2 => None,
        3 => Some("SAME_UPPER"),
        4 => Some("SAME_LOWER"),
        _ => Some("VALID"),
    };
    ConvGeom { xs, ws, attrs, auto_pad, group, m: group * mg, with_kernel_shape }
}

fn apply_geom(mut spec: Spec, g: &ConvGeom, p: &Pool) -> Spec {
    for (k, v) in &g.attrs {
        spec = spec.aints(k, v);
    }
    if let Some(a) = g.auto_pad {
        spec = spec.astr("auto_pad", a);
    }
    if g.group != 1 || p.flag(27) {
        spec = spec.ai("group", g.group as i64);
    }
    spec
}

pub fn conv() -> BS<Spec> {
    (pool(), fdt(), 1usize..=2, any::<bool>())
        .prop_map(|(p, fd, nsp, bias)| {
            let g = conv_geom(&p, nsp, true);
            let mut ins = vec![tf(fd, &g.xs, p.fmap(numel(&g.xs), 0, |v| v / 4.0), p.pl(0)), tf(fd, &g.ws, p.fmap(numel(&g.ws), 1, |v| v / 4.0), p.pl(1))];
            if bias {
                ins.push(tf(fd, &[g.m], p.fs(g.m, 2), p.pl(2)));
            }
            apply_geom(Spec::new("Conv", ins), &g, &p)
        })
        .boxed()
}

pub fn conv_transpose() -> BS<Spec> {
    (pool(), fdt(), 1usize..=2, any::<bool>())
        .prop_map(|(p, fd, nsp, bias)| {
            let group = [1usize, 1, 2][p.pick(0, 3)];
            let (cg, mg) = (small(&p, 1, 3), small(&p, 2, 3));
            let n = small(&p, 3, 2);
            let mut xs = vec![n, group * cg];
            let mut ws = vec![group * cg, mg];
            let (mut k, mut s, mut d, mut pb, mut pe, mut op) = (vec![], vec![], vec![], vec![], vec![], vec![]);
            for i in 0..nsp {
                let ki = small(&p, 5 + i, 3);
                let si = small(&p, 8 + i, 3);
                let di = if p.pick(30, 4) == 0 { small(&p, 11 + i, 2) } else { 1 };
                let insz = small(&p, 20 + i, 5);
                let opi = if si > 1 { p.pick(14 + i, si) } else { 0 };
                let full = si * (insz - 1) + opi + (ki - 1) * di + 1;
                // pads keep at least one output element
                let b = p.pick(16 + i, 2).min((full - 1) / 2);
                let e = p.pick(18 + i, 2).min((full - 1) / 2);
                xs.push(insz);
                ws.push(ki);
                k.push(ki as i64);
                s.push(si as i64);
                d.push(di as i64);
                pb.push(b as i64);
                pe.push(e as i64);
                op.push(opi as i64);
            }
            let m = group * mg;
            let mut ins = vec![tf(fd, &xs, p.fmap(numel(&xs), 0, |v| v / 4.0), p.pl(0)), tf(fd, &ws, p.fmap(numel(&ws), 1, |v| v / 4.0), p.pl(1))];
            if bias {
                ins.push(tf(fd, &[m], p.fs(m, 2), p.pl(2)));
            }
            let mut spec = Spec::new("ConvTranspose", ins).aints("kernel_shape", &k);
            if s.iter().any(|v| *v != 1) || p.flag(24) {
                spec = spec.aints("strides", &s);
            }
            if d.iter().any(|v| *v != 1) {
                spec = spec.aints("dilations", &d);
            }
            if pb.iter().chain(pe.iter()).any(|v| *v != 0) || p.flag(25) {
                spec = spec.aints("pads", &[pb, pe].concat());
            }
            if op.iter().any(|v| *v != 0) || p.flag(26) {
                spec = spec.aints("output_padding", &op);
            }
            if group != 1 || p.flag(27) {
                spec = spec.ai("group", group as i64);
            }
            spec
        })
        .boxed()
}

pub fn pool_op(op: &'static str) -> BS<Spec> {
    (pool(), fdt(), 1usize..=2)
        .prop_map(move |(p, fd, nsp)| {
            let (n, c) = (small(&p, 0, 2), small(&p, 1, 3));
            let mut xs = vec![n, c];
            let (mut k, mut s, mut pb, mut pe) = (vec![], vec![], vec![], vec![]);
            let pad_mode = p.pick(4, 6);
            for i in 0..nsp {
                let ki = small(&p, 5 + i, 3);
                let si = small(&p, 8 + i, 3);
                // pads strictly smaller than the kernel
                let (b, e) = if pad_mode <= 1 { (p.pick(14 + i, ki), p.pick(17 + i, ki)) } else { (0, 0) };
                let min_in = ki.saturating_sub(b + e).max(1);
                xs.push(min_in + p.pick(20 + i, 6));
                k.push(ki as i64);
                s.push(si as i64);
                pb.push(b as i64);
                pe.push(e as i64);
            }
            let mut spec = Spec::new(op, vec![tf(fd, &xs, p.fs(numel(&xs), 0), p.pl(0))]).aints("kernel_shape", &k);
            if s.iter().any(|v| *v != 1) || p.flag(24) {
                spec = spec.aints("strides", &s);
            }
            match pad_mode {
                0 | 1 => spec = spec.aints("pads", &[pb, pe].concat()),
                2 => {}
                3 => spec = spec.astr("auto_pad", "SAME_UPPER"),
                4 => spec = spec.astr("auto_pad", "SAME_LOWER"),
                _ => spec = spec.astr("auto_pad", "VALID"),
            }
            let ceil = pad_mode <= 2 && p.flag(25);
            if ceil {
                spec = spec.ai("ceil_mode", 1);
            } else if p.flag(26) {
                spec = spec.ai("ceil_mode", 0);
            }
            if op == "AveragePool" && p.flag(27) {
                // the divisor of a window that overhangs the padded input (ceil_mode) with
                // count_include_pad=1 is not pinned down by the specification text: not generated
                spec = spec.ai("count_include_pad", (p.flag(28) && !ceil) as i64);
            }
            spec
        })
        .boxed()
}

pub fn global_pool(op: &'static str) -> BS<Spec> {
    (dims(3..=5, 1, 4), pool(), fdt()).prop_map(move |(s, p, fd)| Spec::new(op, vec![tf(fd, &s, p.fs(numel(&s), 0), p.pl(0))])).boxed()
}

pub fn softmax(op: &'static str) -> BS<Spec> {
    (dims(1..=4, 1, 5), pool(), fdt(), any::<bool>(), 0u8..4)
        .prop_map(move |(s, p, fd, neg, form)| {
            let (_, a) = axis_of(s.len(), p.u(0), neg);
            let spec = Spec::new(op, vec![tf(fd, &s, p.fs(numel(&s), 0), p.pl(0))]);
            match form {
                0 => spec, // default axis -1
                // opset 11: the input is coerced to 2-D at `axis` (default 1) and
                // normalised over all trailing dims
                3 if s.len() >= 2 => {
                    if p.flag(1) {
                        spec.opset(11)
                    } else {
                        spec.opset(11).ai("axis", a)
                    }
                }
                _ => spec.ai("axis", a),
            }
        })
        .boxed()
}

pub fn layer_norm() -> BS<Spec> {
    (dims(1..=4, 1, 5), pool(), fdt(), any::<bool>(), 0u8..4, any::<bool>())
        .prop_map(|(s, p, fd, neg, form, bias)| {
            let (ai, a) = axis_of(s.len(), p.u(0), neg);
            let ns: Vec<usize> = s[ai..].to_vec();
            let mut ins = vec![tf(fd, &s, p.fs(numel(&s), 0), p.pl(0)), tf(fd, &ns, p.fmap(numel(&ns), 1, |v| v / 4.0), p.pl(1))];
            if bias {
                ins.push(tf(fd, &ns, p.fs(numel(&ns), 2), p.pl(2)));
            }
            let mut spec = Spec::new("LayerNormalization", ins);
            if !(a == -1 && form == 0) {
                spec = spec.ai("axis", a);
            }
            match form {
                1 => spec.af("epsilon", 1e-3),
                2 => spec.af("epsilon", 0.5),
                _ => spec,
            }
        })
        .boxed()
}

pub fn instance_norm() -> BS<Spec> {
    (dims(3..=4, 1, 5), pool(), fdt(), 0u8..3)
        .prop_map(|(s, p, fd, form)| {
            let c = s[1];
            let spec = Spec::new(
                "InstanceNormalization",
                vec![tf(fd, &s, p.fs(numel(&s), 0), p.pl(0)), tf(fd, &[c], p.fmap(c, 1, |v| v / 4.0), p.pl(1)), tf(fd, &[c], p.fs(c, 2), p.pl(2))],
            );
            match form {
                1 => spec.af("epsilon", 1e-3),
                2 => spec.af("epsilon", 0.5),
                _ => spec,
            }
        })
        .boxed()
}

pub fn batch_norm() -> BS<Spec> {
    (dims(2..=4, 1, 5), pool(), fdt(), 0u8..3)
        .prop_map(|(s, p, fd, form)| {
            let c = s[1];
            let spec = Spec::new(
                "BatchNormalization",
                vec![
                    tf(fd, &s, p.fs(numel(&s), 0), p.pl(0)),
                    tf(fd, &[c], p.fmap(c, 1, |v| v / 4.0), p.pl(1)),
                    tf(fd, &[c], p.fs(c, 2), p.pl(2)),
                    tf(fd, &[c], p.fmap(c, 3, |v| v / 2.0), p.pl(3)),
                    tf(fd, &[c], p.fmap(c, 4, |v| v.abs() / 2.0 + 0.125), p.pl(4)),
                ],
            );
            match form {
                1 => spec.af("epsilon", 1e-3),
                2 => spec.af("epsilon", 0.5).ai("training_mode", 0),
                _ => spec,
            }
        })
        .boxed()
}

pub fn lp_norm() -> BS<Spec> {
    (dims(1..=4, 1, 5), pool(), fdt(), any::<bool>(), 0u8..3)
        .prop_map(|(s, p, fd, neg, form)| {
            let (_, a) = axis_of(s.len(), p.u(0), neg);
            let spec = Spec::new("LpNormalization", vec![tf(fd, &s, p.fmap(numel(&s), 0, |v| if v == 0.0 { 1.5 } else { v }), p.pl(0))]);
            let spec = if a == -1 && form == 0 { spec } else { spec.ai("axis", a) };
            match form {
                1 => spec.ai("p", 1),
                2 => spec.ai("p", 2),
                _ => spec,
            }
        })
        .boxed()
}

pub fn resize() -> BS<Spec> {
    (pool(), fdt(), 0u8..2, 0u8..5, 0u8..5, any::<bool>())
        .prop_map(|(p, fd, mode, ctm, nmode, use_sizes)| {
            let s = vec![small(&p, 0, 2), small(&p, 1, 2), small(&p, 2, 6), small(&p, 3, 6)];
            let x = tf(fd, &s, p.fs(numel(&s), 0), p.pl(0));
            let nice = [0.5f32, 1.0, 1.5, 2.0, 2.5, 3.0, 0.75, 1.25];
            let (scales, sizes): (In, In) = if use_sizes {
                let sz = vec![s[0] as i64, s[1] as i64, small(&p, 4, 8) as i64, small(&p, 5, 8) as i64];
                (In::None, tvec(&sz, p.pl(2)))
            } else {
                // keep at least one output element per axis
                // Only scales for which n*scale is an integer: otherwise the scale used by the
                // coordinate transformation is either the given one (reference implementation) or
                // length_resized/length_original (specification text) and the two readings differ.
                let pick = |k: usize, n: usize| -> f32 {
                    let sc = nice[p.pick(k, 8)];
                    let prod = n as f32 * sc;
                    if prod < 1.0 || prod.fract() != 0.0 {
                        [1.0f32, 2.0, 3.0][p.pick(k + 2, 3)]
                    } else {
                        sc
                    }
                };
                let sc = vec![1.0, 1.0, pick(4, s[2]), pick(5, s[3])];
                (tf(DType::F32, &[4], sc, p.pl(1)), In::None)
            };
            let mut spec = Spec::new("Resize", vec![x, In::None, scales, sizes]).trim();
            let mode_s = ["nearest", "linear"][mode as usize];
            if mode == 1 || p.flag(6) {
                spec = spec.astr("mode", mode_s);
            }
            let ctm_s = ["half_pixel", "asymmetric", "align_corners", "pytorch_half_pixel", "half_pixel"][ctm as usize];
            if ctm != 4 {
                spec = spec.astr("coordinate_transformation_mode", ctm_s);
            }
            if mode == 0 && nmode != 4 {
                spec = spec.astr("nearest_mode", ["round_prefer_floor", "round_prefer_ceil", "floor", "ceil"][nmode as usize]);
            }
            spec
        })
        .boxed()
}

// ---------------------------------------------------------------------------
// quantisation
// ---------------------------------------------------------------------------

fn q8(p: &Pool, n: usize, salt: usize, signed: bool) -> Vec<i64> {
    // full range incl. the extremes
    p.us(n, salt)
        .iter()
        .map(|u| {
            let v = (*u >> 3) as i64 % 256;
            let v = match u & 7 {
                0 => 0,
                1 => 255,
                _ => v,
            };
            if signed {
                v - 128
            } else {
                v
            }
        })
        .collect()
}

const SCALES: [f32; 8] = [0.25, 0.5, 1.0, 2.0, 0.1, 0.3, 2.5, 0.0625];

pub fn quantize_linear() -> BS<Spec> {
    (dims(0..=3, 1, 5), pool(), fdt(), 0u8..3, any::<bool>(), any::<bool>())
        .prop_map(|(s, p, fd, zp_kind, per_axis, neg)| {
            let n = numel(&s);
            let per_axis = per_axis && !s.is_empty();
            let (ai, a) = axis_of(s.len().max(1), p.u(0), neg);
            let len = if per_axis { s[ai] } else { 1 };
            let qshape: Vec<usize> = if per_axis { vec![len] } else { vec![] };
            let scales: Vec<f32> = (0..len).map(|k| SCALES[p.pick(1 + k, 8)]).collect();
            // values reaching beyond the saturation range after division
            let x = tf(fd, &s, p.fmap(n, 0, |v| v * 12.0), p.pl(0));
            let sc = tf(fd, &qshape, scales, p.pl(1));
            let zp = match zp_kind {
                0 => In::None,
                1 => ti(DType::U8, &qshape, q8(&p, len, 2, false), p.pl(2)),
                _ => ti(DType::I8, &qshape, q8(&p, len, 2, true), p.pl(2)),
            };
            let mut spec = Spec::new("QuantizeLinear", vec![x, sc, zp]).trim();
            if per_axis {
                spec = spec.ai("axis", a);
            }
            spec
        })
        .boxed()
}

pub fn dequantize_linear() -> BS<Spec> {
    (dims(0..=3, 1, 5), pool(), fdt(), 0u8..4, any::<bool>(), any::<bool>())
        .prop_map(|(s, p, fd, kind, per_axis, neg)| {
            let n = numel(&s);
            let per_axis = per_axis && !s.is_empty();
            let (ai, a) = axis_of(s.len().max(1), p.u(0), neg);
            let len = if per_axis { s[ai] } else { 1 };
            let qshape: Vec<usize> = if per_axis { vec![len] } else { vec![] };
            let scales: Vec<f32> = (0..len).map(|k| SCALES[p.pick(1 + k, 8)]).collect();
            let sc = tf(fd, &qshape, scales, p.pl(1));
            let (x, zp) = match kind {
                0 => (ti(DType::U8, &s, q8(&p, n, 0, false), p.pl(0)), ti(DType::U8, &qshape, q8(&p, len, 2, false), p.pl(2))),
                1 => (ti(DType::I8, &s, q8(&p, n, 0, true), p.pl(0)), ti(DType::I8, &qshape, q8(&p, len, 2, true), p.pl(2))),
                2 => (ti(DType::U8, &s, q8(&p, n, 0, false), p.pl(0)), In::None),
                // int32 input (e.g. the output of MatMulInteger): no zero point
                _ => (ti(DType::I32, &s, p.imap(n, 0, |v| v * 1000), p.pl(0)), In::None),
            };
            let mut spec = Spec::new("DequantizeLinear", vec![x, sc, zp]).trim();
            if per_axis {
                spec = spec.ai("axis", a);
            }
            spec
        })
        .boxed()
}

pub fn dynamic_quantize_linear() -> BS<Spec> {
    (dims(1..=3, 1, 6), pool(), 0u8..3)
        .prop_map(|(s, p, kind)| {
            let n = numel(&s);
            let mut v: Vec<f32> = match kind {
                0 => p.fs(n, 0),
                1 => p.fmap(n, 0, |v| v.abs() + 0.5),   // all positive: min clamps to 0
                _ => p.fmap(n, 0, |v| -v.abs() * 3.0 - 0.25), // all negative
            };
            if v.iter().all(|a| *a == 0.0) {
                v[0] = 1.5;
            }
            Spec::new("DynamicQuantizeLinear", vec![tf(DType::F32, &s, v, p.pl(0))]).outs(3)
        })
        .boxed()
}

pub fn matmul_integer() -> BS<Spec> {
    (pool(), 0u8..4, 0u8..3, 0u8..3, 0u8..4)
        .prop_map(|(p, types, azk, bzk, form)| {
            // mostly small, sometimes large enough for several kernel panels
            let big = p.pick(9, 6) == 0;
            let (m, k, n) = if big { ([16usize, 17, 33, 40][p.pick(0, 4)], msize(&p, 1), [64usize, 65, 70, 16][p.pick(2, 4)]) } else { (msize(&p, 0).min(9), msize(&p, 1), msize(&p, 2).min(9)) };
            let (a_signed, b_signed) = (types & 1 != 0, types & 2 != 0);
            let (adt, bdt) = (if a_signed { DType::I8 } else { DType::U8 }, if b_signed { DType::I8 } else { DType::U8 });
            let (sa, sb): (Vec<usize>, Vec<usize>) = match form {
                0 | 1 => (vec![m, k], vec![k, n]),
                2 => (vec![2, m, k], vec![k, n]),
                _ => (vec![2, m, k], vec![2, k, n]),
            };
            let a = ti(adt, &sa, q8(&p, numel(&sa), 0, a_signed), p.pl(0));
            let b = ti(bdt, &sb, q8(&p, numel(&sb), 1, b_signed), p.pl(1));
            let az = match azk {
                0 => In::None,
                1 => tscalar_i(adt, q8(&p, 1, 2, a_signed)[0], p.pl(2)),
                _ => ti(adt, &[m], q8(&p, m, 2, a_signed), p.pl(2)),
            };
            let bz = match bzk {
                0 => In::None,
                1 => tscalar_i(bdt, q8(&p, 1, 3, b_signed)[0], p.pl(3)),
                _ => ti(bdt, &[n], q8(&p, n, 3, b_signed), p.pl(3)),
            };
            Spec::new("MatMulInteger", vec![a, b, az, bz]).trim()
        })
        .boxed()
}

pub fn conv_integer() -> BS<Spec> {
    (pool(), 1usize..=2, 0u8..2, 0u8..2, 0u8..3)
        .prop_map(|(p, nsp, w_signed, xzk, wzk)| {
            let g = conv_geom(&p, nsp, false);
            let w_signed = w_signed == 1;
            let wdt = if w_signed { DType::I8 } else { DType::U8 };
            let x = ti(DType::U8, &g.xs, q8(&p, numel(&g.xs), 0, false), p.pl(0));
            let w = ti(wdt, &g.ws, q8(&p, numel(&g.ws), 1, w_signed), p.pl(1));
            let xz = if xzk == 0 { In::None } else { tscalar_i(DType::U8, q8(&p, 1, 2, false)[0], p.pl(2)) };
            let wz = match wzk {
                0 => In::None,
                1 => tscalar_i(wdt, q8(&p, 1, 3, w_signed)[0], p.pl(3)),
                _ => ti(wdt, &[g.m], q8(&p, g.m, 3, w_signed), p.pl(3)),
            };
            apply_geom(Spec::new("ConvInteger", vec![x, w, xz, wz]).trim(), &g, &p)
        })
        .boxed()
}

//! proptest generators of one-node cases, valid by construction.
//!
//! Pattern: every generator is a tuple of independent strategies (shape
//! parameters, attribute choices, a `Pool` of raw values) mapped to a `Spec`.
//! Data-dependent validity (indices in range, non-zero divisors, …) is
//! obtained by computing the dependent values from raw pool entries inside
//! the map, so there is no rejection and shrinking stays effective.

use crate::case::{In, Spec};
use proptest::collection::vec;
use proptest::prelude::*;
use vc_onnxgen::{DType, TensorLit};

pub mod basic;
pub mod nnops;
pub mod shapeops;

pub type BS<T> = BoxedStrategy<T>;

/// Raw material for tensor contents and placements.
#[derive(Clone, Debug)]
pub struct Pool {
    /// floats on a 1/8 grid in [-8, 8] (exactly representable; includes .5 ties)
    pub f: Vec<f32>,
    /// small integers in [-9, 9]
    pub i: Vec<i64>,
    /// raw selectors
    pub u: Vec<u16>,
    /// placement selectors (run-time input vs initialiser, raw vs typed encoding)
    pub pl: Vec<u8>,
}

pub fn pool() -> BS<Pool> {
    (vec(-64i32..=64, 96), vec(-9i64..=9, 96), vec(any::<u16>(), 32), vec(any::<u8>(), 8))
        .prop_map(|(f, i, u, pl)| Pool { f: f.iter().map(|v| *v as f32 / 8.0).collect(), i, u, pl })
        .boxed()
}

fn pidx(k: usize, salt: usize, len: usize) -> usize {
    (k + (k / len) * 7 + salt * 13) % len
}

impl Pool {
    /// n floats (salt decorrelates tensors of one case)
    pub fn fs(&self, n: usize, salt: usize) -> Vec<f32> {
        (0..n).map(|k| self.f[pidx(k, salt, self.f.len())]).collect()
    }
    /// n floats mapped through g
    pub fn fmap(&self, n: usize, salt: usize, g: impl Fn(f32) -> f32) -> Vec<f32> {
        self.fs(n, salt).into_iter().map(g).collect()
    }
    pub fn is(&self, n: usize, salt: usize) -> Vec<i64> {
        (0..n).map(|k| self.i[pidx(k, salt, self.i.len())]).collect()
    }
    pub fn imap(&self, n: usize, salt: usize, g: impl Fn(i64) -> i64) -> Vec<i64> {
        self.is(n, salt).into_iter().map(g).collect()
    }
    /// n raw selectors
    pub fn us(&self, n: usize, salt: usize) -> Vec<u16> {
        (0..n).map(|k| self.u[pidx(k, salt, self.u.len())]).collect()
    }
    pub fn u(&self, k: usize) -> u16 {
        self.u[k % self.u.len()]
    }
    /// selector k mapped monotonically onto 0..len
    pub fn pick(&self, k: usize, len: usize) -> usize {
        vcore::pick_idx(self.u(k), len)
    }
    pub fn flag(&self, k: usize) -> bool {
        self.u(k) & 0x8000 != 0
    }
    pub fn pl(&self, k: usize) -> u8 {
        self.pl[k % self.pl.len()]
    }
    /// bools 0/1
    pub fn bs(&self, n: usize, salt: usize) -> Vec<i64> {
        self.is(n, salt).into_iter().map(|v| (v & 1 != 0) as i64).collect()
    }
}

pub fn numel(s: &[usize]) -> usize {
    s.iter().product()
}

fn dims_i64(s: &[usize]) -> Vec<i64> {
    s.iter().map(|d| *d as i64).collect()
}

/// Placement: 0,1 -> run-time input; 2 -> initialiser (raw_data); 3 -> initialiser (typed field).
fn place(l: TensorLit, pl: u8) -> In {
    match pl >> 6 {
        0 | 1 => In::Run(l),
        2 => In::Init(TensorLit { raw: true, ..l }),
        _ => In::Init(TensorLit { raw: false, ..l }),
    }
}

/// float tensor of ONNX type `dt` (F32 or F64)
pub fn tf(dt: DType, shape: &[usize], vals: Vec<f32>, pl: u8) -> In {
    assert!(dt.is_float());
    assert_eq!(numel(shape), vals.len());
    place(TensorLit { dtype: dt, dims: dims_i64(shape), f: vals, i: vec![], raw: true }, pl)
}

/// integer-like tensor of ONNX type `dt` (I32, I64, Bool, U8, I8)
pub fn ti(dt: DType, shape: &[usize], vals: Vec<i64>, pl: u8) -> In {
    assert!(!dt.is_float());
    assert_eq!(numel(shape), vals.len());
    place(TensorLit { dtype: dt, dims: dims_i64(shape), f: vec![], i: vals, raw: true }, pl)
}

/// int64 vector (axes, shapes, pads, …)
pub fn tvec(vals: &[i64], pl: u8) -> In {
    ti(DType::I64, &[vals.len()], vals.to_vec(), pl)
}

pub fn tscalar_i(dt: DType, v: i64, pl: u8) -> In {
    ti(dt, &[], vec![v], pl)
}

pub fn tscalar_f(dt: DType, v: f32, pl: u8) -> In {
    tf(dt, &[], vec![v], pl)
}

/// float element type of a case: mostly f32, sometimes f64 (mapped to f32 at load)
pub fn fdt() -> BS<DType> {
    prop_oneof![3 => Just(DType::F32), 1 => Just(DType::F64)].boxed()
}

/// integer element type: int64 (mapped to i32) or int32
pub fn idt() -> BS<DType> {
    prop_oneof![2 => Just(DType::I64), 1 => Just(DType::I32)].boxed()
}

/// shape of the given rank range with dims in lo..=hi
pub fn dims(rank: std::ops::RangeInclusive<usize>, lo: usize, hi: usize) -> BS<Vec<usize>> {
    vec(lo..=hi, rank).boxed()
}

/// Two shapes that broadcast (numpy rules) to a common shape.
pub fn bcast_pair() -> BS<(Vec<usize>, Vec<usize>)> {
    (dims(0..=4, 1, 4), any::<u8>(), any::<u8>(), 0usize..=2, 0usize..=2, any::<bool>())
        .prop_map(|(s, m1, m2, d1, d2, which)| {
            let sub = |mask: u8, drop: usize| -> Vec<usize> {
                let drop = drop.min(s.len());
                s[drop..].iter().enumerate().map(|(i, d)| if (mask >> i) & 1 == 1 && mask & 0x80 != 0 { 1 } else { *d }).collect()
            };
            // at most one side drops leading dims so the full rank is reached
            if which {
                (sub(m1, d1), sub(m2, 0))
            } else {
                (sub(m1, 0), sub(m2, d2))
            }
        })
        .boxed()
}

/// An axis in [-rank, rank) selected by raw `u`, negative when `neg`.
pub fn axis_of(rank: usize, u: u16, neg: bool) -> (usize, i64) {
    let a = vcore::pick_idx(u, rank.max(1));
    (a, if neg { a as i64 - rank as i64 } else { a as i64 })
}

pub fn to_case(s: BS<Spec>) -> BS<crate::case::Case> {
    s.prop_map(|s| s.build()).boxed()
}

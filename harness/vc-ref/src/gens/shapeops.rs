//! Gather/Scatter, Slice, Pad and the shape-manipulation generators.

use super::*;
use vc_onnxgen::Attr;

/// data tensor of float or int type
fn data(p: &Pool, fd: DType, id: DType, int: bool, shape: &[usize], salt: usize, plk: usize) -> In {
    let n = numel(shape);
    if int {
        ti(id, shape, p.is(n, salt), p.pl(plk))
    } else {
        tf(fd, shape, p.fs(n, salt), p.pl(plk))
    }
}

/// index in [-size, size-1] from a raw selector
fn signed_index(u: u16, size: usize) -> i64 {
    vcore::pick_idx(u, 2 * size) as i64 - size as i64
}

fn ind_dt(p: &Pool, k: usize) -> DType {
    if p.flag(k) {
        DType::I32
    } else {
        DType::I64
    }
}

pub fn gather() -> BS<Spec> {
    (dims(1..=4, 1, 4), dims(0..=2, 1, 3), pool(), fdt(), idt(), any::<bool>(), any::<bool>())
        .prop_map(|(s, si, p, fd, id, int, neg)| {
            let (ai, a) = axis_of(s.len(), p.u(0), neg);
            let idx: Vec<i64> = p.us(numel(&si), 1).iter().map(|u| signed_index(*u, s[ai])).collect();
            let mut spec = Spec::new("Gather", vec![data(&p, fd, id, int, &s, 0, 0), ti(ind_dt(&p, 2), &si, idx, p.pl(1))]);
            if a != 0 || p.flag(3) {
                spec = spec.ai("axis", a);
            }
            spec
        })
        .boxed()
}

pub fn gather_elements() -> BS<Spec> {
    (dims(1..=3, 1, 4), pool(), fdt(), idt(), any::<bool>(), any::<bool>())
        .prop_map(|(s, p, fd, id, int, neg)| {
            let (ai, a) = axis_of(s.len(), p.u(0), neg);
            // indices: same rank; non-axis dims <= data dims; axis dim free
            let si: Vec<usize> = (0..s.len()).map(|d| if d == ai { 1 + p.pick(4 + d, 4) } else { 1 + p.pick(4 + d, s[d]) }).collect();
            let idx: Vec<i64> = p.us(numel(&si), 1).iter().map(|u| signed_index(*u, s[ai])).collect();
            let mut spec = Spec::new("GatherElements", vec![data(&p, fd, id, int, &s, 0, 0), ti(ind_dt(&p, 2), &si, idx, p.pl(1))]);
            if a != 0 || p.flag(3) {
                spec = spec.ai("axis", a);
            }
            spec
        })
        .boxed()
}

pub fn gather_nd() -> BS<Spec> {
    (dims(1..=4, 1, 4), dims(0..=2, 1, 3), pool(), fdt(), idt(), any::<bool>())
        .prop_map(|(s, extra, p, fd, id, int)| {
            let r = s.len();
            // batch_dims b < min(q, r); last <= r - b
            let b = p.pick(0, r); // 0..r-1
            let last = 1 + p.pick(1, r - b);
            let mut si: Vec<usize> = s[..b].to_vec();
            si.extend_from_slice(&extra);
            si.push(last);
            let n = numel(&si);
            let raw = p.us(n, 1);
            let idx: Vec<i64> = (0..n).map(|k| signed_index(raw[k], s[b + k % last])).collect();
            let mut spec = Spec::new("GatherND", vec![data(&p, fd, id, int, &s, 0, 0), ti(DType::I64, &si, idx, p.pl(1))]);
            if b != 0 || p.flag(3) {
                spec = spec.ai("batch_dims", b as i64);
            }
            spec
        })
        .boxed()
}

const REDUCTIONS: [&str; 5] = ["none", "add", "mul", "max", "min"];

pub fn scatter_elements() -> BS<Spec> {
    (dims(1..=3, 1, 4), pool(), fdt(), idt(), any::<bool>(), any::<bool>(), 0usize..6)
        .prop_map(|(s, p, fd, id, int, neg, red)| {
            let (ai, a) = axis_of(s.len(), p.u(0), neg);
            let unique = red == 0 || red == 5;
            let si: Vec<usize> = (0..s.len()).map(|d| if d == ai && !unique { 1 + p.pick(4 + d, 5) } else { 1 + p.pick(4 + d, s[d]) }).collect();
            let n = numel(&si);
            let raw = p.us(n, 1);
            let dim = s[ai];
            let idx: Vec<i64> = (0..n)
                .map(|k| {
                    if unique {
                        // distinct targets within each lane along the axis:
                        // a rotation of 0..dim chosen per lane
                        let mut rest = k;
                        let mut pos = vec![0usize; si.len()];
                        for d in (0..si.len()).rev() {
                            pos[d] = rest % si[d];
                            rest /= si[d];
                        }
                        let j = pos[ai];
                        pos[ai] = 0;
                        let lane = pos.iter().fold(0usize, |acc, v| acc * 5 + v);
                        let start = p.u(8 + lane % 16) as usize % dim;
                        let v = ((start + j) % dim) as i64;
                        if raw[k] & 1 == 1 {
                            v - dim as i64
                        } else {
                            v
                        }
                    } else {
                        signed_index(raw[k], dim)
                    }
                })
                .collect();
            let upd = if int { ti(id, &si, p.imap(n, 2, |v| v % 4), p.pl(2)) } else { tf(fd, &si, p.fmap(n, 2, |v| v / 2.0), p.pl(2)) };
            let mut spec = Spec::new("ScatterElements", vec![data(&p, fd, id, int, &s, 0, 0), ti(ind_dt(&p, 2), &si, idx, p.pl(1)), upd]);
            if a != 0 || p.flag(3) {
                spec = spec.ai("axis", a);
            }
            if red < 5 && !(red == 0 && p.flag(5)) {
                spec = spec.astr("reduction", REDUCTIONS[red]);
            }
            spec
        })
        .boxed()
}

pub fn scatter_nd() -> BS<Spec> {
    (dims(1..=3, 1, 4), 0usize..=1, pool(), fdt(), idt(), any::<bool>(), 0usize..6)
        .prop_map(|(s, two_level, p, fd, id, int, red)| {
            let r = s.len();
            let k = 1 + p.pick(0, r);
            let total: usize = s[..k].iter().product();
            let unique = red == 0 || red == 5;
            // number of index tuples
            let m = if unique { 1 + p.pick(1, total) } else { 1 + p.pick(1, 5) };
            let outer: Vec<usize> = if two_level == 1 && m % 2 == 0 { vec![2, m / 2] } else { vec![m] };
            let start = p.u(2) as usize % total;
            let raw = p.us(m, 1);
            let mut idx = Vec::new();
            for j in 0..m {
                let flat = if unique { (start + j) % total } else { raw[j] as usize % total };
                let mut rest = flat;
                let mut tup = vec![0i64; k];
                for d in (0..k).rev() {
                    tup[d] = (rest % s[d]) as i64;
                    rest /= s[d];
                }
                idx.extend(tup);
            }
            let mut si = outer.clone();
            si.push(k);
            let mut su = outer;
            su.extend_from_slice(&s[k..]);
            let nu = numel(&su);
            let upd = if int { ti(id, &su, p.imap(nu, 2, |v| v % 4), p.pl(2)) } else { tf(fd, &su, p.fmap(nu, 2, |v| v / 2.0), p.pl(2)) };
            let mut spec = Spec::new("ScatterND", vec![data(&p, fd, id, int, &s, 0, 0), ti(DType::I64, &si, idx, p.pl(1)), upd]);
            if red < 5 && !(red == 0 && p.flag(5)) {
                spec = spec.astr("reduction", REDUCTIONS[red]);
            }
            spec
        })
        .boxed()
}

pub fn one_hot() -> BS<Spec> {
    (dims(0..=3, 1, 4), 1usize..=5, pool(), fdt(), idt(), any::<bool>(), any::<bool>())
        .prop_map(|(s, depth, p, fd, id, float_values, neg)| {
            let n = numel(&s);
            let d = depth as i64;
            // indices in [-depth-2, depth+1]: includes out-of-range on both sides
            let idx: Vec<i64> = p.us(n, 0).iter().map(|u| vcore::pick_idx(*u, 2 * depth + 4) as i64 - d - 2).collect();
            let values = if float_values { tf(fd, &[2], vec![p.f[0], p.f[1] + 9.0], p.pl(2)) } else { ti(id, &[2], vec![p.i[0], p.i[1] + 20], p.pl(2)) };
            let out_rank = s.len() + 1;
            let (_, a) = axis_of(out_rank, p.u(1), neg);
            let depth_t = if p.flag(2) { ti(DType::I64, &[1], vec![d], p.pl(1)) } else { tscalar_i(ind_dt(&p, 3), d, p.pl(1)) };
            let mut spec = Spec::new("OneHot", vec![ti(ind_dt(&p, 4), &s, idx, p.pl(0)), depth_t, values]);
            if a != -1 || p.flag(5) {
                spec = spec.ai("axis", a);
            }
            spec
        })
        .boxed()
}

// ---------------------------------------------------------------------------
// Slice / Pad
// ---------------------------------------------------------------------------

pub fn slice() -> BS<Spec> {
    (dims(1..=4, 1, 6), pool(), fdt(), idt(), any::<bool>(), any::<u8>(), 0u8..8)
        .prop_map(|(s, p, fd, id, int, axmask, form)| {
            let rank = s.len();
            let x = data(&p, fd, id, int, &s, 0, 0);
            // which axes are sliced
            let mut axes: Vec<usize> = (0..rank).filter(|d| (axmask >> d) & 1 == 1).collect();
            if axes.is_empty() {
                axes.push(p.pick(0, rank));
            }
            let explicit_axes = form & 1 == 1;
            if !explicit_axes {
                // "axes: if omitted, they are set to [0, ..., r-1]": starts/ends cover every dim
                axes = (0..rank).collect();
            } else if p.flag(1) {
                axes.reverse();
            }
            let with_steps = form & 2 != 0;
            let old_form = form == 4 || form == 5; // opset 9 attributes
            let huge = form == 6; // INT64 extremes as used by exporters (initialisers only)
            let mut starts = Vec::new();
            let mut ends = Vec::new();
            let mut steps = Vec::new();
            let mut axes_i = Vec::new();
            for (k, a) in axes.iter().enumerate() {
                let dim = s[*a] as i64;
                let span = (2 * dim + 7) as usize;
                let mut st = p.pick(2 + 3 * k, span) as i64 - dim - 3;
                let mut en = p.pick(3 + 3 * k, span) as i64 - dim - 3;
                let step = if with_steps && !old_form { [1i64, -1, 2, -2, 3, -3, 1, -1][p.pick(4 + 3 * k, 8)] } else { 1 };
                // mostly orient the range along the step so that the result is not empty
                {
                    let norm = |v: i64| (if v < 0 { v + dim } else { v }).clamp(-1, dim);
                    let (ns, ne) = (norm(st), norm(en));
                    if ((step > 0 && ns > ne) || (step < 0 && ns < ne)) && p.pick(24 + k, 8) != 0 {
                        std::mem::swap(&mut st, &mut en);
                    }
                }
                // negative step with start < -dim: the spec text (clamp to 0) and the numpy-based
                // reference implementation (empty) agree only if nothing is selected either way
                if step < 0 && st < -dim && !huge {
                    let en_norm = if en < 0 { en + dim } else { en };
                    if en_norm < 0 {
                        en = p.pick(5 + 3 * k, (dim + 3) as usize) as i64;
                    }
                }
                if huge {
                    if step > 0 {
                        if p.flag(20 + k) {
                            en = i64::MAX;
                        } else {
                            st = i64::MIN;
                        }
                    } else if p.flag(20 + k) {
                        en = i64::MIN;
                    } else {
                        st = i64::MAX;
                    }
                }
                if huge && step < 0 && st < -dim && en < -dim {
                    st = -1;
                }
                starts.push(st);
                ends.push(en);
                steps.push(step);
                axes_i.push(if p.flag(10 + k) { *a as i64 - rank as i64 } else { *a as i64 });
            }
            if old_form {
                let mut spec = Spec::new("Slice", vec![x]).opset(9).aints("starts", &starts).aints("ends", &ends);
                if explicit_axes {
                    spec = spec.aints("axes", &axes_i);
                }
                return spec;
            }
            let force_init = |pl: u8| if huge { pl | 0x80 } else { pl };
            let ax_in = if explicit_axes { tvec(&axes_i, p.pl(3)) } else { In::None };
            let st_in = if with_steps { tvec(&steps, p.pl(4)) } else { In::None };
            Spec::new("Slice", vec![x, tvec(&starts, force_init(p.pl(1))), tvec(&ends, force_init(p.pl(2))), ax_in, st_in]).trim()
        })
        .boxed()
}

pub fn pad() -> BS<Spec> {
    (dims(1..=4, 1, 4), pool(), fdt(), idt(), any::<bool>(), 0u8..8)
        .prop_map(|(s, p, fd, id, int, form)| {
            let rank = s.len();
            let x = data(&p, fd, id, int, &s, 0, 0);
            let mode = ["constant", "constant", "reflect", "edge", "constant", "reflect", "edge", "wrap"][form as usize];
            let mut begin = vec![0i64; rank];
            let mut end = vec![0i64; rank];
            for d in 0..rank {
                let n = s[d] as i64;
                let (b, e) = match mode {
                    "constant" => {
                        // -1..=3, keeping the padded size >= 1
                        let mut b = p.pick(2 * d, 5) as i64 - 1;
                        let mut e = p.pick(2 * d + 1, 5) as i64 - 1;
                        if form == 0 {
                            b = b.max(0);
                            e = e.max(0);
                        }
                        if n + b + e < 1 {
                            b = 0;
                            e = 0;
                        }
                        (b, e)
                    }
                    // rten documents non-constant padding for the last two dims only
                    _ if d + 2 < rank => (0, 0),
                    "reflect" => (p.pick(2 * d, n as usize) as i64, p.pick(2 * d + 1, n as usize) as i64),
                    "wrap" => (p.pick(2 * d, n as usize + 1) as i64, p.pick(2 * d + 1, n as usize + 1) as i64),
                    _ => (p.pick(2 * d, 4) as i64, p.pick(2 * d + 1, 4) as i64),
                };
                begin[d] = b;
                end[d] = e;
            }
            let mut pads = begin.clone();
            pads.extend(end);
            let cv = p.f[1];
            if form == 4 && !int {
                // opset 2 form: attributes
                let mut spec = Spec::new("Pad", vec![x]).opset(2).aints("pads", &pads);
                if p.flag(0) {
                    spec = spec.af("value", cv);
                }
                if p.flag(1) {
                    spec = spec.astr("mode", mode);
                }
                return spec;
            }
            let val = if mode == "constant" && p.flag(0) {
                if int {
                    tscalar_i(id, p.i[1], p.pl(2))
                } else {
                    tscalar_f(fd, cv, p.pl(2))
                }
            } else {
                In::None
            };
            let mut spec = Spec::new("Pad", vec![x, tvec(&pads, p.pl(1)), val]).trim();
            if mode != "constant" || p.flag(1) {
                spec = spec.astr("mode", mode);
            }
            spec
        })
        .boxed()
}

// ---------------------------------------------------------------------------
// Concat Split Expand Tile Transpose Reshape Squeeze Unsqueeze Flatten …
// ---------------------------------------------------------------------------

pub fn concat() -> BS<Spec> {
    (dims(1..=4, 1, 4), 1usize..=4, pool(), fdt(), idt(), any::<bool>(), any::<bool>())
        .prop_map(|(s, n_in, p, fd, id, int, neg)| {
            let (ai, a) = axis_of(s.len(), p.u(0), neg);
            let ins = (0..n_in)
                .map(|k| {
                    let mut sk = s.clone();
                    sk[ai] = if k == 0 { s[ai] } else { 1 + p.pick(1 + k, 4) };
                    data(&p, fd, id, int, &sk, k, k)
                })
                .collect();
            Spec::new("Concat", ins).ai("axis", a)
        })
        .boxed()
}

pub fn split() -> BS<Spec> {
    (dims(1..=4, 1, 3), 1usize..=4, pool(), fdt(), idt(), any::<bool>(), any::<bool>(), 0u8..4)
        .prop_map(|(mut s, n_out, p, fd, id, int, neg, form)| {
            let (ai, a) = axis_of(s.len(), p.u(0), neg);
            let sizes: Vec<i64> = (0..n_out).map(|k| p.pick(1 + k, 4) as i64 + if form == 0 || form == 3 { 0 } else { 1 }).collect();
            let spec = match form {
                // explicit `split` input (sizes may be 0)
                0 => {
                    s[ai] = sizes.iter().sum::<i64>() as usize;
                    if s[ai] == 0 {
                        s[ai] = n_out;
                        let ones = vec![1i64; n_out];
                        Spec::new("Split", vec![data(&p, fd, id, int, &s, 0, 0), tvec(&ones, p.pl(1))])
                    } else {
                        Spec::new("Split", vec![data(&p, fd, id, int, &s, 0, 0), tvec(&sizes, p.pl(1))])
                    }
                }
                // num_outputs (opset 18+): possibly uneven, last chunk smaller
                1 => {
                    let chunk = 1 + p.pick(6, 3);
                    let short = p.pick(7, chunk); // 0..chunk-1 elements missing from the last chunk
                    s[ai] = chunk * n_out - if n_out > 1 { short } else { 0 };
                    // every output must be non-empty for the uneven rule to be unambiguous
                    let chunk2 = (s[ai] + n_out - 1) / n_out;
                    if chunk2 * (n_out - 1) >= s[ai] {
                        s[ai] = chunk2 * n_out;
                    }
                    Spec::new("Split", vec![data(&p, fd, id, int, &s, 0, 0)]).ai("num_outputs", n_out as i64)
                }
                // opset 13: equal split by the number of outputs
                2 => {
                    s[ai] = (1 + p.pick(6, 3)) * n_out;
                    Spec::new("Split", vec![data(&p, fd, id, int, &s, 0, 0)]).opset(13)
                }
                // opset 11: `split` attribute
                _ => {
                    let sizes: Vec<i64> = sizes.iter().map(|v| v + 1).collect();
                    s[ai] = sizes.iter().sum::<i64>() as usize;
                    Spec::new("Split", vec![data(&p, fd, id, int, &s, 0, 0)]).opset(11).aints("split", &sizes)
                }
            };
            let spec = if a != 0 || p.flag(9) { spec.ai("axis", a) } else { spec };
            spec.outs(n_out)
        })
        .boxed()
}

pub fn expand() -> BS<Spec> {
    (bcast_pair(), pool(), fdt(), idt(), any::<bool>())
        .prop_map(|((sa, sb), p, fd, id, int)| {
            let target: Vec<i64> = sb.iter().map(|d| *d as i64).collect();
            Spec::new("Expand", vec![data(&p, fd, id, int, &sa, 0, 0), tvec(&target, p.pl(1))])
        })
        .boxed()
}

pub fn tile() -> BS<Spec> {
    (dims(0..=4, 1, 3), pool(), fdt(), idt(), any::<bool>())
        .prop_map(|(s, p, fd, id, int)| {
            let reps: Vec<i64> = (0..s.len()).map(|d| p.pick(d, 4) as i64).collect();
            // a zero repeat gives an empty output: keep it rare
            let reps: Vec<i64> = reps.iter().map(|r| if *r == 0 && !p.flag(8) { 1 } else { *r }).collect();
            Spec::new("Tile", vec![data(&p, fd, id, int, &s, 0, 0), tvec(&reps, p.pl(1))])
        })
        .boxed()
}

pub fn transpose() -> BS<Spec> {
    (dims(0..=5, 1, 4), pool(), fdt(), idt(), any::<bool>(), any::<bool>())
        .prop_map(|(s, p, fd, id, int, default_perm)| {
            let rank = s.len();
            let mut perm: Vec<i64> = (0..rank as i64).collect();
            // Fisher-Yates driven by raw selectors
            for k in (1..rank).rev() {
                let j = p.pick(k, k + 1);
                perm.swap(k, j);
            }
            let spec = Spec::new("Transpose", vec![data(&p, fd, id, int, &s, 0, 0)]);
            if default_perm {
                spec
            } else {
                spec.aints("perm", &perm)
            }
        })
        .boxed()
}

pub fn reshape() -> BS<Spec> {
    (dims(0..=4, 1, 4), pool(), fdt(), idt(), any::<bool>(), 0u8..6)
        .prop_map(|(mut s, p, fd, id, int, form)| {
            // allowzero with an empty tensor
            if form == 5 && !s.is_empty() {
                let d = p.pick(9, s.len());
                s[d] = 0;
            }
            let n = numel(&s);
            // target: a factorisation of n obtained by merging / splitting dims
            let mut target: Vec<i64> = Vec::new();
            match p.pick(0, 4) {
                0 => target = s.iter().map(|d| *d as i64).collect(),
                1 => target = vec![n as i64],
                2 => {
                    // merge adjacent pairs
                    let mut k = 0;
                    while k < s.len() {
                        if k + 1 < s.len() && p.flag(k) {
                            target.push((s[k] * s[k + 1]) as i64);
                            k += 2;
                        } else {
                            target.push(s[k] as i64);
                            k += 1;
                        }
                    }
                }
                _ => {
                    // split off small factors, add ones
                    for d in &s {
                        if d % 2 == 0 && *d > 0 {
                            target.push(2);
                            target.push((*d / 2) as i64);
                        } else {
                            target.push(*d as i64);
                        }
                    }
                    target.insert(p.pick(5, target.len() + 1), 1);
                }
            }
            let mut spec_attrs: Vec<(String, Attr)> = Vec::new();
            if form == 5 {
                spec_attrs.push(("allowzero".into(), Attr::Int(1)));
            } else if n > 0 {
                // 0 = copy the input dim at the same position (only where it is equal anyway)
                if form == 1 || form == 3 {
                    for d in 0..target.len().min(s.len()) {
                        if target[d] == s[d] as i64 && p.flag(10 + d) {
                            target[d] = 0;
                        }
                    }
                }
                // -1 = inferred
                if (form == 2 || form == 3) && !target.is_empty() {
                    let d = p.pick(6, target.len());
                    if target[d] != 0 {
                        target[d] = -1;
                    }
                }
                if form == 4 && p.flag(7) {
                    spec_attrs.push(("allowzero".into(), Attr::Int(0)));
                }
            }
            let mut spec = Spec::new("Reshape", vec![data(&p, fd, id, int, &s, 0, 0), tvec(&target, p.pl(1))]);
            spec.attrs = spec_attrs;
            spec
        })
        .boxed()
}

pub fn squeeze_unsqueeze(op: &'static str) -> BS<Spec> {
    (dims(0..=4, 1, 3), pool(), fdt(), idt(), any::<bool>(), any::<u8>(), 0u8..3)
        .prop_map(move |(mut s, p, fd, id, int, mask, form)| {
            if op == "Squeeze" {
                // make the masked dims size 1
                for d in 0..s.len() {
                    if (mask >> d) & 1 == 1 {
                        s[d] = 1;
                    }
                }
                let rank = s.len();
                let mut axes: Vec<i64> = (0..rank).filter(|d| s[*d] == 1 && (mask >> (4 + d)) & 1 == 1).map(|d| if p.flag(d) { d as i64 - rank as i64 } else { d as i64 }).collect();
                if p.flag(5) {
                    axes.reverse();
                }
                let x = data(&p, fd, id, int, &s, 0, 0);
                match form {
                    0 => Spec::new(op, vec![x, tvec(&axes, p.pl(1))]),
                    1 => Spec::new(op, vec![x]), // all size-1 dims
                    _ => {
                        let sp = Spec::new(op, vec![x]).opset(11);
                        if axes.is_empty() {
                            sp
                        } else {
                            // opset 11: attribute, non-negative or negative allowed
                            sp.aints("axes", &axes)
                        }
                    }
                }
            } else {
                let n_new = 1 + (mask as usize % 3);
                let out_rank = s.len() + n_new;
                // distinct positions in the output rank
                let mut pos: Vec<usize> = (0..out_rank).collect();
                for k in (1..out_rank).rev() {
                    let j = p.pick(k, k + 1);
                    pos.swap(k, j);
                }
                let axes: Vec<i64> = pos[..n_new].iter().enumerate().map(|(k, d)| if p.flag(8 + k) { *d as i64 - out_rank as i64 } else { *d as i64 }).collect();
                let x = data(&p, fd, id, int, &s, 0, 0);
                if form == 2 {
                    // opset 11 attribute form (non-negative, sorted by the old spec)
                    let mut ax: Vec<i64> = pos[..n_new].iter().map(|d| *d as i64).collect();
                    ax.sort();
                    Spec::new(op, vec![x]).opset(11).aints("axes", &ax)
                } else {
                    Spec::new(op, vec![x, tvec(&axes, p.pl(1))])
                }
            }
        })
        .boxed()
}

pub fn flatten() -> BS<Spec> {
    (dims(0..=4, 1, 4), pool(), fdt(), idt(), any::<bool>())
        .prop_map(|(s, p, fd, id, int)| {
            let r = s.len() as i64;
            let a = p.pick(0, 2 * s.len() + 1) as i64 - r; // [-r, r]
            let spec = Spec::new("Flatten", vec![data(&p, fd, id, int, &s, 0, 0)]);
            if a == 1 && p.flag(1) && r >= 1 {
                spec
            } else if r == 0 {
                spec.ai("axis", 0)
            } else {
                spec.ai("axis", a)
            }
        })
        .boxed()
}

pub fn trilu() -> BS<Spec> {
    (dims(2..=4, 1, 5), pool(), fdt(), idt(), any::<bool>(), 0u8..3)
        .prop_map(|(s, p, fd, id, int, up)| {
            let k = p.pick(0, 13) as i64 - 6;
            let x = data(&p, fd, id, int, &s, 0, 0);
            let kin = if p.flag(1) { tscalar_i(DType::I64, k, p.pl(1)) } else { In::None };
            let spec = Spec::new("Trilu", vec![x, kin]).trim();
            match up {
                0 => spec.ai("upper", 0),
                1 => spec.ai("upper", 1),
                _ => spec,
            }
        })
        .boxed()
}

pub fn range() -> BS<Spec> {
    (pool(), fdt(), idt(), any::<bool>())
        .prop_map(|(p, fd, id, int)| {
            if int {
                let (s, l) = (p.i[0], p.i[1] * 2);
                let d = if p.i[2] == 0 { 2 } else { p.i[2] % 4 + if p.i[2] % 4 == 0 { 1 } else { 0 } };
                Spec::new("Range", vec![tscalar_i(id, s, p.pl(0)), tscalar_i(id, l, p.pl(1)), tscalar_i(id, d, p.pl(2))])
            } else {
                // quarter-grid values: (limit-start)/delta is exact
                let (s, l) = (p.f[0], p.f[1] * 2.0);
                let d = [0.25f32, 0.5, 1.0, 1.5, -0.25, -0.5, -1.0, -2.5][p.pick(0, 8)];
                Spec::new("Range", vec![tscalar_f(fd, s, p.pl(0)), tscalar_f(fd, l, p.pl(1)), tscalar_f(fd, d, p.pl(2))])
            }
        })
        .boxed()
}

pub fn shape_size(op: &'static str) -> BS<Spec> {
    (dims(0..=4, 1, 4), pool(), fdt(), idt(), any::<bool>(), 0u8..4)
        .prop_map(move |(s, p, fd, id, int, form)| {
            let x = data(&p, fd, id, int, &s, 0, 0);
            let spec = Spec::new(op, vec![x]);
            if op == "Size" {
                return spec;
            }
            let r = s.len() as i64;
            let st = p.pick(0, (2 * r + 5) as usize) as i64 - r - 2;
            let en = p.pick(1, (2 * r + 5) as usize) as i64 - r - 2;
            match form {
                0 => spec,
                1 => spec.ai("start", st),
                2 => spec.ai("end", en),
                _ => spec.ai("start", st).ai("end", en),
            }
        })
        .boxed()
}

pub fn depth_to_space() -> BS<Spec> {
    (1usize..=2, 1usize..=3, 1usize..=3, 1usize..=3, 1usize..=3, pool(), fdt(), 0u8..3)
        .prop_map(|(n, oc, h, w, b, p, fd, mode)| {
            let s = vec![n, oc * b * b, h, w];
            let spec = Spec::new("DepthToSpace", vec![tf(fd, &s, p.fs(numel(&s), 0), p.pl(0))]).ai("blocksize", b as i64);
            match mode {
                0 => spec,
                1 => spec.astr("mode", "DCR"),
                _ => spec.astr("mode", "CRD"),
            }
        })
        .boxed()
}

pub fn constant_of_shape() -> BS<Spec> {
    (dims(0..=4, 0, 4), pool(), 0u8..5)
        .prop_map(|(s, p, kind)| {
            let shape: Vec<i64> = s.iter().map(|d| *d as i64).collect();
            let spec = Spec::new("ConstantOfShape", vec![tvec(&shape, p.pl(0))]);
            let lit = |dtype: DType, f: Vec<f32>, i: Vec<i64>| TensorLit { dtype, dims: vec![1], f, i, raw: p.flag(0) };
            match kind {
                0 => spec,
                1 => spec.a("value", Attr::Tensor(lit(DType::F32, vec![p.f[0]], vec![]))),
                2 => spec.a("value", Attr::Tensor(lit(DType::I64, vec![], vec![p.i[0]]))),
                3 => spec.a("value", Attr::Tensor(lit(DType::I32, vec![], vec![p.i[0]]))),
                _ => spec.a("value", Attr::Tensor(lit(DType::Bool, vec![], vec![(p.i[0] & 1 != 0) as i64]))),
            }
        })
        .boxed()
}

pub fn eye_like() -> BS<Spec> {
    (dims(2..=2, 1, 5), pool(), fdt(), idt(), any::<bool>(), 0u8..4)
        .prop_map(|(s, p, fd, id, int, dt)| {
            let k = p.pick(0, 9) as i64 - 4;
            let mut spec = Spec::new("EyeLike", vec![data(&p, fd, id, int, &s, 0, 0)]);
            if k != 0 || p.flag(1) {
                spec = spec.ai("k", k);
            }
            match dt {
                0 => spec,
                1 => spec.ai("dtype", 1),
                2 => spec.ai("dtype", 7),
                _ => spec.ai("dtype", 6),
            }
        })
        .boxed()
}

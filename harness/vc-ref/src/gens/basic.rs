//! Element-wise, comparison/logical, variadic, unary, reduction generators.

use super::*;
use vc_onnxgen::Attr;

fn nz_f(v: f32) -> f32 {
    if v.abs() < 0.125 {
        0.5
    } else {
        v
    }
}
fn nz_i(v: i64) -> i64 {
    if v == 0 {
        3
    } else {
        v
    }
}

// ---------------------------------------------------------------------------
// Add Sub Mul Div Pow Mod
// ---------------------------------------------------------------------------

pub fn arith(op: &'static str) -> BS<Spec> {
    (bcast_pair(), pool(), fdt(), idt(), any::<bool>(), 0u8..4)
        .prop_map(move |((sa, sb), p, fd, id, use_float, variant)| {
            let (na, nb) = (numel(&sa), numel(&sb));
            match op {
                "Add" | "Sub" | "Mul" => {
                    if use_float {
                        Spec::new(op, vec![tf(fd, &sa, p.fs(na, 0), p.pl(0)), tf(fd, &sb, p.fs(nb, 1), p.pl(1))])
                    } else {
                        Spec::new(op, vec![ti(id, &sa, p.is(na, 0), p.pl(0)), ti(id, &sb, p.is(nb, 1), p.pl(1))])
                    }
                }
                "Div" => {
                    if use_float {
                        Spec::new(op, vec![tf(fd, &sa, p.fs(na, 0), p.pl(0)), tf(fd, &sb, p.fmap(nb, 1, nz_f), p.pl(1))])
                    } else {
                        // scaled numerators so that quotients are not all 0/±1
                        Spec::new(op, vec![ti(id, &sa, p.imap(na, 0, |v| v * 7), p.pl(0)), ti(id, &sb, p.imap(nb, 1, nz_i), p.pl(1))])
                    }
                }
                "Pow" => match variant {
                    // float ^ float, positive base
                    0 => Spec::new(op, vec![tf(fd, &sa, p.fmap(na, 0, |v| v.abs() / 2.0 + 0.25), p.pl(0)), tf(fd, &sb, p.fmap(nb, 1, |v| v / 2.0), p.pl(1))]),
                    // any base, small non-negative integral float exponent
                    1 => Spec::new(op, vec![tf(fd, &sa, p.fmap(na, 0, |v| v / 2.0), p.pl(0)), tf(fd, &sb, p.imap(nb, 1, |v| v.abs() % 4).iter().map(|v| *v as f32).collect(), p.pl(1))]),
                    // int ^ int
                    2 => Spec::new(op, vec![ti(id, &sa, p.imap(na, 0, |v| v % 6), p.pl(0)), ti(id, &sb, p.imap(nb, 1, |v| v.abs() % 5), p.pl(1))]),
                    // int ^ float (integral exponent values; result cast to the base type)
                    _ => Spec::new(op, vec![ti(id, &sa, p.imap(na, 0, |v| v % 6), p.pl(0)), tf(fd, &sb, p.imap(nb, 1, |v| v.abs() % 4).iter().map(|v| *v as f32).collect(), p.pl(1))]),
                },
                "Mod" => {
                    let fmod = variant & 1 == 1;
                    if use_float {
                        // fmod must be 1 for floating point inputs
                        Spec::new(op, vec![tf(fd, &sa, p.fs(na, 0), p.pl(0)), tf(fd, &sb, p.fmap(nb, 1, nz_f), p.pl(1))]).ai("fmod", 1)
                    } else {
                        let s = Spec::new(op, vec![ti(id, &sa, p.imap(na, 0, |v| v * 3), p.pl(0)), ti(id, &sb, p.imap(nb, 1, nz_i), p.pl(1))]);
                        if fmod {
                            s.ai("fmod", 1)
                        } else if variant & 2 != 0 {
                            s.ai("fmod", 0)
                        } else {
                            s
                        }
                    }
                }
                _ => unreachable!(),
            }
        })
        .boxed()
}

// ---------------------------------------------------------------------------
// comparison / logical / Where / variadic
// ---------------------------------------------------------------------------

pub fn compare(op: &'static str) -> BS<Spec> {
    (bcast_pair(), pool(), fdt(), idt(), any::<bool>())
        .prop_map(move |((sa, sb), p, fd, id, use_float)| {
            let (na, nb) = (numel(&sa), numel(&sb));
            if use_float {
                // coarse values so that equal pairs occur
                Spec::new(op, vec![tf(fd, &sa, p.fmap(na, 0, |v| (v / 2.0).round()), p.pl(0)), tf(fd, &sb, p.fmap(nb, 1, |v| (v / 2.0).round()), p.pl(1))])
            } else {
                Spec::new(op, vec![ti(id, &sa, p.imap(na, 0, |v| v % 4), p.pl(0)), ti(id, &sb, p.imap(nb, 1, |v| v % 4), p.pl(1))])
            }
        })
        .boxed()
}

pub fn logical(op: &'static str) -> BS<Spec> {
    (bcast_pair(), pool())
        .prop_map(move |((sa, sb), p)| {
            if op == "Not" {
                Spec::new(op, vec![ti(DType::Bool, &sa, p.bs(numel(&sa), 0), p.pl(0))])
            } else {
                Spec::new(op, vec![ti(DType::Bool, &sa, p.bs(numel(&sa), 0), p.pl(0)), ti(DType::Bool, &sb, p.bs(numel(&sb), 1), p.pl(1))])
            }
        })
        .boxed()
}

pub fn where_() -> BS<Spec> {
    (bcast_pair(), pool(), fdt(), idt(), any::<bool>())
        .prop_map(|((sa, sb), p, fd, id, use_float)| {
            // condition shape: one of the operand shapes with some dims set to 1
            let base = if p.flag(0) { &sa } else { &sb };
            let mask = p.u(1);
            let sc: Vec<usize> = base.iter().enumerate().map(|(i, d)| if (mask >> i) & 1 == 1 { 1 } else { *d }).collect();
            let cond = ti(DType::Bool, &sc, p.bs(numel(&sc), 2), p.pl(2));
            if use_float {
                Spec::new("Where", vec![cond, tf(fd, &sa, p.fs(numel(&sa), 0), p.pl(0)), tf(fd, &sb, p.fs(numel(&sb), 1), p.pl(1))])
            } else {
                Spec::new("Where", vec![cond, ti(id, &sa, p.is(numel(&sa), 0), p.pl(0)), ti(id, &sb, p.is(numel(&sb), 1), p.pl(1))])
            }
        })
        .boxed()
}

pub fn variadic(op: &'static str) -> BS<Spec> {
    (bcast_pair(), 1usize..=3, pool(), fdt(), idt(), any::<bool>())
        .prop_map(move |((sa, sb), n, p, fd, id, use_float)| {
            let use_float = use_float || op == "Mean";
            let shapes = [sa.clone(), sb.clone(), sa.clone()];
            let ins = (0..n)
                .map(|k| {
                    let s = &shapes[k];
                    if use_float {
                        tf(fd, s, p.fs(numel(s), k), p.pl(k))
                    } else {
                        ti(id, s, p.is(numel(s), k), p.pl(k))
                    }
                })
                .collect();
            Spec::new(op, ins)
        })
        .boxed()
}

// ---------------------------------------------------------------------------
// unary
// ---------------------------------------------------------------------------

/// map a grid value in [-8, 8] into the operator's domain
fn unary_domain(op: &str, v: f32) -> f32 {
    match op {
        "Sqrt" => v.abs(),
        "Log" => v.abs() + 0.125,
        "Reciprocal" => nz_f(v),
        "Exp" | "Sinh" | "Cosh" => v,
        "Tan" => v / 8.0 * 1.25,
        "Asin" | "Acos" | "Atanh" => {
            let s = v / 8.0;
            if op == "Atanh" {
                s * 0.875
            } else {
                s
            }
        }
        "Acosh" => v.abs() + 1.0,
        _ => v,
    }
}

pub fn unary(op: &'static str) -> BS<Spec> {
    (dims(0..=4, 1, 5), pool(), fdt(), idt(), any::<bool>(), 0u8..4)
        .prop_map(move |(s, p, fd, id, int, variant)| {
            let n = numel(&s);
            let int_ok = matches!(op, "Abs" | "Neg" | "Sign" | "Identity");
            if int && int_ok {
                return Spec::new(op, vec![ti(id, &s, p.is(n, 0), p.pl(0))]);
            }
            let x = tf(fd, &s, p.fmap(n, 0, |v| unary_domain(op, v)), p.pl(0));
            let spec = Spec::new(op, vec![x]);
            let alpha = [0.5f32, 0.01, 1.0, 2.0][variant as usize];
            match op {
                "LeakyRelu" | "Elu" if variant != 0 => spec.af("alpha", alpha),
                "HardSigmoid" if variant == 1 => spec.af("alpha", 0.5).af("beta", 0.25),
                "HardSigmoid" if variant == 2 => spec.af("alpha", 1.0 / 6.0),
                "Gelu" if variant == 1 => spec.astr("approximate", "tanh"),
                "Gelu" if variant == 2 => spec.astr("approximate", "none"),
                _ => spec,
            }
        })
        .boxed()
}

pub fn clip() -> BS<Spec> {
    (dims(0..=4, 1, 5), pool(), fdt(), idt(), any::<bool>(), 0u8..6)
        .prop_map(|(s, p, fd, id, int, variant)| {
            let n = numel(&s);
            // bounds: lo <= hi except in variant 5 (min > max: every element becomes max)
            let (a, b) = (p.f[0] / 2.0, p.f[1] / 2.0);
            let (mut lo, mut hi) = if a <= b { (a, b) } else { (b, a) };
            if variant == 5 {
                std::mem::swap(&mut lo, &mut hi);
                if lo == hi {
                    lo += 1.0;
                }
            }
            if variant == 4 && !int {
                // opset 6 form: attributes
                let mut sp = Spec::new("Clip", vec![tf(fd, &s, p.fs(n, 2), p.pl(0))]).opset(6);
                if p.flag(0) {
                    sp = sp.af("min", lo);
                }
                if p.flag(1) || !p.flag(0) {
                    sp = sp.af("max", hi);
                }
                return sp;
            }
            let has_lo = variant != 1;
            let has_hi = variant != 2;
            if int {
                let x = ti(id, &s, p.is(n, 2), p.pl(0));
                let l = if has_lo { tscalar_i(id, lo as i64, p.pl(1)) } else { In::None };
                let h = if has_hi { tscalar_i(id, hi as i64, p.pl(2)) } else { In::None };
                Spec::new("Clip", vec![x, l, h]).trim()
            } else {
                let x = tf(fd, &s, p.fs(n, 2), p.pl(0));
                let l = if has_lo { tscalar_f(fd, lo, p.pl(1)) } else { In::None };
                let h = if has_hi { tscalar_f(fd, hi, p.pl(2)) } else { In::None };
                Spec::new("Clip", vec![x, l, h]).trim()
            }
        })
        .boxed()
}

pub fn prelu() -> BS<Spec> {
    (dims(1..=4, 1, 4), pool(), fdt(), any::<u8>(), 0usize..=3)
        .prop_map(|(s, p, fd, mask, drop)| {
            // slope: unidirectionally broadcastable to x
            let drop = drop.min(s.len());
            let ss: Vec<usize> = s[drop..].iter().enumerate().map(|(i, d)| if (mask >> i) & 1 == 1 { 1 } else { *d }).collect();
            Spec::new("PRelu", vec![tf(fd, &s, p.fs(numel(&s), 0), p.pl(0)), tf(fd, &ss, p.fmap(numel(&ss), 1, |v| v / 4.0), p.pl(1))])
        })
        .boxed()
}

pub fn cast() -> BS<Spec> {
    (dims(0..=4, 1, 5), pool(), fdt(), idt(), 0u8..3, 0u8..5)
        .prop_map(|(s, p, fd, id, from, to)| {
            let n = numel(&s);
            let x = match from {
                0 => tf(fd, &s, p.fs(n, 0), p.pl(0)),
                1 => ti(id, &s, p.is(n, 0), p.pl(0)),
                _ => ti(DType::Bool, &s, p.bs(n, 0), p.pl(0)),
            };
            let code = [1i64, 6, 7, 9, 11][to as usize];
            Spec::new("Cast", vec![x]).ai("to", code)
        })
        .boxed()
}

// ---------------------------------------------------------------------------
// reductions
// ---------------------------------------------------------------------------

pub fn reduce(op: &'static str) -> BS<Spec> {
    (dims(1..=4, 1, 5), pool(), fdt(), idt(), any::<bool>(), 0u8..6, proptest::option::of(any::<bool>()), any::<u8>())
        .prop_map(move |(s, p, fd, id, int, form, keepdims, axmask)| {
            let n = numel(&s);
            let rank = s.len();
            // rten supports i32 for these; ReduceMean and the log/L2 reductions are float-only there
            let int_ok = matches!(op, "ReduceSum" | "ReduceMax" | "ReduceMin" | "ReduceProd" | "ReduceL1" | "ReduceSumSquare");
            let x = if int && int_ok {
                ti(id, &s, p.imap(n, 0, |v| if op == "ReduceProd" { v % 3 } else { v }), p.pl(0))
            } else {
                let g: fn(f32) -> f32 = match op {
                    "ReduceLogSum" => |v| v.abs() + 0.125,
                    "ReduceProd" => |v| v / 4.0,
                    _ => |v| v,
                };
                tf(fd, &s, p.fmap(n, 0, g), p.pl(0))
            };
            // axes: distinct subset selected by mask, each written positive or negative
            let mut axes: Vec<i64> = Vec::new();
            for d in 0..rank {
                if (axmask >> d) & 1 == 1 {
                    axes.push(if (axmask >> (4 + d % 4)) & 1 == 1 { d as i64 - rank as i64 } else { d as i64 });
                }
            }
            if p.flag(3) {
                axes.reverse();
            }
            // does the (opset-dependent) input form exist? ReduceSum: 13+, others: 18+
            let mut spec = match form {
                // axes as input (opset 20)
                0 | 1 => Spec::new(op, vec![x, tvec(&axes, p.pl(1))]),
                // axes as attribute (opset 11: attribute form for every reduce op)
                2 | 3 => {
                    let sp = Spec::new(op, vec![x]).opset(11);
                    if axes.is_empty() {
                        sp
                    } else {
                        sp.aints("axes", &axes)
                    }
                }
                // no axes at all: reduce over everything
                4 => Spec::new(op, vec![x]),
                // empty axes input with noop_with_empty_axes
                _ => {
                    let noop_safe = matches!(op, "ReduceSum" | "ReduceMean" | "ReduceMax" | "ReduceMin" | "ReduceProd");
                    let sp = Spec::new(op, vec![x, tvec(&[], p.pl(1))]);
                    if noop_safe {
                        sp.ai("noop_with_empty_axes", p.flag(4) as i64)
                    } else {
                        sp.ai("noop_with_empty_axes", 0)
                    }
                }
            };
            if let Some(k) = keepdims {
                spec = spec.ai("keepdims", k as i64);
            }
            spec
        })
        .boxed()
}

pub fn arg_reduce(op: &'static str) -> BS<Spec> {
    (dims(1..=4, 1, 5), pool(), fdt(), idt(), any::<bool>(), proptest::option::of(any::<bool>()), any::<bool>(), any::<bool>())
        .prop_map(move |(s, p, fd, id, int, keepdims, neg, explicit_axis)| {
            let n = numel(&s);
            // coarse values: ties along the axis are common
            let x = if int { ti(id, &s, p.imap(n, 0, |v| v % 3), p.pl(0)) } else { tf(fd, &s, p.fmap(n, 0, |v| (v / 2.0).round()), p.pl(0)) };
            let (_, a) = axis_of(s.len(), p.u(0), neg);
            let mut spec = Spec::new(op, vec![x]);
            if explicit_axis || a != 0 {
                spec = spec.ai("axis", a);
            }
            if let Some(k) = keepdims {
                spec = spec.ai("keepdims", k as i64);
            }
            if p.flag(1) {
                spec = spec.ai("select_last_index", 0);
            }
            spec
        })
        .boxed()
}

pub fn cumsum() -> BS<Spec> {
    (dims(1..=4, 1, 5), pool(), fdt(), idt(), any::<bool>(), any::<bool>(), 0u8..4)
        .prop_map(|(s, p, fd, id, int, neg, flags)| {
            let n = numel(&s);
            let x = if int { ti(id, &s, p.is(n, 0), p.pl(0)) } else { tf(fd, &s, p.fs(n, 0), p.pl(0)) };
            let (_, a) = axis_of(s.len(), p.u(0), neg);
            // axis: 0-D tensor, int32 or int64
            let axis = tscalar_i(if p.flag(1) { DType::I32 } else { DType::I64 }, a, p.pl(1));
            let mut spec = Spec::new("CumSum", vec![x, axis]);
            if flags & 1 != 0 {
                spec = spec.ai("exclusive", 1);
            }
            if flags & 2 != 0 {
                spec = spec.ai("reverse", 1);
            }
            spec
        })
        .boxed()
}

pub fn topk() -> BS<Spec> {
    (dims(1..=3, 1, 6), pool(), fdt(), idt(), any::<bool>(), any::<bool>(), 0u8..4)
        .prop_map(|(s, p, fd, id, int, neg, flags)| {
            let n = numel(&s);
            let x = if int { ti(id, &s, p.imap(n, 0, |v| v % 4), p.pl(0)) } else { tf(fd, &s, p.fmap(n, 0, |v| (v / 2.0).round()), p.pl(0)) };
            let (ai, a) = axis_of(s.len(), p.u(0), neg);
            let k = 1 + p.pick(1, s[ai]) as i64;
            let mut spec = if flags & 2 != 0 && !int {
                // opset 1 form: k attribute
                Spec::new("TopK", vec![x]).opset(1).ai("k", k)
            } else {
                Spec::new("TopK", vec![x, tvec(&[k], p.pl(1))])
            };
            if !(a == -1 && p.flag(2)) {
                spec = spec.ai("axis", a);
            }
            if flags & 1 != 0 && spec.opset >= 11 {
                spec = spec.ai("largest", 0);
            }
            spec.outs(2)
        })
        .boxed()
}

pub fn _unused(_: Attr) {}

#!/usr/bin/env python3
"""Build a one-node C15 case (JSON, the serde form of vc_ref::case::Case) by hand.

usage (python):  from mkcase import *; case("Add", [run("F32",[2],[1,2]), init("F32",[2],[3,4])], attrs={"axis":1}).save("x.json")
or CLI:  mkcase.py OUT.json OP 'in;in;...' 'k=v;k=v' [opset]
   in  := (r|i):DTYPE:dims:values   e.g. r:F32:2,3:1,2,3,4,5,6   |  i:I64:2:0,-1   |  -  (omitted)   scalar dims: empty
   v   := int | float (with '.') | [ints] | "str"
Run it with:  target/vc-ref/release/refdev --case OUT.json
"""
import json, sys

FLOAT = ("F32", "F64")
RUNTIME = {"F32": "F32", "F64": "F32", "I32": "I32", "I64": "I32", "Bool": "I32", "U8": "U8", "I8": "I8"}

def lit(dtype, dims, vals, raw=True):
    d = {"dtype": dtype, "dims": list(dims), "raw": raw}
    if dtype in FLOAT:
        d["f"] = [float(v) for v in vals]
    else:
        d["i"] = [int(v) for v in vals]
    return d

def run(dtype, dims, vals):
    return ("run", lit(dtype, dims, vals))

def init(dtype, dims, vals, raw=True):
    return ("init", lit(dtype, dims, vals, raw))

NONE = ("none", None)

def attr(v):
    if isinstance(v, bool):
        return {"Int": int(v)}
    if isinstance(v, int):
        return {"Int": v}
    if isinstance(v, float):
        return {"Float": v}
    if isinstance(v, str):
        return {"Str": v}
    if isinstance(v, list):
        if v and isinstance(v[0], float):
            return {"Floats": v}
        return {"Ints": v}
    raise ValueError(v)

class case:
    def __init__(self, op, ins, attrs=None, n_out=1, opset=20):
        g = {"nodes": [], "initializers": [], "inputs": [], "outputs": []}
        names, inputs = [], []
        for k, (kind, l) in enumerate(ins):
            name = f"x{k}"
            if kind == "none":
                names.append("")
            elif kind == "run":
                g["inputs"].append({"name": name, "dtype": l["dtype"], "shape": [{"Fixed": d} for d in l["dims"]]})
                rt = RUNTIME[l["dtype"]]
                data = l.get("f") if rt == "F32" else l.get("i")
                inputs.append([name, {rt: {"shape": l["dims"], "data": data}}])
                names.append(name)
            else:
                g["initializers"].append([name, l])
                names.append(name)
        while names and names[-1] == "":
            names.pop()
        outs = [f"y{k}" for k in range(n_out)]
        g["nodes"].append({"op": op, "name": "n0", "inputs": names, "outputs": outs, "attrs": [[k, attr(v)] for k, v in (attrs or {}).items()]})
        g["outputs"] = [{"name": o, "dtype": None, "shape": None} for o in outs]
        self.obj = {"model": {"graph": g, "opset": opset}, "inputs": inputs}

    def save(self, path):
        json.dump(self.obj, open(path, "w"))
        return path

def parse_in(s):
    s = s.strip()
    if s == "-":
        return NONE
    kind, dtype, dims, vals = s.split(":")
    dims = [int(d) for d in dims.split(",") if d != ""]
    vals = [float(v) if dtype in FLOAT else int(v) for v in vals.split(",") if v != ""]
    return (run if kind == "r" else init)(dtype, dims, vals)

def parse_val(v):
    v = v.strip()
    if v.startswith("["):
        return json.loads(v)
    if v.startswith('"'):
        return json.loads(v)
    if "." in v or "e" in v:
        return float(v)
    return int(v)

if __name__ == "__main__":
    out, op, ins = sys.argv[1], sys.argv[2], sys.argv[3]
    attrs = {}
    if len(sys.argv) > 4 and sys.argv[4]:
        for kv in sys.argv[4].split(";"):
            if kv.strip():
                k, v = kv.split("=", 1)
                attrs[k.strip()] = parse_val(v)
    opset = int(sys.argv[5]) if len(sys.argv) > 5 else 20
    n_out = int(sys.argv[6]) if len(sys.argv) > 6 else 1
    case(op, [parse_in(s) for s in ins.split(";")], attrs, n_out, opset).save(out)
